"""C11 / C12 / C01 - the ENCODER side of cencoding.pyx under contract, from the .pyx re-read on every run, plus the Python call
site that frames a bit-packed run by hand (writer.encode_dict).

Specification (Parquet format, "Encodings": RLE / bit-packing hybrid; PLAIN boolean), NOT the code:

    bit-packed-run    := varint-encode(<groups> << 1 | 1)  <bit-packed-values>
    groups            := ceil(number of values / 8)          ("we always bit-pack a multiple of 8 values at a time")
    bit-packed-values := groups * width BYTES: value j occupies stream bits [width*j, width*j + width), LSB first (stream bit t is bit
                         t % 8 of byte t / 8); the values that complete the last group are zero (padding)
    varint-encode     := ULEB128
    <length> prefix   := 4 bytes little endian = byte length of the encoded data that follows (hybrid with length, v1 levels)

Stream bit t of the payload is therefore   SPECBIT(t) = bit (t % width) of value[t / width]  if t < width * n,  else 0.

encode_bitpacked(values, width, o)   per width 0..32, ALL counts, by control-state closure over `bit` (pending bits, 0..7) at the head of
the value loop - the real loop body is executed once per reachable state with every assigned variable havoc'd under the invariant
    8*c + bit == width*e                      (c payload bytes written, e values consumed)
    o.loc == base + c                         (base = cursor after the header; nothing was dropped: capacity precondition)
    bits  == the `bit` pending stream bits [8c, 8c + bit), nothing above them
    payload bytes [0, c) == SPECBIT bytes, nothing else modified
  obligations (names are what a VIOLATION reports; [w=..] tags omitted here):
    encode_bitpacked.header_is_spec                 bytes at the old cursor == ULEB128((ceil(n/8) << 1) | 1), cursor after it == base
    encode_bitpacked.loop_bound_is_count            the loop runs over exactly the n values
    encode_bitpacked.closure.invariant_on_entry / .state(b)->(b').{spec_index_arithmetic, new_bits_are_value_bits, emitted_bytes_are_spec,
                      pending_bits_are_spec, cursor_algebra, output_prefix_is_spec_and_frame}
    encode_bitpacked.closure_completed              all reachable states closed under the real loop body
    encode_bitpacked.payload_bits_are_spec          WHOLE OUTPUT: every bit of every payload byte written == SPECBIT (posed at a Skolem byte)
    encode_bitpacked.cursor_covers_all_value_bits   cursor == base + ceil(width*n/8): every byte carrying a value bit is written, the last
                                                     one zero-padded
    encode_bitpacked.cursor_is_whole_groups[n%8==0] / [partial last group]   cursor == base + groups*width (the run the header announces)
    encode_bitpacked.frame                          nothing outside [old cursor, new cursor) is modified; .values_not_written
  safety (C12): view index and load of values[counter], shift amounts, header_fits_buffer / closure.state(b).bytes_of_this_value_fit /
    write_byte_inside_buffer (no byte is dropped by the guarded NumpyIO.write_byte under the capacity precondition), header value fits int32.
  Every query is quantifier-free: universally quantified facts (memory invariant, callee frames) are kept as instantiable facts on the path
  and instantiated at the Skolem indices of the goal.

encode_unsigned_varint.bytes_are_uleb[len=k]   callee contract used as a CUT inside encode_bitpacked: proved on the real source per length.
encode_rle_bp(data, width, o, withlength)      encode_bitpacked by its contract (cut: advances by K bytes, writes only those):
    encode_rle_bp[withlength=1].length_prefix_is_payload_size / .cursor / .run_bytes_untouched_by_prefix / .frame ; [withlength=0].is_encode_bitpacked
write_bitpacked1(file_obj, count, o)           PLAIN boolean packing: output bit j (LSB first) == input byte j; cursors; frame; loop invariant
    posed twice: [order=lsb] is the Parquet order (and the inverse of read_bitpacked1), [order=msb] the np.packbits order its comment names.
writer.encode_dict (Python)                     block == width byte ++ ULEB128((ceil(n/8) << 1) | 1) ++ values.tobytes(); 10-byte scratch
    capacity; encode_dict.run_is_whole_groups: the payload has the groups*width bytes the header announces.
writer.make_definitions, branch with nulls (Python)   block == [le32(len)] ++ ULEB128((G << 1) | 1) ++ packed bits (G bytes, from numpy);
    make_definitions[nulls][v1|v2].header_value_is_spec / .block_is_spec / .run_covers_all_levels / scratch capacity
Round trip (C11, C01), stated over the byte-level spec shared with the decoder contracts (kernels.spec_bitpacked_value is the function
`read_bitpacked[w].values` is proved against):
    bitpacked.roundtrip[w]        stream == SPECBIT stream of x  =>  spec_bitpacked_value(stream, w, j) == x[j]  for every j < n
    hybrid.header_roundtrip       (groups << 1 | 1) is dispatched to the bit-packed branch with `groups` groups (read_rle_bit_packed_hybrid's
                                  test `header & 1`, count header >> 1)
    dict_index.roundtrip[w=8,16,32]   little-endian items (values.tobytes()) ARE the bit-packed stream at width 8*itemsize
    bitpacked1.roundtrip          LSB-first packed booleans decode (read_bitpacked1.values) to the input
"""
import ast
import time

import z3

from vc import backends
from vc.symexec import (Engine, Path, CI, Ptr, PyI, PyB, Ref, View, LoopSpec, Unsupported, NONE, NoneV, Opaque, Custom, BytesV, Tup, CT)
from vlib.common import PROVED, REFUTED, UNKNOWN
from . import cy
from .kernels import KResults, post, mv, _cval, spec_bitpacked_value, _bit
from .c10_thrift import uleb_bytes, uleb_len64
from .util import solve

ASSUMED = [
    "callee contract (cut) inside encode_bitpacked: encode_unsigned_varint(x, o) with loc + uleb_len(x) <= nbytes writes the minimal "
    "ULEB128 of x at the cursor, advances by its length and modifies nothing else - proved on the real source by "
    "encode_unsigned_varint.bytes_are_uleb[len=1..10] / .cursor / .frame in the same run",
    "callee contract (cut) inside encode_bitpacked: NumpyIO.write_byte(b) with loc < nbytes (posed as the caller's obligation "
    "write_byte_inside_buffer) stores b at loc and advances loc by one - proved on the real source by NumpyIO.write_byte.effect / .frame "
    "(contracts/kernels.py, same property)",
    "callee contract (cut) inside encode_rle_bp: encode_bitpacked advances the cursor by K >= 1 bytes and writes only those K bytes - "
    "proved per width by encode_bitpacked[w].cursor_covers_all_value_bits / .frame / .header_is_spec",
    "precondition of the encoders: every value v satisfies 0 <= v < 2**width (callers choose width = width_from_max_int(max)); "
    "the output buffer has room for what the kernel writes (NumpyIO.write_byte drops bytes silently when full)",
    "write_bitpacked1: the input is a numpy bool / int8 array of 0 and 1 (one byte per value)",
    "writer.encode_dict: data.values.tobytes() is the little-endian image of len(data) items of dtype.itemsize bytes (numpy); "
    "dtype.itemsize in {1, 2, 4}; len(data) < 2**31",
    "writer.make_definitions (branch with nulls): encode_plain of the boolean not-null mask (np.pad(x, (0, 8 - len % 8)) + np.packbits on the "
    "bit-reversed groups) returns len // 8 + 1 bytes holding the mask LSB first - numpy, out of reach of the generator: only the framing "
    "around those bytes is under contract",
    "composition of a round trip from the encoder post, the lemma bitpacked.roundtrip[w] and the decoder contract read_bitpacked[w].values "
    "is by transitivity over the shared specification function (argued, not mechanised as one run)",
]

MemSort = cy.MemSort
BV1 = z3.BitVecSort(1)

_HASQ = {}


def has_q(e):
    k = e.get_id()
    r = _HASQ.get(k)
    if r is None:
        r = z3.is_quantifier(e) or any(has_q(c) for c in e.children())
        _HASQ[k] = (r, e)                      # keep the term alive: ids are only unique among live terms
        return r
    return r[0]


_HASBV = {}


def has_bv(e):
    k = e.get_id()
    r = _HASBV.get(k)
    if r is None:
        srt = e.sort()
        r = srt.kind() in (z3.Z3_BV_SORT, z3.Z3_ARRAY_SORT) or z3.is_quantifier(e) or any(has_bv(c) for c in e.children())
        _HASBV[k] = (r, e)
        return r
    return r[0]


def lia_part(pc):
    """the purely arithmetic part of a path condition (no bit-vector, array or quantified subterm): enough for cursor algebra"""
    return [c for c in pc if not has_bv(c)]


def qf(pc):
    """the quantifier-free part of a path condition (dropping hypotheses is sound for PROVED; used where the goal is linear / bit-vector
    and a counter-model is wanted quickly)"""
    return [c for c in pc if not has_q(c)]


def discharge(ob, timeout_ms):
    """as vc.backends.discharge (quantifier-free hypotheses first), with the quantifier test cached per term; an `unknown` is
    retried once with four times the limit (load must not flip a provable obligation to undecided)"""
    r = _discharge_once(ob, timeout_ms)
    if r[0] == UNKNOWN:
        r2 = _discharge_once(ob, 4 * timeout_ms)
        return (r2[0], r2[1], r[2] + r2[2], r2[3])
    return r


def _discharge_once(ob, timeout_ms):
    t = time.time()
    g = ob.goal
    if z3.is_true(g):
        return PROVED, "simplify", time.time() - t, None
    q0 = qf(ob.pc)
    if len(q0) != len(ob.pc) or ob.axioms:
        s0 = z3.Solver()
        s0.set("timeout", min(3000, timeout_ms))
        s0.add(*q0)
        s0.add(z3.Not(g))
        r0 = s0.check()
        if r0 == z3.unsat:
            return PROVED, "z3", time.time() - t, None
    s = z3.Solver()
    s.set("timeout", backends.scaled_timeout(timeout_ms))
    s.add(*ob.pc)
    s.add(*ob.axioms)
    s.add(z3.Not(g))
    r = s.check()
    if r == z3.unsat:
        return PROVED, "z3", time.time() - t, None
    if r == z3.sat:
        return REFUTED, "z3", time.time() - t, s.model()
    r2 = backends._cvc5(s.to_smt2(), timeout_ms)
    if r2 == "unsat":
        return PROVED, "cvc5", time.time() - t, None
    return UNKNOWN, "z3+cvc5", time.time() - t, None


class EResults(KResults):
    def take_engine(self, eng, prefix, timeout, model_fn=None):
        for ob in eng.oblig:
            st, be, secs, m = discharge(ob, timeout)
            nm = prefix + ob.name.split(".", 1)[-1]
            self.kind[nm] = "safety" if ob.kind in ("safety", "unwind", "assert") else "functional"
            self.add(nm, st, model_fn(m) if (m is not None and model_fn) else ({"z3_model": str(m)[:400]} if m is not None else None),
                     secs, be, ob.note or ob.kind)
        eng.oblig = []


class EncEngine(Engine):
    """`(even value) | 1` keeps its integer view (value + 1): the run header `groups << 1 | 1` stays linear arithmetic.  Evenness is
    decided by the solver under the path condition, like the engine's own representability checks."""

    def fits_fn(self, p):
        """as the engine's, on the quantifier-free path condition and with a timeout that survives a loaded machine"""
        if p is None:
            return None

        def fits(iv, lo, hi):
            sol = z3.Solver()
            sol.set("timeout", 3000)
            sol.add(*qf(p.pc))
            sol.add(z3.Or(iv < lo, iv > hi))
            return sol.check() == z3.unsat
        return fits

    def _even(self, p, iv):
        s = z3.Solver()
        s.set("timeout", 3000)
        if p is not None:
            s.add(*qf(p.pc))
        s.add(iv % 2 != 0)
        return s.check() == z3.unsat

    @staticmethod
    def _is_one(c):
        v = z3.simplify(c.iv) if c.iv is not None else z3.simplify(c.bv)
        return (z3.is_int_value(v) or z3.is_bv_value(v)) and v.as_long() == 1

    def c_binop(self, op, a, b, p, node):
        r = super().c_binop(op, a, b, p, node)
        if isinstance(op, ast.BitOr) and isinstance(r, CI) and r.iv is None:
            x, y = self.usual(a, b, p)
            for u, v in ((x, y), (y, x)):
                if self._is_one(v) and u.iv is not None and self._even(p, u.iv):
                    # an even value of the type is at most max - 1: value + 1 is representable
                    return CI(r.bv, r.bits, r.signed, u.iv + 1, (u.rng[0], u.rng[1] | 1) if u.rng else None)
        return r

    def conv(self, v, bits, signed, p=None):
        # a symbolic Python int converted to a C integer keeps its value without `mod` when the solver shows it representable
        # under the path condition (the engine does this for C integers; here also for Python ints such as `(n + 7) // 8`)
        if isinstance(v, PyI) and p is not None and not z3.is_int_value(z3.simplify(v.z)):
            lo, hi = (-(1 << (bits - 1)), (1 << (bits - 1)) - 1) if signed else (0, (1 << bits) - 1)
            s = z3.Solver()
            s.set("timeout", 3000)
            s.add(*qf(p.pc))
            s.add(z3.Or(v.z < lo, v.z > hi))
            if s.check() == z3.unsat:
                return CI(z3.Int2BV(v.z, bits), bits, signed, v.z, (lo, hi))
        return super().conv(v, bits, signed, p)

    def py_arith(self, op, x, y, p, node):
        if isinstance(op, ast.BitOr):
            sy = z3.simplify(y)
            if z3.is_int_value(sy) and sy.as_long() == 1 and not z3.is_int_value(z3.simplify(x)) and self._even(p, x):
                return x + 1
        return super().py_arith(op, x, y, p, node)


def engine(loops=None, handlers=None, extra_funcs=None, opaque_calls=False):
    funcs, fields, consts = cy.load()
    if extra_funcs:
        funcs = dict(funcs)
        funcs.update(extra_funcs)
    eng = EncEngine(funcs=funcs, inline=("*",), loops=loops or {}, handlers=handlers or {}, opaque_calls=opaque_calls)
    eng.class_fields = fields
    eng.feas_timeout = 3000
    for name, (t, expr) in consts.items():
        ct = eng.ctype(t)
        if ct:
            eng.consts[name] = CI(z3.BitVecVal(int(expr, 0), ct[0]), ct[0], ct[1])
    return eng


# =================================================================================================
# specification functions
# =================================================================================================
def value_at(vmem, j):
    """values[j] as the little-endian int32 at byte 4*j of the values region"""
    return z3.Concat(*[z3.Select(vmem, 4 * j + b) for b in reversed(range(4))])


def specbit(vmem, w, n, t):
    """SPECBIT(t): stream bit t of the bit-packed payload of n values of width w (1 bit)"""
    if w == 0:
        return z3.BitVecVal(0, 1)
    v = value_at(vmem, t / w)
    return z3.If(t < w * n, z3.Extract(0, 0, z3.LShR(v, z3.Int2BV(t % w, 32))), z3.BitVecVal(0, 1))


def specbyte_of(fn_bit, i):
    """byte i of a stream given its bit function (bit u of the byte is stream bit 8*i + u)"""
    return z3.Concat(*[fn_bit(8 * i + u) for u in reversed(range(8))])


def uleb_len_int(x):
    """ULEB128 length of an Int in [0, 2**64): the smallest L >= 1 with x < 2**(7L)"""
    L = z3.IntVal(10)
    for j in reversed(range(1, 10)):
        L = z3.If(x < 2 ** (7 * j), j, L)
    return L


def in_width(vbv, w):
    if w >= 32:
        return z3.BoolVal(True)
    return z3.LShR(vbv, w) == 0


# =================================================================================================
# encode_unsigned_varint: bytes == ULEB128 (the callee contract used as a cut below)
# =================================================================================================
def varint_bytes_lemma(timeout):
    """for every uint64 x (an Int with its bit-vector image, as the engine carries counters): encode_unsigned_varint(x, o) with room for
    the L = uleb_len(x) bytes writes ULEB128(x) at the cursor, advances by L, modifies nothing else.  Posed per length."""
    res = EResults()
    k = z3.Int("k_skolem")
    for j in range(1, 11):
        eng = engine(loops={("encode_unsigned_varint", 0): LoopSpec("unroll", 10)})
        p = Path()
        o = cy.new_io(p, "o")
        x = CI.var("x", 64, False)
        p.pc.append(x.range_constraint())
        loc0, n, mem0 = cy.loc(p, "o"), cy.nbytes(p, "o"), p.mem["o"]
        p.pc += [uleb_len_int(x.iv) == j, loc0 + j <= n]
        mf = lambda m: {"x": mv(m, x.iv), "loc": mv(m, loc0), "nbytes": mv(m, n)}
        if solve(list(p.pc), 5000)[0] != REFUTED:
            res.addk(f"encode_unsigned_varint.bytes_are_uleb[len={j}]", "functional", UNKNOWN, None, 0.0, "z3", "precondition not shown satisfiable")
            continue
        outs = eng.run("encode_unsigned_varint", p, [x, o])
        res.take_engine(eng, f"encode_unsigned_varint[len={j}].", timeout, mf)
        nret = 0
        for q in outs:
            if q.ctl[0] != "ret":
                continue
            nret += 1
            m1 = q.mem["o"]
            post(res, f"encode_unsigned_varint.bytes_are_uleb[len={j}]", q.pc,
                 z3.And(uleb_bytes(m1, loc0, x.bv, z3.IntVal(j)), cy.loc(q, "o") == loc0 + j), timeout,
                 "the minimal ULEB128 of x (7 bits per byte, low group first, continuation bit on all but the last) is written at the "
                 "cursor and the cursor advances by its length - when it fits", mf)
            post(res, f"encode_unsigned_varint.frame[len={j}]", q.pc,
                 z3.Implies(z3.Or(k < loc0, k >= loc0 + j), z3.Select(m1, k) == z3.Select(mem0, k)), timeout,
                 "nothing outside the varint's bytes is modified", mf)
        if nret == 0:
            res.addk(f"encode_unsigned_varint.bytes_are_uleb[len={j}]", "functional", UNKNOWN, None, 0.0, "engine", "no returning path")
    return res


def h_varint_contract(eng, p, args, kw, node):
    """encode_unsigned_varint(x, o) by its contract (varint_bytes_lemma), instantiated at the integer the caller passes; requires
    loc + L <= nbytes (posed as an obligation of the caller)"""
    x, o = args[0], args[1]
    if not isinstance(o, Ref):
        raise Unsupported("encode_unsigned_varint: output is not a NumpyIO")
    xc = eng.conv(x, 64, False, p)
    if xc.iv is None:
        raise Unsupported("encode_unsigned_varint: the argument has no integer view (callee contract not applicable)")
    name = o.oid
    loc0, nb = cy.loc(p, name), cy.nbytes(p, name)
    xi = xc.iv
    xb = z3.Int2BV(xi, 64)
    L = uleb_len_int(xi)
    eng.oblige(p, f"{eng.cur_func}.header_fits_buffer@L{node.lineno}", "safety", loc0 + L <= nb, node,
               note="precondition of the callee contract: the varint fits the output buffer (write_byte drops bytes silently otherwise)")
    k = next(eng.counter)
    m1 = z3.Const(f"mem_after_varint!{k}", MemSort)
    nl = CI.var(f"loc_after_varint!{k}", 32, False)
    old = p.mem[name]
    p.ghost["varint_calls"] = p.ghost.get("varint_calls", []) + [(loc0, xi, L, old, m1)]
    p.mem[name] = m1
    p.heap[name] = dict(p.heap[name], loc=nl)
    p.pc += [xi >= 0, xi < 2 ** 64, nl.range_constraint(), nl.iv == loc0 + L, uleb_bytes(m1, loc0, xb, L)]
    p.ghost["facts"] = p.ghost.get("facts", []) + [
        ("frame", lambda i, m1=m1, old=old, loc0=loc0, L=L: z3.Implies(z3.Or(i < loc0, i >= loc0 + L), z3.Select(m1, i) == z3.Select(old, i)))]
    return [(p, NONE)]


# =================================================================================================
# encode_bitpacked: control-state closure over `bit`
# =================================================================================================
def _assigned_names(stmts):
    names = set()
    for nd in ast.walk(ast.Module(body=list(stmts), type_ignores=[])):
        if isinstance(nd, (ast.Assign, ast.AugAssign, ast.AnnAssign, ast.For)):
            tg = nd.targets if isinstance(nd, ast.Assign) else [nd.target]
            for t in tg:
                for m in ast.walk(t):
                    if isinstance(m, ast.Name):
                        names.add(m.id)
    return names


def h_write_byte_contract(eng, p, args, kw, node):
    """NumpyIO.write_byte(b) by its contract (kernels: NumpyIO.write_byte.effect / .frame, proved on the real source in the same property):
    with loc < nbytes - posed as an obligation of the caller - the byte is stored at loc and loc advances by one; nothing else changes"""
    o, b = args[0], args[1]
    if not isinstance(o, Ref):
        raise Unsupported("write_byte on something that is not a NumpyIO")
    name = o.oid
    loc0, nb = cy.loc(p, name), cy.nbytes(p, name)
    eng.oblige(p, f"{eng.cur_func}.write_byte_inside_buffer@L{node.lineno}", "safety", z3.And(loc0 >= 0, loc0 < nb), node,
               note="NumpyIO.write_byte drops the byte silently when the buffer is full: the caller's capacity precondition must exclude it")
    bv = eng.conv(b, 8, False, p).bv
    p.mem[name] = z3.Store(p.mem[name], loc0, bv)
    nl = loc0 + 1
    p.heap[name] = dict(p.heap[name], loc=CI(z3.Int2BV(nl, 32), 32, False, nl, (0, 2 ** 32 - 1)))
    p.pc.append(loc0 < nb)                      # cut (posed just above)
    return [(p, NONE)]


def inst(p, kind, *terms):
    """instances of the universally quantified facts of kind `kind` recorded on path p (p.ghost['facts']: list of (kind, fn(term) -> Bool));
    the facts are never put into the path condition as quantifiers: every query stays quantifier-free"""
    return [f(t) for k, f in p.ghost.get("facts", []) if k == kind for t in terms]


def encode_bitpacked_closure(w, timeout, max_states=64):
    res = EResults()
    tag = f"[w={w}]"
    state = {"seen": {}}
    VB = z3.Function(f"SPECBIT_w{w}", z3.IntSort(), BV1)      # SPECBIT(t); defined, instances added where a particular t is needed
    pre = f"encode_bitpacked{tag}."

    def prove(name, hyps, goal, note, mf, kind="functional"):
        st, m, secs = solve(list(hyps) + [z3.Not(goal)], timeout)
        res.addk(pre + name, kind, st, mf(m) if m is not None else None, secs, "z3", note)
        return st

    def mk_inv(p, b, c, e, bits, n, base):
        """invariant of control state bit == b over ghost c (payload bytes written), e (values consumed): linear part, accumulator part"""
        lia = [c >= 0, 0 <= e, e <= n, 8 * c + b == w * e, cy.loc(p, "o") == base + c]
        bvs = []
        if not (0 <= b < 8):
            bvs.append(z3.BoolVal(False))
        else:
            for u in range(b):
                bvs.append(z3.Extract(u, u, bits) == VB(8 * c + u))
            bvs.append(z3.LShR(bits, b) == 0)
        return lia, bvs

    def mem_facts(m, c, base, mem_h):
        """memory part of the invariant, as instantiable facts: payload bytes [0, c) are the SPECBIT bytes; nothing else differs from the
        memory right after the header"""
        return [("spec", lambda i, m=m, c=c: z3.Implies(z3.And(0 <= i, i < c), z3.Select(m, base + i) == specbyte_of(VB, i))),
                ("frame", lambda idx, m=m, c=c: z3.Implies(z3.Or(idx < base, idx >= base + c), z3.Select(m, idx) == z3.Select(mem_h, idx)))]

    def hook(eng, st, p):
        g = p.ghost
        n, vmem, mf = g["n"], g["vmem"], g["mf"]
        if not (isinstance(st, ast.For) and isinstance(st.iter, ast.Call) and getattr(st.iter.func, "id", None) == "range"
                and len(st.iter.args) == 1):
            raise Unsupported("encode_bitpacked: the value loop is not `for .. in range(count)`")
        evs = eng.ev_list(st.iter.args, p)
        if len(evs) != 1:
            raise Unsupported("forking loop bound")
        p, hargs = evs[0]
        hi = eng.as_int(hargs[0], p, st)
        prove("loop_bound_is_count", p.pc, hi == n, "the value loop visits exactly the n values", mf)
        p.pc.append(hi == n)                                    # cut (posed just above)
        base = cy.loc(p, "o")
        mem_h = p.mem["o"]
        g["base"], g["mem_h"] = base, mem_h
        header_facts = list(g.get("facts", []))
        # the control variable (pending bit count) is the one the inner `while <name> >= 8` drains; the accumulator is the target of `|=`
        BIT = next((nd.test.left.id for nd in ast.walk(st) if isinstance(nd, ast.While) and isinstance(nd.test, ast.Compare)
                    and isinstance(nd.test.left, ast.Name)), "bit")
        BITS = next((nd.target.id for nd in ast.walk(st) if isinstance(nd, ast.AugAssign) and isinstance(nd.op, ast.BitOr)
                     and isinstance(nd.target, ast.Name)), "bits")
        g["names"] = (BIT, BITS)
        b0 = _cval(p.env[BIT]) if isinstance(p.env.get(BIT), CI) else None
        if b0 is None or not isinstance(p.env.get(BITS), CI):
            raise Unsupported("encode_bitpacked: pending-bit counter / accumulator not found or not concrete on loop entry")
        lia, bvs = mk_inv(p, b0, z3.IntVal(0), z3.IntVal(0), eng.conv(p.env[BITS], 32, True, p).bv, n, base)
        prove(f"closure.invariant_on_entry(bit={b0})", p.pc, z3.And(*lia, *bvs),
              "before the first value: no payload byte written, no pending bit, accumulator zero", mf)
        assigned = _assigned_names(st.body) | _assigned_names([st])
        todo, exits = [b0], []
        while todo and len(state["seen"]) < max_states:
            b = todo.pop()
            if b in state["seen"]:
                continue
            state["seen"][b] = True
            q = p.fork()
            k = next(eng.counter)
            c, e = z3.Int(f"c!{k}"), z3.Int(f"e!{k}")
            bits = z3.BitVec(f"bits!{k}", 32)
            M = z3.Const(f"omem!{k}", MemSort)
            q.mem["o"] = M
            q.heap["o"] = dict(q.heap["o"])
            oloc = z3.Int(f"oloc!{k}")
            q.heap["o"]["loc"] = CI(z3.Int2BV(oloc, 32), 32, False, oloc, (0, 2 ** 32 - 1))
            q.pc += [oloc >= 0, oloc < 2 ** 32]
            lia, bvs = mk_inv(q, b, c, e, bits, n, base)
            q.pc += lia + bvs
            q.ghost["facts"] = header_facts + mem_facts(M, c, base, mem_h)
            q.env = dict(q.env)
            # every local the body assigns is arbitrary (under the invariant)
            for nm in sorted(assigned):
                if nm in (BIT, BITS) or nm not in q.env:
                    continue
                v0 = q.env[nm]
                if isinstance(v0, NoneV) or v0 is NONE:
                    continue
                q.env[nm] = eng.havoc_like(v0, nm + "_havoc", q)
            q.env[BIT] = CI(z3.BitVecVal(b, 32), 32, True, z3.IntVal(b), (b, b))
            q.env[BITS] = CI(bits, 32, True)
            ex = q.fork(z3.Not(e < hi))
            if eng.feasible(ex):
                ex.ghost["exit_state"] = (b, c, e)
                ex.ghost["exit_bvs"] = list(bvs)
                exits.append(ex)
            body = q.fork(e < hi)
            if not eng.feasible(body):
                continue
            ve = value_at(vmem, e)
            # precondition `every value lies inside the width`, instantiated at the value this iteration reads
            body.pc.append(in_width(ve, w))
            # cut: the bytes this iteration completes fit the buffer (from the capacity precondition; proved, then used - it makes the
            # `buffer full` branch of write_byte infeasible without re-deriving it at every store)
            m_fit = (b + w) // 8 if 0 <= b < 8 else 0
            if m_fit:
                fitl = oloc + m_fit <= cy.nbytes(body, "o")
                if prove(f"closure.state(bit={b}).bytes_of_this_value_fit", lia_part(body.pc), fitl,
                         "capacity precondition => the bytes completed by this value fit the buffer", mf, kind="safety") == PROVED:
                    body.pc.append(fitl)
            starts = eng.assign(st.target, PyI(e), body)
            n_before = len(eng.oblig)
            outs = eng.block(st.body, starts)
            for ob in eng.oblig[n_before:]:
                ob.name = ob.name + f"@state(bit={b})"
            for r in outs:
                if r.ctl is not None:
                    raise Unsupported("abrupt exit inside the encode_bitpacked value loop")
                b2 = _cval(r.env[BIT]) if isinstance(r.env.get(BIT), CI) else None
                if b2 is None:
                    raise Unsupported("pending-bit counter not concrete after one loop iteration")
                nm = f"closure.state(bit={b})->(bit={b2})"
                c2 = z3.simplify(cy.loc(r, "o") - base)
                bits2 = eng.conv(r.env[BITS], 32, True, r).bv
                M2 = r.mem["o"]
                core = [8 * c + b == w * e, 0 <= e, e < n, c >= 0]
                if w > 0:
                    # (1) index arithmetic of the new value's bits (linear lemma on its own hypotheses; proved, then used)
                    s_ = z3.Int(f"s!{k}")
                    t_s = 8 * c + b + s_
                    prove(nm + ".spec_index_arithmetic", core + [0 <= s_, s_ < w], z3.And(t_s / w == e, t_s % w == s_, t_s < w * n),
                          "from 8c + bit == width*e and e < n: stream bit 8c + bit + s (0 <= s < width) is bit s of value e", mf)
                    # (2) SPECBIT at those positions == the value's bits (the definition of SPECBIT evaluated; proved, then used)
                    lem = []
                    for s in range(w):
                        t = 8 * c + (b + s)
                        idx_inst = [t / w == e, t % w == s, t < w * n]                     # instances of lemma (1)
                        lem.append((idx_inst, specbit(vmem, w, n, t) == z3.Extract(s, s, ve)))
                    st_l, m_l, secs_l = PROVED, None, 0.0
                    for hy, gl in lem:
                        st1, m1_, s1 = solve(hy + [z3.Not(gl)], timeout)
                        secs_l += s1
                        if st1 != PROVED:
                            st_l, m_l = st1, m1_
                            break
                    res.addk(pre + nm + ".new_bits_are_value_bits", "functional", st_l, mf(m_l) if m_l is not None else None, secs_l, "z3",
                             "SPECBIT(8c + bit + s) == bit s of values[e] for 0 <= s < width")
                    for s in range(w):
                        t = 8 * c + (b + s)
                        # instance of the definition of SPECBIT, rewritten with the lemma just proved
                        r.pc.append(VB(t) == z3.Extract(s, s, ve))
                # (3) every byte stored in this iteration is the specification byte, stored in order at the cursor
                m_new = (b + w) // 8 if 0 <= b < 8 else 0
                stored = z3.And(*[z3.Select(M2, oloc + t_) == z3.Concat(*[VB(8 * c + (8 * t_ + u)) for u in reversed(range(8))])
                                  for t_ in range(m_new)]) if m_new else z3.BoolVal(True)
                untouched = [M2 == M] if m_new == 0 else []
                prove(nm + ".emitted_bytes_are_spec", r.pc, z3.And(c2 == c + m_new, stored, *untouched),
                      f"the {m_new} byte(s) completed by this value are written in order at the cursor and equal the SPECBIT bytes", mf)
                r.pc += [c2 == c + m_new, stored] + untouched
                # (4) the pending bits are the next stream bits and nothing else (no bit lost or smeared in the 32-bit accumulator)
                lia2, bvs2 = mk_inv(r, b2, c + m_new, e + 1, bits2, n, base)
                prove(nm + ".pending_bits_are_spec", r.pc, z3.And(*bvs2),
                      "bits == the `bit` stream bits after the last complete byte, zero above them (v << bit keeps every bit; bits >>= 8 "
                      "shifts in zeros)", mf)
                prove(nm + ".cursor_algebra", lia_part(r.pc), z3.And(*lia2), "8c + bit == width*e, cursor == base + c, e <= n after the iteration", mf)
                # (5) memory invariant, at Skolem indices, from the instances of the old one
                i0, x0 = z3.Int(f"i0!{k}"), z3.Int(f"x0!{k}")
                new = dict(mem_facts(M2, c + m_new, base, mem_h))
                prove(nm + ".output_prefix_is_spec_and_frame",
                      [oloc == base + c, c >= 0, stored] + untouched + inst(r, "spec", i0) + inst(r, "frame", x0),
                      z3.And(new["spec"](i0), new["frame"](x0)),
                      "payload bytes [0, c') are the SPECBIT bytes and nothing else differs from the memory after the header", mf)
                prove(nm + ".values_not_written", [], r.mem["vals"] == vmem, "the input is not written", mf)
                if not z3.is_false(z3.simplify(z3.And(*bvs2))):
                    todo.append(b2)
        if todo:
            raise Unsupported("control-state closure did not close within the state budget")
        return exits
    loops = {("encode_bitpacked", 0): LoopSpec("hook", inv=hook), ("encode_bitpacked", 1): LoopSpec("unroll", 6)}
    eng = engine(loops=loops, handlers={"encode_unsigned_varint": h_varint_contract, "NumpyIO.write_byte": h_write_byte_contract})
    p = Path()
    o = cy.new_io(p, "o")
    n = z3.Int("n_values")
    vmem = z3.Const("vals_mem", MemSort)
    p.mem["vals"] = vmem
    p.rsize["vals"] = 4 * n
    values = View("vals", z3.IntVal(0), n, (32, True))
    loc0, on, mem0 = cy.loc(p, "o"), cy.nbytes(p, "o"), p.mem["o"]
    groups = (n + 7) / 8
    hdr = 2 * groups + 1
    L = uleb_len_int(hdr)
    nbits = w * n
    pay = (nbits + 7) / 8
    # requires: 0 <= n <= 2**31 - 8 (run lengths are < 2**31 in the format), room for what the kernel writes, values inside the width
    # (instantiated per iteration)
    p.pc += [n >= 0, n <= 2 ** 31 - 8, loc0 + L + pay <= on]
    mf = lambda m: {"width": w, "n_values": mv(m, n), "o_loc": mv(m, loc0), "o_nbytes": mv(m, on)}
    p.ghost.update(n=n, vmem=vmem, mf=mf)
    # vacuity guard
    if solve(list(p.pc) + [n >= 9], 5000)[0] != REFUTED:
        res.addk(pre + "precondition_satisfiable", "functional", UNKNOWN, None, 0.0, "z3", "not shown satisfiable")
        return res
    try:
        outs = eng.run("encode_bitpacked", p, [values, PyI(w, lit=True), o])
    except Unsupported as ex:
        res.take_engine(eng, pre, timeout, mf)
        res.addk(pre + "closure_completed", "functional", UNKNOWN, None, 0.0, "engine", str(ex))
        return res
    res.take_engine(eng, pre, timeout, mf)
    res.addk(pre + "closure_completed", "functional", PROVED, None, 0.0, "closure",
             f"{len(state['seen'])} control states (pending bit count) reachable; closed under the real loop body")
    i_sk, idx = z3.Int("i_sk"), z3.Int("idx_sk")
    nret = 0
    for q in outs:
        if q.ctl[0] != "ret":
            continue
        nret += 1
        m1 = q.mem["o"]
        loc1 = cy.loc(q, "o")
        base = q.ghost.get("base")
        if base is None:
            res.addk(pre + "closure_completed", "functional", UNKNOWN, None, 0.0, "engine", "the value loop was not reached")
            continue
        calls = q.ghost.get("varint_calls", [])
        # header: exactly one varint, at the old cursor, of the specification value; its bytes survive the payload writes
        if len(calls) == 1:
            at, xi, Lc, _, _ = calls[0]
            hb = [loc0 + u for u in range(10)]
            prove("header_is_spec", list(q.pc) + inst(q, "frame", *hb),
                  z3.And(at == loc0, xi == hdr, base == loc0 + L, uleb_bytes(m1, loc0, z3.Int2BV(hdr, 64), L)),
                  "the run starts at the old cursor with ULEB128((ceil(n/8) << 1) | 1), written exactly once, intact after the payload writes", mf)
        else:
            res.addk(pre + "header_is_spec", "functional", REFUTED, {"varint_calls": len(calls)}, 0.0, "engine",
                     "the run header must be written exactly once")
        # whole payload, bit by bit, at a Skolem byte index
        cw = loc1 - base
        # SPECBIT(t) stands for its definition (specbit(values, w, n, t)): the equality of the two is the definition itself, and the only
        # other facts about SPECBIT on this path are the invariant and the instances proved as `new_bits_are_value_bits`
        goal = z3.And(*[z3.Extract(u, u, z3.Select(m1, base + i_sk)) == VB(8 * i_sk + u) for u in range(8)])
        padding = [z3.Implies(8 * i_sk + u >= w * n, VB(8 * i_sk + u) == 0) for u in range(8)]     # definition of SPECBIT beyond the values
        prove("payload_bits_are_spec", lia_part(q.pc) + q.ghost.get("exit_bvs", []) + inst(q, "spec", i_sk) + padding + [0 <= i_sk, i_sk < cw], goal,
              "every bit of every payload byte written: stream bit t == bit (t % w) of values[t / w] for t < w*n, 0 (padding) beyond", mf)
        prove("cursor_covers_all_value_bits", lia_part(q.pc), loc1 == base + pay,
              "cursor == header end + ceil(w*n/8): all bytes carrying value bits are written (the last zero-padded), none beyond", mf)
        prove("cursor_is_whole_groups[n%8==0]", lia_part(q.pc) + [n % 8 == 0], loc1 == base + groups * w,
              "n a multiple of 8: the payload is exactly the groups*width bytes the header announces", mf)
        prove("cursor_is_whole_groups[partial last group]", lia_part(q.pc) + [n % 8 != 0], loc1 == base + groups * w,
              "n not a multiple of 8: the last group is completed with zero values - the payload is still groups*width bytes", mf)
        prove("frame", list(q.pc) + inst(q, "frame", idx) + [z3.Or(idx < loc0, idx >= loc1)], z3.Select(m1, idx) == z3.Select(mem0, idx),
              "nothing outside [old cursor, new cursor) is modified", mf)
        prove("values_not_written", [], q.mem["vals"] == vmem, "the input is not written", mf)
        prove("header_value_fits_int32", lia_part(q.pc), hdr <= 2 ** 31 - 1,
              "(ceil(n/8) << 1) | 1 is representable in the int32 it is computed in, for every run length the format allows", mf, kind="safety")
    if nret == 0:
        res.addk(pre + "payload_bits_are_spec", "functional", UNKNOWN, None, 0.0, "engine", "no returning path")
    return res


# =================================================================================================
# encode_rle_bp: optional 4-byte length prefix around one bit-packed run (encode_bitpacked by its contract)
# =================================================================================================
def k_encode_rle_bp(timeout):
    res = EResults()
    pre = "encode_rle_bp"
    K = z3.Int("K_run_bytes")
    calls = []

    def h_bp(eng, p, args, kw, node):
        """encode_bitpacked(values, width, o) by its contract: advances by K bytes (header + payload), writes only those"""
        values, width, o = args
        if not isinstance(o, Ref):
            raise Unsupported("encode_bitpacked: output is not a NumpyIO")
        name = o.oid
        loc0, nb = cy.loc(p, name), cy.nbytes(p, name)
        eng.oblige(p, f"encode_rle_bp.run_fits_buffer@L{node.lineno}", "safety", loc0 + K <= nb, node,
                   note="precondition of the callee contract: room for the run at the cursor the run is written at")
        k = next(eng.counter)
        m1 = z3.Const(f"mem_after_run!{k}", MemSort)
        nl = CI.var(f"loc_after_run!{k}", 32, False)
        old = p.mem[name]
        p.ghost["bp_calls"] = p.ghost.get("bp_calls", []) + [(values, width, o, loc0, old, m1)]
        p.mem[name] = m1
        p.heap[name] = dict(p.heap[name], loc=nl)
        p.pc += [nl.range_constraint(), nl.iv == loc0 + K]
        p.ghost["facts"] = p.ghost.get("facts", []) + [
            ("frame", lambda i, m1=m1, old=old, loc0=loc0: z3.Implies(z3.Or(i < loc0, i >= loc0 + K), z3.Select(m1, i) == z3.Select(old, i)))]
        return [(p, NONE)]
    def h_write_int(eng, p, args, kw, node):
        """the real NumpyIO.write_int, inlined; the argument is recorded (as the int32 it is converted to) for the postcondition"""
        ci = eng.conv(args[1], 32, True, p)
        p.ghost["write_int_args"] = p.ghost.get("write_int_args", []) + [ci]
        out = []
        for r in eng.run("NumpyIO.write_int", p, [args[0], ci], kw):
            v = r.ctl[1] if r.ctl[0] == "ret" else NONE
            r.ctl = None
            out.append((r, v))
        return out
    eng = engine(handlers={"encode_bitpacked": h_bp, "NumpyIO.write_int": h_write_int})
    p = Path()
    o = cy.new_io(p, "o")
    n = z3.Int("n_values")
    p.mem["vals"] = z3.Const("vals_mem", MemSort)
    p.rsize["vals"] = 4 * n
    values = View("vals", z3.IntVal(0), n, (32, True))
    width = cy.arg("width", "int32_t", p)
    wl = cy.arg("withlength", "int32_t", p)
    loc0, on, mem0 = cy.loc(p, "o"), cy.nbytes(p, "o"), p.mem["o"]
    # requires: the run is K >= 1 bytes (at least the header), prefix + run fit the buffer, and the buffer is smaller than 2 GiB (page sizes
    # are i32 in the format; NumpyIO.tell() returns int32, so cursors stay free of 32-bit wrap-around)
    p.pc += [n >= 0, K >= 1, K < 2 ** 31, on < 2 ** 31, loc0 + z3.If(wl.iv != 0, 4, 0) + K <= on]
    mf = lambda m: {"withlength": mv(m, wl.iv), "run_bytes": mv(m, K), "o_loc": mv(m, loc0), "o_nbytes": mv(m, on)}
    if solve(list(p.pc) + [wl.iv != 0], 5000)[0] != REFUTED:
        res.addk(pre + ".precondition_satisfiable", "functional", UNKNOWN, None, 0.0, "z3", "not shown satisfiable")
        return res
    outs = eng.run("encode_rle_bp", p, [values, width, o, wl])
    res.take_engine(eng, pre + ".", timeout, mf)
    idx = z3.Int("idx_sk")
    seen = set()
    for q in outs:
        if q.ctl[0] != "ret":
            continue
        with_len = solve(qf(q.pc) + [wl.iv == 0], 5000)[0] == PROVED           # this path has withlength != 0
        without = solve(qf(q.pc) + [wl.iv != 0], 5000)[0] == PROVED
        if with_len == without:
            res.addk(pre + ".paths_classified", "functional", UNKNOWN, None, 0.0, "engine", "a path mixes withlength == 0 and != 0")
            continue
        tag = "[withlength!=0]" if with_len else "[withlength=0]"
        seen.add(tag)
        m1, loc1 = q.mem["o"], cy.loc(q, "o")
        bp = q.ghost.get("bp_calls", [])
        off = 4 if with_len else 0

        def prove(name, hyps, goal, note):
            st, m, secs = solve(list(hyps) + [z3.Not(goal)], timeout)
            res.addk(pre + tag + "." + name, "functional", st, mf(m) if m is not None else None, secs, "z3", note)
        if len(bp) != 1:
            res.addk(pre + tag + ".delegates_once", "functional", REFUTED, {"encode_bitpacked_calls": len(bp)}, 0.0, "engine",
                     "exactly one bit-packed run is written")
            continue
        v_, w_, o_, at, m_before, m_run = bp[0]
        same_args = (v_ is values) and isinstance(w_, CI) and isinstance(o_, Ref) and o_.oid == "o"
        prove("delegates_once", qf(q.pc), z3.And(z3.BoolVal(bool(same_args)), eng.ci_int(w_) == width.iv if isinstance(w_, CI) else z3.BoolVal(False),
                                                 at == loc0 + off),
              "one run, of the given values at the given width, written right after the place of the length prefix" if with_len else
              "one run, of the given values at the given width, written at the cursor")
        prove("cursor", qf(q.pc), loc1 == loc0 + off + K, "cursor right after the run")
        if with_len:
            le = z3.Concat(*[z3.Select(m1, loc0 + b) for b in reversed(range(4))])
            wi = q.ghost.get("write_int_args", [])
            note = "the 4 bytes before the run are its byte length, little endian (hybrid <length> prefix)"
            if len(wi) == 1 and wi[0].iv is not None:
                # two steps under one name: the int32 written has the value K (linear, on the engine's integer view of the C value);
                # the 4 bytes at the old cursor are the little-endian image of that int32
                prove("length_prefix_is_payload_size", lia_part(q.pc), wi[0].iv == K, note)
                prove("length_prefix_is_payload_size", qf(q.pc), le == wi[0].bv, note)
            else:
                prove("length_prefix_is_payload_size", qf(q.pc), le == z3.Int2BV(K, 32), note)
            prove("run_bytes_untouched_by_prefix", qf(q.pc) + [idx >= loc0 + 4, idx < loc0 + 4 + K], z3.Select(m1, idx) == z3.Select(m_run, idx),
                  "writing the prefix afterwards does not touch the run")
        else:
            prove("run_bytes_untouched", qf(q.pc) + [idx >= loc0, idx < loc0 + K], z3.Select(m1, idx) == z3.Select(m_run, idx),
                  "nothing is written after the run")
        prove("frame", qf(q.pc) + inst(q, "frame", idx) + [z3.Or(idx < loc0, idx >= loc1)], z3.Select(m1, idx) == z3.Select(mem0, idx),
              "nothing outside [old cursor, new cursor) is modified")
    for tag in ("[withlength!=0]", "[withlength=0]"):
        if tag not in seen:
            res.addk(pre + tag + ".cursor", "functional", UNKNOWN, None, 0.0, "engine", "no returning path for this case")
    return res


# =================================================================================================
# write_bitpacked1: PLAIN boolean packing (one input byte per value -> one bit, LSB first)
# =================================================================================================
def _packed_lsb(fmem, in0, j, count=None):
    """byte j of the LSB-first packing of the 0/1 bytes at fmem[in0..]: bit u is value 8j + u (0 beyond `count`)"""
    bits = []
    for u in reversed(range(8)):
        b = z3.Extract(0, 0, z3.Select(fmem, in0 + 8 * j + u))
        bits.append(b if count is None else z3.If(8 * j + u < count, b, z3.BitVecVal(0, 1)))
    return z3.Concat(*bits)


def k_write_bitpacked1(timeout):
    """two runs of the real function: `structure` (cursor / frame / safety by an inductive invariant without the value clause) and
    `lsb` (the invariant also says: every byte written so far is the LSB-first packing - the Parquet order, inverse of read_bitpacked1)"""
    res = EResults()
    kname = "__k0_write_bitpacked1"
    for variant in ("structure", "lsb"):
        def inv(eng, p, variant=variant):
            k = p.env[kname].z
            g = p.ghost
            in0, out0, fmem, omem0 = g["in0"], g["out0"], g["fmem0"], g["omem0"]
            m = p.mem["o"]
            j, idx = z3.Int("jq"), z3.Int("idxq")
            parts = [0 <= k, k <= eng.ci_int(p.env["count"]) / 8, p.env["inptr"].off == in0 + 8 * k, p.env["outptr"].off == out0 + k,
                     z3.ForAll([idx], z3.Implies(z3.Or(idx < out0, idx >= out0 + k), z3.Select(m, idx) == z3.Select(omem0, idx)))]
            if variant == "lsb":
                parts.append(z3.ForAll([j], z3.Implies(z3.And(0 <= j, j < k), z3.Select(m, out0 + j) == _packed_lsb(fmem, in0, j))))
            return z3.And(*parts)
        loops = {("write_bitpacked1", 0): LoopSpec("invariant", inv=inv, modifies=["inptr", "outptr", "data", "indata", "counter", "i"],
                                                   havoc_mem=["o"],
                                                   variant=lambda eng, p: eng.ci_int(p.env["count"]) / 8 - p.env[kname].z),
                 ("write_bitpacked1", 1): LoopSpec("unroll", 8), ("write_bitpacked1", 2): LoopSpec("unroll", 7)}
        eng = engine(loops=loops)
        p = Path()
        f, o = cy.new_io(p, "f"), cy.new_io(p, "o")
        count = cy.arg("count", "int32_t", p)
        floc0, fn, oloc0, on = cy.loc(p, "f"), cy.nbytes(p, "f"), cy.loc(p, "o"), cy.nbytes(p, "o")
        fmem0, omem0 = p.mem["f"], p.mem["o"]
        nout = (count.iv + 7) / 8
        # requires: 0 <= count <= INT32_MAX - 7; the count input bytes are present and are 0 or 1 (numpy bool); room for ceil(count/8) bytes
        p.pc += [count.iv >= 0, count.iv <= 2 ** 31 - 8, floc0 + count.iv <= fn, oloc0 + nout <= on]
        tail0 = 8 * (count.iv / 8)
        for i in range(7):
            p.pc.append(z3.Implies(tail0 + i < count.iv, z3.ULE(z3.Select(fmem0, floc0 + tail0 + i), 1)))
        p.ghost.update(in0=floc0, out0=oloc0, fmem0=fmem0, omem0=omem0)
        mf = lambda m: {"count": mv(m, count.iv), "f_loc": mv(m, floc0), "f_nbytes": mv(m, fn), "o_loc": mv(m, oloc0), "o_nbytes": mv(m, on),
                        "in_bytes": [mv(m, z3.Select(fmem0, floc0 + k_)) for k_ in range(8)]}
        if solve(list(p.pc) + [count.iv >= 9], 5000)[0] != REFUTED:
            res.addk("write_bitpacked1.precondition_satisfiable", "functional", UNKNOWN, None, 0.0, "z3", "not shown satisfiable")
            return res
        outs = eng.run("write_bitpacked1", p, [f, count, o])
        if variant == "structure":
            res.take_engine(eng, "write_bitpacked1.", timeout, mf)
        else:
            # only the value clause is new in this run: keep the invariant obligations, drop the duplicated safety ones
            eng.oblig = [ob for ob in eng.oblig if ob.kind == "inv"]
            for ob in eng.oblig:
                ob.name = ob.name.replace("write_bitpacked1.", "write_bitpacked1.[lsb]", 1)
            res.take_engine(eng, "write_bitpacked1.", timeout, mf)
        j, idx = z3.Int("j_sk"), z3.Int("idx_sk")
        nret = 0
        for q in outs:
            if q.ctl[0] != "ret":
                continue
            nret += 1
            m1 = q.mem["o"]
            if variant == "structure":
                post(res, "write_bitpacked1.output_cursor", q.pc, cy.loc(q, "o") == oloc0 + nout, timeout, "o.loc advanced by ceil(count / 8)", mf)
                for rg, cond in (("[count==0]", count.iv == 0), ("[count>=1]", count.iv >= 1)):
                    post(res, "write_bitpacked1.input_cursor" + rg, list(q.pc) + [cond], cy.loc(q, "f") == floc0 + count.iv, timeout,
                         "file_obj.loc advanced by count: the input holds one byte per value (int8 / bool array)", mf)
                    post(res, "write_bitpacked1.input_cursor_stays_in_buffer" + rg, list(q.pc) + [cond], cy.loc(q, "f") <= fn, timeout,
                         "class invariant loc <= nbytes of the input after the call (the next unchecked read_byte / pointer read relies on it)",
                         mf, kind="safety")
                post(res, "write_bitpacked1.frame", list(q.pc) + [z3.Or(idx < oloc0, idx >= oloc0 + nout)],
                     z3.Select(m1, idx) == z3.Select(omem0, idx), timeout, "no byte outside the ceil(count / 8) packed bytes is written", mf)
                post(res, "write_bitpacked1.input_not_written", q.pc, q.mem["f"] == fmem0, timeout, "the input buffer is not written", mf)
            else:
                # a counter-model is looked for among short inputs first (same hypotheses plus count <= 7: a model of that is a model)
                goal = z3.Select(m1, oloc0 + j) == _packed_lsb(fmem0, floc0, j, count.iv)
                post(res, "write_bitpacked1.values_lsb_first[count<=1]", list(q.pc) + [0 <= j, j < nout, count.iv <= 1], goal, timeout,
                     "a single value is packed into bit 0", mf)
                small = solve(list(q.pc) + [0 <= j, j < nout, count.iv >= 2, count.iv <= 7, z3.Not(goal)], 3000)
                extra = [count.iv <= 7] if small[0] == REFUTED else []
                post(res, "write_bitpacked1.values_lsb_first[count>=2]", list(q.pc) + [0 <= j, j < nout, count.iv >= 2] + extra, goal, timeout,
                     "output byte j, bit u == input value 8j + u (LSB first: PLAIN boolean / bit width 1 of the format; what read_bitpacked1 "
                     "decodes), zero padding beyond count", mf)
        if nret == 0:
            res.addk(f"write_bitpacked1.{'output_cursor' if variant == 'structure' else 'values_lsb_first'}", "functional", UNKNOWN, None, 0.0,
                     "engine", "no returning path")
    return res


# =================================================================================================
# writer.encode_dict (Python): the dictionary-index page body, a bit-packed run framed by hand
# =================================================================================================
def _view_bts(p, v):
    from .filemodel import Bts
    if isinstance(v, BytesV):
        return v.seq
    if isinstance(v, View):
        mem, off = p.mem[v.region], v.off
        return Bts(v.n, lambda i, mem=mem, off=off: z3.Select(mem, off + i))
    raise Unsupported("bytes of " + type(v).__name__)


def k_encode_dict(timeout):
    from vc.front_py import parse_module
    from .filemodel import Bts, concat, eq_goal
    res = EResults()
    wfuncs, _, _ = parse_module("fastparquet/writer.py")
    n, item = z3.Int("n_rows"), z3.Int("itemsize")
    PAY = z3.Function("values_tobytes", z3.IntSort(), z3.BitVecSort(8))
    payload = Bts(n * item, lambda i: PAY(i))
    made = {}

    class Buf:
        tracked = False

        def __init__(self, size):
            self.size = size

    class DType:
        tracked = False

        def attr(self, eng, p, name):
            if name == "itemsize":
                return PyI(item)
            raise Unsupported("dtype." + name)

    class Values:
        tracked = False

        def attr(self, eng, p, name):
            if name == "dtype":
                return Custom(DType())
            raise Unsupported("values." + name)

        def call_method(self, eng, p, name, args, kw, node):
            if name == "tobytes":
                return [(p, BytesV(payload))]
            raise Unsupported("values." + name)

    class Data:
        tracked = False

        def attr(self, eng, p, name):
            if name == "values":
                return Custom(Values())
            raise Unsupported("data." + name)

        def len(self, eng, p):
            return PyI(n)

    def h_empty(eng, p, args, kw, node):
        return [(p, Custom(Buf(eng.as_int(args[0], p))))]

    def h_numpyio(eng, p, args, kw, node):
        if not (isinstance(args[0], Custom) and isinstance(args[0].h, Buf)):
            raise Unsupported("NumpyIO over something that is not the scratch buffer")
        size = args[0].h.size
        nb = CI(z3.Int2BV(size, 32), 32, False, size, (0, 2 ** 32 - 1))
        zero = CI(z3.BitVecVal(0, 32), 32, False, z3.IntVal(0), (0, 0))
        made["size"] = size
        return [(p, cy.new_io(p, "o", loc=zero, nbytes=nb))]

    def h_varint(eng, p, args, kw, node):
        return h_varint_contract(eng, p, args, kw, node)

    def h_write_byte(eng, p, args, kw, node):
        """the real NumpyIO.write_byte inlined, preceded by the obligation that it is not the silent-drop case"""
        nm = args[0].oid
        eng.oblige(p, f"encode_dict.width_byte_fits_buffer@L{node.lineno}", "safety", cy.loc(p, nm) < cy.nbytes(p, nm), node,
                   note="NumpyIO.write_byte drops the byte silently when the buffer is full")
        out = []
        for r in eng.run("NumpyIO.write_byte", p, args, kw):
            v = r.ctl[1] if r.ctl[0] == "ret" else NONE
            r.ctl = None
            out.append((r, v))
        return out
    handlers = {"np.empty": h_empty, "NumpyIO": h_numpyio, "cencoding.encode_unsigned_varint": h_varint,
                "NumpyIO.write_byte": h_write_byte,
                "bytes": lambda e, p, a, k, nd: [(p, BytesV(_view_bts(p, a[0])))],
                "bytes+": lambda e, p, a, b, nd: BytesV(concat(_view_bts(p, a), _view_bts(p, b)))}
    eng = engine(handlers=handlers, extra_funcs={"encode_dict": wfuncs["encode_dict"]}, opaque_calls=True)
    p = Path()
    # requires: a categorical's codes (int8 / int16 / int32), fewer than 2**31 rows
    p.pc += [n >= 0, n < 2 ** 31, z3.Or(item == 1, item == 2, item == 4)]
    mf = lambda m: {"n_rows": mv(m, n), "itemsize": mv(m, item)}
    try:
        outs = eng.run("encode_dict", p, [Custom(Data()), NONE])
    except Unsupported as ex:
        res.addk("encode_dict.out_of_reach", "functional", UNKNOWN, None, 0.0, "engine", str(ex))
        return res
    for ob in eng.oblig:
        ob.name = ob.name.replace("encode_dict.header_fits_buffer", "encode_dict.scratch_capacity.header_fits_buffer")
    res.take_engine(eng, "encode_dict.", timeout, mf)
    groups = (n + 7) / 8
    hdr = 2 * groups + 1
    L = uleb_len_int(hdr)
    width = 8 * item
    hb = z3.Int2BV(hdr, 64)

    def uleb_at(i):
        e = z3.BitVecVal(0, 8)
        for u in reversed(range(10)):
            low7 = (z3.Extract(7, 0, z3.LShR(hb, 7 * u)) & 0x7F) if 7 * u < 64 else z3.BitVecVal(0, 8)
            e = z3.If(i == u, z3.If(u < L - 1, low7 | 0x80, low7), e)
        return e
    spec = concat(Bts(1, lambda i: z3.Int2BV(width, 8)), Bts(L, uleb_at), payload)
    k = z3.Int("k_skolem")
    nret = 0
    for q in outs:
        if q.ctl[0] != "ret":
            continue
        nret += 1
        blk = q.ctl[1]
        if not isinstance(blk, BytesV):
            res.addk("encode_dict.block_is_spec", "functional", UNKNOWN, None, 0.0, "engine", "the result is not a byte string")
            continue
        hyps = list(q.pc) + inst(q, "frame", z3.IntVal(0))
        # the pieces first, in linear arithmetic (a counter-model is found at once): one varint, right after the width byte, of the
        # specification value; the byte written first is the width
        calls = q.ghost.get("varint_calls", [])
        if len(calls) == 1:
            at, xi, Lc, _, _ = calls[0]
            st, m, secs = solve(lia_part(q.pc) + [z3.Not(z3.And(at == 1, xi == hdr))], timeout)
            res.addk("encode_dict.header_value_is_spec", "functional", st, dict(mf(m), header=mv(m, xi), spec_header=mv(m, hdr)) if m is not None else None,
                     secs, "z3", "exactly one run header, written right after the width byte: (ceil(n/8) << 1) | 1")
        else:
            res.addk("encode_dict.header_value_is_spec", "functional", REFUTED, {"varint_calls": len(calls)}, 0.0, "engine",
                     "exactly one run header is written")
        st, m, secs = solve(hyps + [blk.seq.n >= 1, z3.Not(z3.BV2Int(blk.seq.at(z3.IntVal(0))) == width)], timeout)
        res.addk("encode_dict.width_byte_is_itemsize_bits", "functional", st, dict(mf(m), first_byte=mv(m, blk.seq.at(z3.IntVal(0)))) if m is not None else None,
                 secs, "z3", "the first byte of the page body is the bit width 8 * itemsize")
        st, m, secs = solve(hyps + [z3.Not(eq_goal(blk.seq, spec, k))], timeout)
        res.addk("encode_dict.block_is_spec", "functional", st,
                 dict(mf(m), block_len=mv(m, blk.seq.n), spec_len=mv(m, spec.n), differs_at=mv(m, k)) if m is not None else None, secs, "z3",
                 "page body == bit-width byte (8 * itemsize) ++ ULEB128((ceil(n/8) << 1) | 1) ++ values.tobytes(), nothing else")
        st, m, secs = solve(lia_part(q.pc) + [z3.Not(cy.loc(q, "o") == 1 + L)], timeout)
        res.addk("encode_dict.scratch_capacity", "functional", st, mf(m) if m is not None else None, secs, "z3",
                 "width byte and run header all fitted the scratch buffer: cursor == 1 + uleb_len(header), nothing dropped")
        # the run the header announces: groups * 8 values of `width` bits = groups * width bytes
        for nm, cond, note in (("[n%8==0]", n % 8 == 0, "n a multiple of 8: the payload is exactly the groups*width bytes the header announces"),
                               ("[partial last group]", n % 8 != 0,
                                "n not a multiple of 8: the last group is completed with zero values - the payload is still groups*width bytes")):
            st, m, secs = solve([n >= 0, n < 2 ** 31, z3.Or(item == 1, item == 2, item == 4), cond, z3.Not(payload.n == groups * width)], timeout)
            res.addk("encode_dict.run_is_whole_groups" + nm, "functional", st, mf(m) if m is not None else None, secs, "z3", note)
    if nret == 0:
        res.addk("encode_dict.block_is_spec", "functional", UNKNOWN, None, 0.0, "engine", "no returning path")
    return res



# =================================================================================================
# writer.make_definitions, the branch WITH nulls: the other place where a bit-packed run is framed by hand (the no-null branch is
# contracts/c11_deflevels.py).  The packed booleans themselves come from numpy (np.pad / np.packbits): opaque bytes of length G here.
# =================================================================================================
def k_make_definitions_nulls(timeout):
    from vc.front_py import parse_module
    from .filemodel import Bts, concat, eq_goal, le32, h_struct_pack
    res = EResults()
    wfuncs, _, _ = parse_module("fastparquet/writer.py")
    n, G = z3.Int("n_rows"), z3.Int("packed_len")
    OUT = z3.Function("packed_notnull", z3.IntSort(), z3.BitVecSort(8))
    packed = Bts(G, lambda i: OUT(i))

    class Data:
        tracked = False

        def len(self, eng, p):
            return PyI(n)

        def call_method(self, eng, p, name, args, kw, node):
            if name == "notnull":
                return [(p, Opaque("dnn"))]
            raise Unsupported("data." + name)

        def getitem(self, eng, p, i, node):
            return Opaque("data[dnn]")

    def h_numpyio(eng, p, args, kw, node):
        size = args[0].h.size if isinstance(args[0], Custom) and hasattr(args[0].h, "size") else None
        if size is None:
            raise Unsupported("NumpyIO over something that is not the scratch buffer")
        nb = CI(z3.Int2BV(size, 32), 32, False, size, (0, 2 ** 32 - 1))
        zero = CI(z3.BitVecVal(0, 32), 32, False, z3.IntVal(0), (0, 0))
        return [(p, cy.new_io(p, "temp", loc=zero, nbytes=nb))]

    class Buf:
        tracked = False

        def __init__(self, size):
            self.size = size
    for version in (1, 2):
        tag = f"[v{version}]"
        handlers = {"np.empty": lambda e, p, a, k, nd: [(p, Custom(Buf(e.as_int(a[0], p))))], "NumpyIO": h_numpyio,
                    "cencoding.encode_unsigned_varint": h_varint_contract, "struct.pack": h_struct_pack,
                    "encode_plain": lambda e, p, a, k, nd: [(p, BytesV(packed))],
                    "bytes": lambda e, p, a, k, nd: [(p, BytesV(_view_bts(p, a[0])))],
                    "bytes+": lambda e, p, a, b, nd: BytesV(concat(_view_bts(p, a), _view_bts(p, b)))}
        eng = engine(handlers=handlers, extra_funcs={"make_definitions": wfuncs["make_definitions"]}, opaque_calls=True)
        p = Path()
        # requires: fewer than 2**31 rows; numpy contract of the boolean packing (ASSUMED): np.pad(x, (0, 8 - len % 8)) + np.packbits gives
        # len // 8 + 1 bytes
        p.pc += [n >= 0, n < 2 ** 31, G == n / 8 + 1]
        mf = lambda m: {"n_rows": mv(m, n), "packed_len": mv(m, G)}
        try:
            outs = eng.run("make_definitions", p, [Custom(Data()), PyB(False), PyI(version, lit=True)])
        except Unsupported as ex:
            res.addk(f"make_definitions[nulls]{tag}.out_of_reach", "functional", UNKNOWN, None, 0.0, "engine", str(ex))
            continue
        for ob in eng.oblig:
            ob.name = ob.name.replace("make_definitions.header_fits_buffer", "make_definitions.scratch_capacity.header_fits_buffer")
        res.take_engine(eng, f"make_definitions[nulls]{tag}.", timeout, mf)
        hdr = 2 * G + 1
        L = uleb_len_int(hdr)
        hb = z3.Int2BV(hdr, 64)

        def uleb_at(i, hb=hb, L=L):
            e = z3.BitVecVal(0, 8)
            for u in reversed(range(10)):
                low7 = (z3.Extract(7, 0, z3.LShR(hb, 7 * u)) & 0x7F) if 7 * u < 64 else z3.BitVecVal(0, 8)
                e = z3.If(i == u, z3.If(u < L - 1, low7 | 0x80, low7), e)
            return e
        run = concat(Bts(L, uleb_at), packed)
        spec = concat(le32(run.n), run) if version == 1 else run
        k = z3.Int("k_skolem")
        nret = 0
        for q in outs:
            if q.ctl[0] != "ret":
                continue
            nret += 1
            blk = q.ctl[1].items[0] if isinstance(q.ctl[1], Tup) else None
            if not isinstance(blk, BytesV):
                res.addk(f"make_definitions[nulls]{tag}.block_is_spec", "functional", UNKNOWN, None, 0.0, "engine", "the block is not a byte string")
                continue
            calls = q.ghost.get("varint_calls", [])
            if len(calls) == 1:
                at, xi, Lc, _, _ = calls[0]
                st, m, secs = solve(lia_part(q.pc) + [z3.Not(z3.And(at == 0, xi == hdr))], timeout)
                res.addk(f"make_definitions[nulls]{tag}.header_value_is_spec", "functional", st,
                         dict(mf(m), header=mv(m, xi), spec_header=mv(m, hdr)) if m is not None else None, secs, "z3",
                         "one bit-packed run header at the start of the scratch buffer: (groups << 1) | 1 with groups == number of packed "
                         "bytes (width 1: one byte per group of 8 levels)")
            else:
                res.addk(f"make_definitions[nulls]{tag}.header_value_is_spec", "functional", REFUTED, {"varint_calls": len(calls)}, 0.0, "engine",
                         "exactly one run header is written")
            st, m, secs = solve(list(q.pc) + [z3.Not(eq_goal(blk.seq, spec, k))], timeout)
            res.addk(f"make_definitions[nulls]{tag}.block_is_spec", "functional", st,
                     dict(mf(m), block_len=mv(m, blk.seq.n), spec_len=mv(m, spec.n), differs_at=mv(m, k)) if m is not None else None, secs, "z3",
                     "definition block == " + ("le32(byte length of the run) ++ " if version == 1 else "") +
                     "ULEB128((groups << 1) | 1) ++ the packed not-null bits, nothing else")
            st, m, secs = solve(lia_part(q.pc) + [z3.Not(z3.And(8 * G >= n, cy.loc(q, "temp") == L))], timeout)
            res.addk(f"make_definitions[nulls]{tag}.run_covers_all_levels", "functional", st, mf(m) if m is not None else None, secs, "z3",
                     "the announced groups hold at least the n definition levels of the page, and the header was not truncated by the scratch "
                     "buffer (cursor == uleb_len(header))")
        if nret == 0:
            res.addk(f"make_definitions[nulls]{tag}.block_is_spec", "functional", UNKNOWN, None, 0.0, "engine", "no returning path")
    return res


# =================================================================================================
# round-trip lemmas over the byte-level specification shared with the decoder contracts
# =================================================================================================
def roundtrip_bitpacked(w, timeout):
    """encoder side: payload bit t == SPECBIT(t) (encode_bitpacked[w].payload_bits_are_spec).  decoder side: item j ==
    kernels.spec_bitpacked_value(stream, w, j) (read_bitpacked[w].values).  Lemma: on a SPECBIT stream of values inside the width,
    spec_bitpacked_value(stream, w, j) == values[j] for every j < n.  Case split on the bit offset r = (w*j) % 8 of value j."""
    res = EResults()
    name = f"bitpacked.roundtrip[w={w}]"
    S, vmem = z3.Const("stream_mem", MemSort), z3.Const("vals_mem", MemSort)
    base, n, j, B = z3.Int("base"), z3.Int("n_values"), z3.Int("j_sk"), z3.Int("byte0")
    vj = value_at(vmem, j)
    mf = lambda m: {"width": w, "n_values": mv(m, n), "j": mv(m, j), "value_j": mv(m, vj)}
    note = ("decode-spec(encode-spec(x))[j] == x[j]: spec_bitpacked_value (what read_bitpacked[w].values is proved against) applied to the "
            "SPECBIT stream (what encode_bitpacked[w].payload_bits_are_spec is proved against)")
    for r in range(8):
        core = [0 <= j, j < n, n >= 1, w * j == 8 * B + r, B >= 0]
        if solve(core, 2000)[0] == PROVED:
            continue                                          # this offset does not occur for this width
        # index arithmetic (linear, proved, then used): window position of value j; stream bit 8(B+k)+u is bit s = 8k+u-r of value j
        s_ = z3.Int("s_sk")
        t_s = 8 * B + r + s_
        lem = z3.And((w * j) / 8 == B, (w * j) % 8 == r, z3.Implies(z3.And(0 <= s_, s_ < w), z3.And(t_s / w == j, t_s % w == s_, t_s < w * n)))
        st, m, secs = solve(core + [z3.Not(lem)], timeout)
        res.addk(name, "functional", st, mf(m) if m is not None else None, secs, "z3", note)
        if st != PROVED:
            continue
        hyps = core + [(w * j) / 8 == B, (w * j) % 8 == r, in_width(vj, w)]
        for k in range(5):
            for u in range(8):
                s = 8 * k + u - r
                if 0 <= s < w:
                    t = 8 * (B + k) + u
                    # encoder post at byte B + k, bit u (all value bits lie inside the payload), with SPECBIT evaluated by the index lemma
                    hyps += [t / w == j, t % w == s, t < w * n,
                             z3.Extract(u, u, z3.Select(S, base + (B + k))) == specbit(vmem, w, n, t)]
        if solve(hyps, 5000)[0] != REFUTED:                    # vacuity guard: the hypotheses have a model
            res.addk(name, "functional", UNKNOWN, None, 0.0, "z3", f"hypotheses not shown satisfiable (offset {r})")
            continue
        goal = spec_bitpacked_value(S, base + 0, w, j, 32) == vj
        goal = z3.substitute(goal, ((w * j) / 8, B), ((w * j) % 8, z3.IntVal(r)))          # rewriting with the two equalities proved above
        st, m, secs = solve(hyps + [z3.Not(goal)], timeout)
        res.addk(name, "functional", st, mf(m) if m is not None else None, secs, "z3", note)
    if name not in res.d:
        res.addk(name, "functional", UNKNOWN, None, 0.0, "z3", "no bit offset was feasible (vacuous)")
    return res


def roundtrip_misc(timeout):
    res = EResults()
    # ---- run header: dispatched to the bit-packed branch with the right number of groups
    n = z3.Int("n_values")
    g = (n + 7) / 8
    hdr = z3.Int2BV(2 * g + 1, 32)
    gb = z3.Int2BV(g, 32)
    post(res, "hybrid.header_roundtrip", [n >= 0, n <= 2 ** 31 - 8],
         z3.And((2 * g + 1) % 2 == 1, (2 * g + 1) / 2 == g, 8 * g >= n, 8 * g < n + 8, 2 * g + 1 < 2 ** 31), timeout,
         "header = (ceil(n/8) << 1) | 1: odd (the decoder's `header & 1` selects the bit-packed branch), header >> 1 == ceil(n/8) groups, "
         "8 * groups covers the n values with fewer than 8 padding values, and the header fits the decoder's int32",
         lambda m: {"n_values": mv(m, n)})
    # ---- dictionary indices: little-endian items are the bit-packed stream at width 8 * itemsize
    S = z3.Const("stream_mem", MemSort)
    base, j = z3.Int("base"), z3.Int("j_sk")
    for item in (1, 2, 4):
        w = 8 * item
        bs = [z3.Select(S, base + item * j + b) for b in reversed(range(item))]
        le = z3.Concat(*bs) if item > 1 else bs[0]
        want = z3.ZeroExt(32 - w, le) if w < 32 else le
        post(res, f"dict_index.roundtrip[w={w}]", [j >= 0], spec_bitpacked_value(S, base + 0, w, j, 32) == want, timeout,
             "values.tobytes() (little-endian items) IS the LSB-first bit-packed stream at width 8*itemsize: the decoder contract's value j == "
             "item j, so the indices encode_dict writes decode to themselves", lambda m: {"j": mv(m, j)})
    # ---- booleans: the LSB-first packing is what read_bitpacked1 inverts
    X = z3.Const("bool_bytes", MemSort)
    in0, cnt, i = z3.Int("in0"), z3.Int("count"), z3.Int("i_byte")
    for u in range(8):
        jj = 8 * i + u
        hy = [i >= 0, jj < cnt, z3.Select(S, base + i) == _packed_lsb(X, in0, i, cnt), z3.ULE(z3.Select(X, in0 + jj), 1)]
        goal = _bit(S, base, jj) == z3.Select(X, in0 + jj)
        goal = z3.substitute(goal, (jj / 8, i), (jj % 8, z3.IntVal(u)))
        st, m, secs = solve([i >= 0, z3.Not(z3.And(jj / 8 == i, jj % 8 == u))], timeout)
        res.addk("bitpacked1.roundtrip", "functional", st, None, secs, "z3", "index arithmetic")
        post(res, "bitpacked1.roundtrip", hy, goal, timeout,
             "read_bitpacked1's specification (output byte j == bit j, LSB first, of the stream) applied to the LSB-first packing of 0/1 "
             "bytes returns the input bytes", lambda m: {"i": mv(m, i)})
    return res


# =================================================================================================
# task list (process pool) and native replay
# =================================================================================================
FUNCS_UNDER_CONTRACT = ["encode_bitpacked", "encode_rle_bp", "write_bitpacked1", "encode_unsigned_varint", "NumpyIO.write_byte",
                        "NumpyIO.write_int", "NumpyIO.seek", "NumpyIO.tell", "NumpyIO.get_pointer"]


def tasks(tier="quick"):
    timeout = 10000 if tier == "quick" else 60000
    ts = [("bp", w, timeout) for w in sorted(range(0, 33), key=lambda w: (-(8 // __import__("math").gcd(w, 8) if w else 1), w))]
    ts += [("wbp1", None, timeout), ("rle_bp", None, timeout), ("varint", None, timeout), ("dict", None, timeout), ("defnulls", None, timeout), ("rt_misc", None, timeout)]
    ts += [("rt", w, timeout) for w in range(1, 33)]
    return ts


def _task(t):
    kind, arg, timeout = t
    t0 = time.time()
    label = kind if arg is None else f"{kind}[{arg}]"
    try:
        if kind == "bp":
            res = encode_bitpacked_closure(arg, timeout)
        elif kind == "rt":
            res = roundtrip_bitpacked(arg, timeout)
        else:
            res = {"wbp1": k_write_bitpacked1, "rle_bp": k_encode_rle_bp, "varint": varint_bytes_lemma, "dict": k_encode_dict,
                   "rt_misc": roundtrip_misc, "defnulls": k_make_definitions_nulls}[kind](timeout)
        return (label, res.order, res.d, res.kind, None, time.time() - t0)
    except Unsupported as ex:          # the current source is outside the engine's subset: out of reach, undecided
        nm = f"encoders.{label}.out_of_reach"
        return (label, [nm], {nm: [(UNKNOWN, None, 0.0, "engine", str(ex))]}, {nm: "functional"}, None, time.time() - t0)
    except Exception as ex:            # the proof script failed on this source: also undecided (reported by the caller)
        import traceback
        return (label, [], {}, {}, f"{type(ex).__name__}: {ex} | " + traceback.format_exc().splitlines()[-3].strip(), time.time() - t0)


def run_all(tier="quick", only=None):
    import concurrent.futures as cf
    import multiprocessing as mp
    import os
    ts = [t for t in tasks(tier) if only is None or t[0] in only]
    with cf.ProcessPoolExecutor(max_workers=min(16, os.cpu_count() or 4), mp_context=mp.get_context("fork")) as ex:
        return list(ex.map(_task, ts))


REPLAY_SRC = r'''
import numpy as np, sys, json
sys.path.insert(0, REPO)
from fastparquet import cencoding as ce
def uleb(x):
    out = bytearray()
    while x > 127:
        out.append((x & 0x7F) | 0x80); x >>= 7
    out.append(x)
    return bytes(out)
def spec_run(values, w):
    """the bit-packed run the format prescribes: header, then groups*w bytes, LSB first, last group zero-padded"""
    g = (len(values) + 7) // 8
    bits = 0
    for k, v in enumerate(values):
        bits |= (int(v) & ((1 << w) - 1)) << (w * k)
    return uleb((g << 1) | 1) + bits.to_bytes(g * w, "little")
def run_encode_bitpacked(values, w, withlength=None):
    cap = 16 + len(values) * 4 + 16
    buf = np.full(cap, 0xAA, dtype="uint8")
    o = ce.NumpyIO(buf)
    if withlength is None:
        ce.encode_bitpacked(np.array(values, dtype="int32"), w, o)
    else:
        ce.encode_rle_bp(np.array(values, dtype="int32"), w, o, withlength)
    return bytes(buf[:o.tell()]), o.tell(), bytes(buf[o.tell():o.tell() + 4])
'''


def replay(name, model, repo):
    """native replay of a refuted obligation on the compiled extension / the real Python function; -> (confirmed, text, program)"""
    import re
    head = "REPO = %r\n" % repo + REPLAY_SRC
    m = re.match(r"encode_bitpacked\[w=(\d+)\]\.(.*)", name)
    if m and ("_in_range@" in m.group(2) or "_in_region@" in m.group(2) or "fit" in m.group(2) or "inside_buffer" in m.group(2)):
        return False, "no native replay for a safety obligation of encode_bitpacked (an out-of-region access has no observable verdict)", None
    if m:
        w, what = int(m.group(1)), m.group(2)
        if "cursor_is_whole_groups" in what:
            vals = ("[1]" if w else "[0]") + (" * 8" if "n%8==0" in what else "")
        else:
            # whole groups (no padding involved) reaching every pending-bit state, each value with only the top bit of the width set:
            # a lost or smeared bit shows up where the specification has zeros
            vals = "[(1 << %d) - (1 << 32 if %d == 32 else 0)] * 16" % (max(w - 1, 0), w)
        prog = head + f'''
values = {vals}
got, cur, after = run_encode_bitpacked(values, {w})
want = spec_run(values, {w})
print(json.dumps(dict(VIOLATED=got != want, detail=dict(width={w}, values=[int(v) for v in values][:9], written=got.hex(), cursor=cur,
      spec=want.hex(), spec_cursor=len(want), bytes_after_cursor_untouched=after.hex()))))
'''
        return _sub(prog)
    if name.startswith("write_bitpacked1.") and not re.search(r"values_lsb_first|\[lsb\]|input_cursor", name):
        return False, "no native replay registered for this obligation", None
    if name.startswith("write_bitpacked1."):
        prog = head + '''
vals = np.array([1, 0, 0, 1, 1, 0, 1, 0, 1, 0, 0], dtype="int8")
f = ce.NumpyIO(vals.view("uint8")); out = np.full(4, 0xAA, dtype="uint8"); o = ce.NumpyIO(out)
ce.write_bitpacked1(f, len(vals), o)
want = bytes(np.packbits(vals.astype(bool), bitorder="little"))
got = bytes(out[:o.tell()])
back = np.zeros(len(vals), dtype="uint8"); ce.read_bitpacked1(ce.NumpyIO(np.frombuffer(got + bytes(8), "uint8").copy()), len(vals), ce.NumpyIO(back))
print(json.dumps(dict(VIOLATED=(got != want) or f.tell() != len(vals), detail=dict(values=vals.tolist(), written=got.hex(), spec_lsb_first=want.hex(),
      read_bitpacked1_of_written=back.tolist(), input_cursor=f.tell(), input_cursor_spec=len(vals), input_nbytes=len(vals)))))
'''
        return _sub(prog)
    if name.startswith("encode_dict."):
        prog = head + '''
import pandas as pd
from fastparquet import writer
n, item = %d, %d
data = pd.Series(np.arange(n, dtype="int%%d" %% (8 * item)))
blk = writer.encode_dict(data, None)
g = (n + 7) // 8
hdr = uleb((g << 1) | 1)
payload = blk[1 + len(hdr):]
print(json.dumps(dict(VIOLATED=len(payload) != g * 8 * item, detail=dict(n=n, itemsize=item, block=blk.hex(), announced_groups=g,
      announced_payload_bytes=g * 8 * item, payload_bytes=len(payload)))))
''' % (int((model or {}).get("n_rows") or 1) % 1000 or 1, int((model or {}).get("itemsize") or 1))
        return _sub(prog)
    return False, "no native replay registered for this obligation", None


def _sub(prog):
    """native code may crash: always a subprocess"""
    import json
    import subprocess
    import sys
    try:
        r = subprocess.run([sys.executable, "-c", prog], capture_output=True, text=True, timeout=120)
    except subprocess.TimeoutExpired:
        return False, "replay timed out", prog
    if r.returncode < 0:
        return True, f"real function died with signal {-r.returncode}", prog
    try:
        out = json.loads(r.stdout.strip().splitlines()[-1])
        return bool(out["VIOLATED"]), json.dumps(out["detail"])[:600], prog
    except Exception:
        return False, "replay produced no verdict: " + (r.stderr[-300:] or r.stdout[-300:]), prog
