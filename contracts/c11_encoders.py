"""C11 / C12 / C01 - the ENCODER side of cencoding.pyx under contract, from the .pyx re-read on every run, plus the Python call
site that frames a bit-packed run by hand (writer.encode_dict).

Specification (Parquet format, "Encodings": RLE / bit-packing hybrid; PLAIN boolean), NOT the code:

    bit-packed-run    := varint-encode(<groups> << 1 | 1)  <bit-packed-values>
    groups            := ceil(number of values / 8)          ("we always bit-pack a multiple of 8 values at a time")
    bit-packed-values := groups * width BYTES: value j occupies stream bits [width*j, width*j + width), LSB first (stream bit t is bit
                         t % 8 of byte t / 8); the values that complete the last group are zero (padding)
    varint-encode     := ULEB128
    <length> prefix   := 4 bytes little endian = byte length of the encoded data that follows (hybrid with length, v1 levels)

Stream bit t of the payload is therefore   SPECBIT(t) = bit (t % width) of value[t / width]  if t < width * n,  else 0.

encode_bitpacked(values, width, o)   per width 0..32, ALL counts, by control-state closure over `bit` (pending bits, 0..7) at the head of
the value loop - the real loop body is executed once per reachable state with every assigned variable havoc'd under the invariant
    8*c + bit == width*e                      (c payload bytes written, e values consumed)
    o.loc == base + c                         (base = cursor after the header; nothing was dropped: capacity precondition)
    bits  == the `bit` pending stream bits [8c, 8c + bit), nothing above them
    payload bytes [0, c) == SPECBIT bytes, nothing else modified
  obligations (names are what a VIOLATION reports; [w=..] tags omitted here):
    encode_bitpacked.header_is_spec                 bytes at the old cursor == ULEB128((ceil(n/8) << 1) | 1), cursor after it == base
    encode_bitpacked.loop_bound_is_count            the loop runs over exactly the n values
    encode_bitpacked.closure.invariant_on_entry / .state(b)->(b').{spec_index_arithmetic, new_bits_are_value_bits, emitted_bytes_are_spec,
                      pending_bits_are_spec, cursor_algebra, output_prefix_is_spec_and_frame}
    encode_bitpacked.closure_completed              all reachable states closed under the real loop body
    encode_bitpacked.payload_bits_are_spec          WHOLE OUTPUT: every bit of every payload byte written == SPECBIT (posed at a Skolem byte)
    encode_bitpacked.cursor_covers_all_value_bits   cursor == base + ceil(width*n/8): every byte carrying a value bit is written, the last
                                                     one zero-padded
    encode_bitpacked.cursor_is_whole_groups[n%8==0] / [partial last group]   cursor == base + groups*width (the run the header announces)
    encode_bitpacked.frame                          nothing outside [old cursor, new cursor) is modified; .values_not_written
  safety (C12): view index, loads, stores (NumpyIO.write_byte is guarded), shift amounts, header value fits int32.

encode_unsigned_varint.bytes_are_uleb[len=k]   callee contract used as a CUT inside encode_bitpacked: proved on the real source per length.
encode_rle_bp(data, width, o, withlength)      encode_bitpacked by its contract (cut: advances by K bytes, writes only those):
    encode_rle_bp[withlength=1].length_prefix_is_payload_size / .cursor / .run_bytes_untouched_by_prefix / .frame ; [withlength=0].is_encode_bitpacked
write_bitpacked1(file_obj, count, o)           PLAIN boolean packing: output bit j (LSB first) == input byte j; cursors; frame; loop invariant
    posed twice: [order=lsb] is the Parquet order (and the inverse of read_bitpacked1), [order=msb] the np.packbits order its comment names.
writer.encode_dict (Python)                     block == width byte ++ ULEB128((ceil(n/8) << 1) | 1) ++ values.tobytes(); 10-byte scratch
    capacity; encode_dict.run_is_whole_groups: the payload has the groups*width bytes the header announces.
Round trip (C11, C01), stated over the byte-level spec shared with the decoder contracts (kernels.spec_bitpacked_value is the function
`read_bitpacked[w].values` is proved against):
    bitpacked.roundtrip[w]        stream == SPECBIT stream of x  =>  spec_bitpacked_value(stream, w, j) == x[j]  for every j < n
    hybrid.header_roundtrip       (groups << 1 | 1) is dispatched to the bit-packed branch with `groups` groups (read_rle_bit_packed_hybrid's
                                  test `header & 1`, count header >> 1)
    dict_index.roundtrip[w=8,16,32]   little-endian items (values.tobytes()) ARE the bit-packed stream at width 8*itemsize
    bitpacked1.roundtrip          LSB-first packed booleans decode (read_bitpacked1.values) to the input
"""
import ast
import time

import z3

from vc import backends
from vc.symexec import (Engine, Path, CI, Ptr, PyI, PyB, Ref, View, LoopSpec, Unsupported, NONE, NoneV, Opaque, Custom, BytesV, Tup, CT)
from vlib.common import PROVED, REFUTED, UNKNOWN
from . import cy
from .kernels import KResults, post, mv, _cval, spec_bitpacked_value, _bit
from .c10_thrift import uleb_bytes, uleb_len64
from .util import solve

ASSUMED = [
    "callee contract (cut) inside encode_bitpacked: encode_unsigned_varint(x, o) with loc + uleb_len(x) <= nbytes writes the minimal "
    "ULEB128 of x at the cursor, advances by its length and modifies nothing else - proved on the real source by "
    "encode_unsigned_varint.bytes_are_uleb[len=1..10] / .cursor / .frame in the same run",
    "callee contract (cut) inside encode_rle_bp: encode_bitpacked advances the cursor by K >= 1 bytes and writes only those K bytes - "
    "proved per width by encode_bitpacked[w].cursor_covers_all_value_bits / .frame / .header_is_spec",
    "precondition of the encoders: every value v satisfies 0 <= v < 2**width (callers choose width = width_from_max_int(max)); "
    "the output buffer has room for what the kernel writes (NumpyIO.write_byte drops bytes silently when full)",
    "write_bitpacked1: the input is a numpy bool / int8 array of 0 and 1 (one byte per value)",
    "writer.encode_dict: data.values.tobytes() is the little-endian image of len(data) items of dtype.itemsize bytes (numpy); "
    "dtype.itemsize in {1, 2, 4}; len(data) < 2**31",
    "composition of a round trip from the encoder post, the lemma bitpacked.roundtrip[w] and the decoder contract read_bitpacked[w].values "
    "is by transitivity over the shared specification function (argued, not mechanised as one run)",
]

MemSort = cy.MemSort
BV1 = z3.BitVecSort(1)

_HASQ = {}


def has_q(e):
    k = e.get_id()
    r = _HASQ.get(k)
    if r is None:
        r = z3.is_quantifier(e) or any(has_q(c) for c in e.children())
        _HASQ[k] = (r, e)                      # keep the term alive: ids are only unique among live terms
        return r
    return r[0]


def qf(pc):
    """the quantifier-free part of a path condition (dropping hypotheses is sound for PROVED; used where the goal is linear / bit-vector
    and a counter-model is wanted quickly)"""
    return [c for c in pc if not has_q(c)]


def discharge(ob, timeout_ms):
    """as vc.backends.discharge (quantifier-free hypotheses first), with the quantifier test cached per term"""
    t = time.time()
    g = ob.goal
    if z3.is_true(g):
        return PROVED, "simplify", time.time() - t, None
    q0 = qf(ob.pc)
    if len(q0) != len(ob.pc) or ob.axioms:
        s0 = z3.Solver()
        s0.set("timeout", min(3000, timeout_ms))
        s0.add(*q0)
        s0.add(z3.Not(g))
        r0 = s0.check()
        if r0 == z3.unsat:
            return PROVED, "z3", time.time() - t, None
    s = z3.Solver()
    s.set("timeout", timeout_ms)
    s.add(*ob.pc)
    s.add(*ob.axioms)
    s.add(z3.Not(g))
    r = s.check()
    if r == z3.unsat:
        return PROVED, "z3", time.time() - t, None
    if r == z3.sat:
        return REFUTED, "z3", time.time() - t, s.model()
    r2 = backends._cvc5(s.to_smt2(), timeout_ms)
    if r2 == "unsat":
        return PROVED, "cvc5", time.time() - t, None
    return UNKNOWN, "z3+cvc5", time.time() - t, None


class EResults(KResults):
    def take_engine(self, eng, prefix, timeout, model_fn=None):
        for ob in eng.oblig:
            st, be, secs, m = discharge(ob, timeout)
            nm = prefix + ob.name.split(".", 1)[-1]
            self.kind[nm] = "safety" if ob.kind in ("safety", "unwind", "assert") else "functional"
            self.add(nm, st, model_fn(m) if (m is not None and model_fn) else ({"z3_model": str(m)[:400]} if m is not None else None),
                     secs, be, ob.note or ob.kind)
        eng.oblig = []


class EncEngine(Engine):
    """`(even value) | 1` keeps its integer view (value + 1): the run header `groups << 1 | 1` stays linear arithmetic.  Evenness is
    decided by the solver under the path condition, like the engine's own representability checks."""

    def _even(self, p, iv):
        s = z3.Solver()
        s.set("timeout", 500)
        if p is not None:
            s.add(*qf(p.pc))
        s.add(iv % 2 != 0)
        return s.check() == z3.unsat

    @staticmethod
    def _is_one(c):
        v = z3.simplify(c.iv) if c.iv is not None else z3.simplify(c.bv)
        return (z3.is_int_value(v) or z3.is_bv_value(v)) and v.as_long() == 1

    def c_binop(self, op, a, b, p, node):
        r = super().c_binop(op, a, b, p, node)
        if isinstance(op, ast.BitOr) and isinstance(r, CI) and r.iv is None:
            x, y = self.usual(a, b, p)
            for u, v in ((x, y), (y, x)):
                if self._is_one(v) and u.iv is not None and self._even(p, u.iv):
                    # an even value of the type is at most max - 1: value + 1 is representable
                    return CI(r.bv, r.bits, r.signed, u.iv + 1, (u.rng[0], u.rng[1] | 1) if u.rng else None)
        return r

    def py_arith(self, op, x, y, p, node):
        if isinstance(op, ast.BitOr):
            sy = z3.simplify(y)
            if z3.is_int_value(sy) and sy.as_long() == 1 and not z3.is_int_value(z3.simplify(x)) and self._even(p, x):
                return x + 1
        return super().py_arith(op, x, y, p, node)


def engine(loops=None, handlers=None, extra_funcs=None, opaque_calls=False):
    funcs, fields, consts = cy.load()
    if extra_funcs:
        funcs = dict(funcs)
        funcs.update(extra_funcs)
    eng = EncEngine(funcs=funcs, inline=("*",), loops=loops or {}, handlers=handlers or {}, opaque_calls=opaque_calls)
    eng.class_fields = fields
    for name, (t, expr) in consts.items():
        ct = eng.ctype(t)
        if ct:
            eng.consts[name] = CI(z3.BitVecVal(int(expr, 0), ct[0]), ct[0], ct[1])
    return eng


# =================================================================================================
# specification functions
# =================================================================================================
def value_at(vmem, j):
    """values[j] as the little-endian int32 at byte 4*j of the values region"""
    return z3.Concat(*[z3.Select(vmem, 4 * j + b) for b in reversed(range(4))])


def specbit(vmem, w, n, t):
    """SPECBIT(t): stream bit t of the bit-packed payload of n values of width w (1 bit)"""
    if w == 0:
        return z3.BitVecVal(0, 1)
    v = value_at(vmem, t / w)
    return z3.If(t < w * n, z3.Extract(0, 0, z3.LShR(v, z3.Int2BV(t % w, 32))), z3.BitVecVal(0, 1))


def specbyte_of(fn_bit, i):
    """byte i of a stream given its bit function (bit u of the byte is stream bit 8*i + u)"""
    return z3.Concat(*[fn_bit(8 * i + u) for u in reversed(range(8))])


def uleb_len_int(x):
    """ULEB128 length of an Int in [0, 2**64): the smallest L >= 1 with x < 2**(7L)"""
    L = z3.IntVal(10)
    for j in reversed(range(1, 10)):
        L = z3.If(x < 2 ** (7 * j), j, L)
    return L


def in_width(vbv, w):
    if w >= 32:
        return z3.BoolVal(True)
    return z3.LShR(vbv, w) == 0


# =================================================================================================
# encode_unsigned_varint: bytes == ULEB128 (the callee contract used as a cut below)
# =================================================================================================
def varint_bytes_lemma(timeout):
    """for every uint64 x (an Int with its bit-vector image, as the engine carries counters): encode_unsigned_varint(x, o) with room for
    the L = uleb_len(x) bytes writes ULEB128(x) at the cursor, advances by L, modifies nothing else.  Posed per length."""
    res = EResults()
    k = z3.Int("k_skolem")
    for j in range(1, 11):
        eng = engine(loops={("encode_unsigned_varint", 0): LoopSpec("unroll", 10)})
        p = Path()
        o = cy.new_io(p, "o")
        x = CI.var("x", 64, False)
        p.pc.append(x.range_constraint())
        loc0, n, mem0 = cy.loc(p, "o"), cy.nbytes(p, "o"), p.mem["o"]
        p.pc += [uleb_len_int(x.iv) == j, loc0 + j <= n]
        mf = lambda m: {"x": mv(m, x.iv), "loc": mv(m, loc0), "nbytes": mv(m, n)}
        if solve(list(p.pc), 5000)[0] != REFUTED:
            res.addk(f"encode_unsigned_varint.bytes_are_uleb[len={j}]", "functional", UNKNOWN, None, 0.0, "z3", "precondition not shown satisfiable")
            continue
        outs = eng.run("encode_unsigned_varint", p, [x, o])
        res.take_engine(eng, f"encode_unsigned_varint[len={j}].", timeout, mf)
        nret = 0
        for q in outs:
            if q.ctl[0] != "ret":
                continue
            nret += 1
            m1 = q.mem["o"]
            post(res, f"encode_unsigned_varint.bytes_are_uleb[len={j}]", q.pc,
                 z3.And(uleb_bytes(m1, loc0, x.bv, z3.IntVal(j)), cy.loc(q, "o") == loc0 + j), timeout,
                 "the minimal ULEB128 of x (7 bits per byte, low group first, continuation bit on all but the last) is written at the "
                 "cursor and the cursor advances by its length - when it fits", mf)
            post(res, f"encode_unsigned_varint.frame[len={j}]", q.pc,
                 z3.Implies(z3.Or(k < loc0, k >= loc0 + j), z3.Select(m1, k) == z3.Select(mem0, k)), timeout,
                 "nothing outside the varint's bytes is modified", mf)
        if nret == 0:
            res.addk(f"encode_unsigned_varint.bytes_are_uleb[len={j}]", "functional", UNKNOWN, None, 0.0, "engine", "no returning path")
    return res


def h_varint_contract(eng, p, args, kw, node):
    """encode_unsigned_varint(x, o) by its contract (varint_bytes_lemma), instantiated at the integer the caller passes; requires
    loc + L <= nbytes (posed as an obligation of the caller)"""
    x, o = args[0], args[1]
    if not isinstance(o, Ref):
        raise Unsupported("encode_unsigned_varint: output is not a NumpyIO")
    xc = eng.conv(x, 64, False, p)
    if xc.iv is None:
        raise Unsupported("encode_unsigned_varint: the argument has no integer view (callee contract not applicable)")
    name = o.oid
    loc0, nb = cy.loc(p, name), cy.nbytes(p, name)
    xi = xc.iv
    xb = z3.Int2BV(xi, 64)
    L = uleb_len_int(xi)
    eng.oblige(p, f"{eng.cur_func}.header_fits_buffer@L{node.lineno}", "safety", loc0 + L <= nb, node,
               note="precondition of the callee contract: the varint fits the output buffer (write_byte drops bytes silently otherwise)")
    k = next(eng.counter)
    m1 = z3.Const(f"mem_after_varint!{k}", MemSort)
    nl = CI.var(f"loc_after_varint!{k}", 32, False)
    old = p.mem[name]
    p.ghost["varint_calls"] = p.ghost.get("varint_calls", []) + [(loc0, xi, L, old, m1)]
    p.mem[name] = m1
    p.heap[name] = dict(p.heap[name], loc=nl)
    p.pc += [xi >= 0, xi < 2 ** 64, nl.range_constraint(), nl.iv == loc0 + L, uleb_bytes(m1, loc0, xb, L)]
    p.ghost["facts"] = p.ghost.get("facts", []) + [
        ("frame", lambda i, m1=m1, old=old, loc0=loc0, L=L: z3.Implies(z3.Or(i < loc0, i >= loc0 + L), z3.Select(m1, i) == z3.Select(old, i)))]
    return [(p, NONE)]


# =================================================================================================
# encode_bitpacked: control-state closure over `bit`
# =================================================================================================
def _assigned_names(stmts):
    names = set()
    for nd in ast.walk(ast.Module(body=list(stmts), type_ignores=[])):
        if isinstance(nd, (ast.Assign, ast.AugAssign, ast.AnnAssign, ast.For)):
            tg = nd.targets if isinstance(nd, ast.Assign) else [nd.target]
            for t in tg:
                for m in ast.walk(t):
                    if isinstance(m, ast.Name):
                        names.add(m.id)
    return names


def inst(p, kind, *terms):
    """instances of the universally quantified facts of kind `kind` recorded on path p (p.ghost['facts']: list of (kind, fn(term) -> Bool));
    the facts are never put into the path condition as quantifiers: every query stays quantifier-free"""
    return [f(t) for k, f in p.ghost.get("facts", []) if k == kind for t in terms]


def encode_bitpacked_closure(w, timeout, max_states=64):
    res = EResults()
    tag = f"[w={w}]"
    state = {"seen": {}}
    VB = z3.Function(f"SPECBIT_w{w}", z3.IntSort(), BV1)      # SPECBIT(t); defined, instances added where a particular t is needed
    pre = f"encode_bitpacked{tag}."

    def prove(name, hyps, goal, note, mf, kind="functional"):
        st, m, secs = solve(list(hyps) + [z3.Not(goal)], timeout)
        res.addk(pre + name, kind, st, mf(m) if m is not None else None, secs, "z3", note)
        return st

    def mk_inv(p, b, c, e, bits, n, base):
        """invariant of control state bit == b over ghost c (payload bytes written), e (values consumed): linear part, accumulator part"""
        lia = [c >= 0, 0 <= e, e <= n, 8 * c + b == w * e, cy.loc(p, "o") == base + c]
        bvs = []
        if not (0 <= b < 8):
            bvs.append(z3.BoolVal(False))
        else:
            for u in range(b):
                bvs.append(z3.Extract(u, u, bits) == VB(8 * c + u))
            bvs.append(z3.LShR(bits, b) == 0)
        return lia, bvs

    def mem_facts(m, c, base, mem_h):
        """memory part of the invariant, as instantiable facts: payload bytes [0, c) are the SPECBIT bytes; nothing else differs from the
        memory right after the header"""
        return [("spec", lambda i, m=m, c=c: z3.Implies(z3.And(0 <= i, i < c), z3.Select(m, base + i) == specbyte_of(VB, i))),
                ("frame", lambda idx, m=m, c=c: z3.Implies(z3.Or(idx < base, idx >= base + c), z3.Select(m, idx) == z3.Select(mem_h, idx)))]

    def hook(eng, st, p):
        g = p.ghost
        n, vmem, mf = g["n"], g["vmem"], g["mf"]
        if not (isinstance(st, ast.For) and isinstance(st.iter, ast.Call) and getattr(st.iter.func, "id", None) == "range"
                and len(st.iter.args) == 1):
            raise Unsupported("encode_bitpacked: the value loop is not `for .. in range(count)`")
        evs = eng.ev_list(st.iter.args, p)
        if len(evs) != 1:
            raise Unsupported("forking loop bound")
        p, hargs = evs[0]
        hi = eng.as_int(hargs[0], p, st)
        prove("loop_bound_is_count", p.pc, hi == n, "the value loop visits exactly the n values", mf)
        p.pc.append(hi == n)                                    # cut (posed just above)
        base = cy.loc(p, "o")
        mem_h = p.mem["o"]
        g["base"], g["mem_h"] = base, mem_h
        header_facts = list(g.get("facts", []))
        b0 = _cval(p.env["bit"]) if isinstance(p.env.get("bit"), CI) else None
        if b0 is None or not isinstance(p.env.get("bits"), CI):
            raise Unsupported("encode_bitpacked: control variable `bit` / accumulator `bits` not found or not concrete on loop entry")
        lia, bvs = mk_inv(p, b0, z3.IntVal(0), z3.IntVal(0), eng.conv(p.env["bits"], 32, True, p).bv, n, base)
        prove(f"closure.invariant_on_entry(bit={b0})", p.pc, z3.And(*lia, *bvs),
              "before the first value: no payload byte written, no pending bit, accumulator zero", mf)
        assigned = _assigned_names(st.body) | _assigned_names([st])
        todo, exits = [b0], []
        while todo and len(state["seen"]) < max_states:
            b = todo.pop()
            if b in state["seen"]:
                continue
            state["seen"][b] = True
            q = p.fork()
            k = next(eng.counter)
            c, e = z3.Int(f"c!{k}"), z3.Int(f"e!{k}")
            bits = z3.BitVec(f"bits!{k}", 32)
            M = z3.Const(f"omem!{k}", MemSort)
            q.mem["o"] = M
            q.heap["o"] = dict(q.heap["o"])
            oloc = z3.Int(f"oloc!{k}")
            q.heap["o"]["loc"] = CI(z3.Int2BV(oloc, 32), 32, False, oloc, (0, 2 ** 32 - 1))
            q.pc += [oloc >= 0, oloc < 2 ** 32]
            lia, bvs = mk_inv(q, b, c, e, bits, n, base)
            q.pc += lia + bvs
            q.ghost["facts"] = header_facts + mem_facts(M, c, base, mem_h)
            q.env = dict(q.env)
            # every local the body assigns is arbitrary (under the invariant)
            for nm in sorted(assigned):
                if nm in ("bit", "bits") or nm not in q.env:
                    continue
                v0 = q.env[nm]
                if isinstance(v0, NoneV) or v0 is NONE:
                    continue
                q.env[nm] = eng.havoc_like(v0, nm + "_havoc", q)
            q.env["bit"] = CI(z3.BitVecVal(b, 32), 32, True, z3.IntVal(b), (b, b))
            q.env["bits"] = CI(bits, 32, True)
            ex = q.fork(z3.Not(e < hi))
            if eng.feasible(ex):
                ex.ghost["exit_state"] = (b, c, e)
                exits.append(ex)
            body = q.fork(e < hi)
            if not eng.feasible(body):
                continue
            ve = value_at(vmem, e)
            # precondition `every value lies inside the width`, instantiated at the value this iteration reads
            body.pc.append(in_width(ve, w))
            starts = eng.assign(st.target, PyI(e), body)
            n_before = len(eng.oblig)
            outs = eng.block(st.body, starts)
            for ob in eng.oblig[n_before:]:
                ob.name = ob.name + f"@state(bit={b})"
            for r in outs:
                if r.ctl is not None:
                    raise Unsupported("abrupt exit inside the encode_bitpacked value loop")
                b2 = _cval(r.env["bit"]) if isinstance(r.env.get("bit"), CI) else None
                if b2 is None:
                    raise Unsupported("control variable `bit` not concrete after one loop iteration")
                nm = f"closure.state(bit={b})->(bit={b2})"
                c2 = z3.simplify(cy.loc(r, "o") - base)
                bits2 = eng.conv(r.env["bits"], 32, True, r).bv
                M2 = r.mem["o"]
                core = [8 * c + b == w * e, 0 <= e, e < n, c >= 0]
                if w > 0:
                    # (1) index arithmetic of the new value's bits (linear lemma on its own hypotheses; proved, then used)
                    s_ = z3.Int(f"s!{k}")
                    t_s = 8 * c + b + s_
                    prove(nm + ".spec_index_arithmetic", core + [0 <= s_, s_ < w], z3.And(t_s / w == e, t_s % w == s_, t_s < w * n),
                          "from 8c + bit == width*e and e < n: stream bit 8c + bit + s (0 <= s < width) is bit s of value e", mf)
                    # (2) SPECBIT at those positions == the value's bits (the definition of SPECBIT evaluated; proved, then used)
                    lem = []
                    for s in range(w):
                        t = 8 * c + (b + s)
                        idx_inst = [t / w == e, t % w == s, t < w * n]                     # instances of lemma (1)
                        lem.append((idx_inst, specbit(vmem, w, n, t) == z3.Extract(s, s, ve)))
                    st_l, m_l, secs_l = PROVED, None, 0.0
                    for hy, gl in lem:
                        st1, m1_, s1 = solve(hy + [z3.Not(gl)], timeout)
                        secs_l += s1
                        if st1 != PROVED:
                            st_l, m_l = st1, m1_
                            break
                    res.addk(pre + nm + ".new_bits_are_value_bits", "functional", st_l, mf(m_l) if m_l is not None else None, secs_l, "z3",
                             "SPECBIT(8c + bit + s) == bit s of values[e] for 0 <= s < width")
                    for s in range(w):
                        t = 8 * c + (b + s)
                        # instance of the definition of SPECBIT, rewritten with the lemma just proved
                        r.pc.append(VB(t) == z3.Extract(s, s, ve))
                # (3) every byte stored in this iteration is the specification byte, stored in order at the cursor
                m_new = (b + w) // 8 if 0 <= b < 8 else 0
                stored = z3.And(*[z3.Select(M2, oloc + t_) == z3.Concat(*[VB(8 * c + (8 * t_ + u)) for u in reversed(range(8))])
                                  for t_ in range(m_new)]) if m_new else z3.BoolVal(True)
                untouched = [M2 == M] if m_new == 0 else []
                prove(nm + ".emitted_bytes_are_spec", r.pc, z3.And(c2 == c + m_new, stored, *untouched),
                      f"the {m_new} byte(s) completed by this value are written in order at the cursor and equal the SPECBIT bytes", mf)
                r.pc += [c2 == c + m_new, stored] + untouched
                # (4) the pending bits are the next stream bits and nothing else (no bit lost or smeared in the 32-bit accumulator)
                lia2, bvs2 = mk_inv(r, b2, c + m_new, e + 1, bits2, n, base)
                prove(nm + ".pending_bits_are_spec", r.pc, z3.And(*bvs2),
                      "bits == the `bit` stream bits after the last complete byte, zero above them (v << bit keeps every bit; bits >>= 8 "
                      "shifts in zeros)", mf)
                prove(nm + ".cursor_algebra", r.pc, z3.And(*lia2), "8c + bit == width*e, cursor == base + c, e <= n after the iteration", mf)
                # (5) memory invariant, at Skolem indices, from the instances of the old one
                i0, x0 = z3.Int(f"i0!{k}"), z3.Int(f"x0!{k}")
                new = dict(mem_facts(M2, c + m_new, base, mem_h))
                prove(nm + ".output_prefix_is_spec_and_frame", list(r.pc) + inst(r, "spec", i0) + inst(r, "frame", x0),
                      z3.And(new["spec"](i0), new["frame"](x0)),
                      "payload bytes [0, c') are the SPECBIT bytes and nothing else differs from the memory after the header", mf)
                prove(nm + ".values_not_written", [], r.mem["vals"] == vmem, "the input is not written", mf)
                if not z3.is_false(z3.simplify(z3.And(*bvs2))):
                    todo.append(b2)
        if todo:
            raise Unsupported("control-state closure did not close within the state budget")
        return exits
    loops = {("encode_bitpacked", 0): LoopSpec("hook", inv=hook), ("encode_bitpacked", 1): LoopSpec("unroll", 6)}
    eng = engine(loops=loops, handlers={"encode_unsigned_varint": h_varint_contract})
    p = Path()
    o = cy.new_io(p, "o")
    n = z3.Int("n_values")
    vmem = z3.Const("vals_mem", MemSort)
    p.mem["vals"] = vmem
    p.rsize["vals"] = 4 * n
    values = View("vals", z3.IntVal(0), n, (32, True))
    loc0, on, mem0 = cy.loc(p, "o"), cy.nbytes(p, "o"), p.mem["o"]
    groups = (n + 7) / 8
    hdr = 2 * groups + 1
    L = uleb_len_int(hdr)
    nbits = w * n
    pay = (nbits + 7) / 8
    # requires: 0 <= n <= 2**31 - 8 (run lengths are < 2**31 in the format), room for what the kernel writes, values inside the width
    # (instantiated per iteration)
    p.pc += [n >= 0, n <= 2 ** 31 - 8, loc0 + L + pay <= on]
    mf = lambda m: {"width": w, "n_values": mv(m, n), "o_loc": mv(m, loc0), "o_nbytes": mv(m, on)}
    p.ghost.update(n=n, vmem=vmem, mf=mf)
    # vacuity guard
    if solve(list(p.pc) + [n >= 9], 5000)[0] != REFUTED:
        res.addk(pre + "precondition_satisfiable", "functional", UNKNOWN, None, 0.0, "z3", "not shown satisfiable")
        return res
    try:
        outs = eng.run("encode_bitpacked", p, [values, PyI(w, lit=True), o])
    except Unsupported as ex:
        res.take_engine(eng, pre, timeout, mf)
        res.addk(pre + "closure_completed", "functional", UNKNOWN, None, 0.0, "engine", str(ex))
        return res
    res.take_engine(eng, pre, timeout, mf)
    res.addk(pre + "closure_completed", "functional", PROVED, None, 0.0, "closure",
             f"{len(state['seen'])} control states (pending bit count) reachable; closed under the real loop body")
    i_sk, idx = z3.Int("i_sk"), z3.Int("idx_sk")
    nret = 0
    for q in outs:
        if q.ctl[0] != "ret":
            continue
        nret += 1
        m1 = q.mem["o"]
        loc1 = cy.loc(q, "o")
        base = q.ghost.get("base")
        if base is None:
            res.addk(pre + "closure_completed", "functional", UNKNOWN, None, 0.0, "engine", "the value loop was not reached")
            continue
        calls = q.ghost.get("varint_calls", [])
        # header: exactly one varint, at the old cursor, of the specification value; its bytes survive the payload writes
        if len(calls) == 1:
            at, xi, Lc, _, _ = calls[0]
            hb = [loc0 + u for u in range(10)]
            prove("header_is_spec", list(q.pc) + inst(q, "frame", *hb),
                  z3.And(at == loc0, xi == hdr, base == loc0 + L, uleb_bytes(m1, loc0, z3.Int2BV(hdr, 64), L)),
                  "the run starts at the old cursor with ULEB128((ceil(n/8) << 1) | 1), written exactly once, intact after the payload writes", mf)
        else:
            res.addk(pre + "header_is_spec", "functional", REFUTED, {"varint_calls": len(calls)}, 0.0, "engine",
                     "the run header must be written exactly once")
        # whole payload, bit by bit, at a Skolem byte index
        cw = loc1 - base
        defs = [VB(8 * i_sk + u) == specbit(vmem, w, n, 8 * i_sk + u) for u in range(8)]          # instances of the definition of SPECBIT
        goal = z3.And(*[z3.Extract(u, u, z3.Select(m1, base + i_sk)) == specbit(vmem, w, n, 8 * i_sk + u) for u in range(8)])
        prove("payload_bits_are_spec", list(q.pc) + defs + inst(q, "spec", i_sk) + [0 <= i_sk, i_sk < cw], goal,
              "every bit of every payload byte written: stream bit t == bit (t % w) of values[t / w] for t < w*n, 0 (padding) beyond", mf)
        prove("cursor_covers_all_value_bits", q.pc, loc1 == base + pay,
              "cursor == header end + ceil(w*n/8): all bytes carrying value bits are written (the last zero-padded), none beyond", mf)
        prove("cursor_is_whole_groups[n%8==0]", list(q.pc) + [n % 8 == 0], loc1 == base + groups * w,
              "n a multiple of 8: the payload is exactly the groups*width bytes the header announces", mf)
        prove("cursor_is_whole_groups[partial last group]", list(q.pc) + [n % 8 != 0], loc1 == base + groups * w,
              "n not a multiple of 8: the last group is completed with zero values - the payload is still groups*width bytes", mf)
        prove("frame", list(q.pc) + inst(q, "frame", idx) + [z3.Or(idx < loc0, idx >= loc1)], z3.Select(m1, idx) == z3.Select(mem0, idx),
              "nothing outside [old cursor, new cursor) is modified", mf)
        prove("values_not_written", [], q.mem["vals"] == vmem, "the input is not written", mf)
        prove("header_value_fits_int32", q.pc, hdr <= 2 ** 31 - 1,
              "(ceil(n/8) << 1) | 1 is representable in the int32 it is computed in, for every run length the format allows", mf, kind="safety")
    if nret == 0:
        res.addk(pre + "payload_bits_are_spec", "functional", UNKNOWN, None, 0.0, "engine", "no returning path")
    return res
