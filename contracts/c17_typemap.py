"""C17 - finite table lemma (EXECUTED ENUMERATION, not SMT): what the handle predicts for a flat leaf equals what the
read path produces for it.

For every flat schema element  (physical type x converted type x logical type)  of the Parquet format's annotation table
(LogicalTypes.md: which annotation may sit on which physical type; the TIMESTAMP logical type with its three units and both
isAdjustedToUTC flags, alone and next to the converted type it is the successor of):

    predicted = the dtype `ParquetFile._dtypes` derives for the column = converted_types.typemap(se)  (+ its S12 -> M8[ns] rule)
    realised  = converted_types.convert(encoding.read_plain(PLAIN sample bytes, se.type, n, width=se.type_length,
                                        utf=se.converted_type == UTF8), se)        -- the two calls core.read_data_page makes

  typemap.predicts_convert[<type>,<converted>,<logical>]   PROVED  iff  typemap refuses (raises), or
        `realised` is one value per row (shape (n,)), kind and item width of `realised.dtype` equal those of `predicted` (or the
        prediction is `object`, whose array holds the realised values one by one), and assigning it into the pre-allocated
        array of the predicted dtype (what the reader does) succeeds without changing the values;  REFUTED with the two
        dtypes otherwise.

The combinations outside the format's table (e.g. FLOAT annotated DATE) are executed too and summarised in a note, not posed:
a disagreement there is not a defect of a reader of valid files.
This module IMPORTS fastparquet from the tree under check at run time (runtime.harness.import_fastparquet).
"""
import itertools
import struct
import time

import numpy as np

from vc.front_py import parse_module
from vlib.common import PROVED, REFUTED, UNKNOWN
from .util import Results

ASSUMED = [
    "C17 table lemma: EXECUTED enumeration of a finite table on the tree under check (fastparquet imported at run time), not a "
    "proof about all values: each combination is run on one small PLAIN-encoded sample (3 values, no nulls, no pandas metadata)",
    "the annotation table (which converted / logical type may annotate which physical type) is the one of the Parquet format's "
    "LogicalTypes.md; MAP / MAP_KEY_VALUE / LIST annotate groups and are outside a flat leaf",
    "numpy dtype semantics (view / astype / slice assignment casts) are numpy's",
    "BSON: when the optional third-party decoder is not installed (converted_types.unbson raises ImportError) a stand-in decoder "
    "returning a dict is used for that one combination - the lemma is about the dtype of the result array, not about BSON",
]

FID_INTERVAL = "C17-P-interval-predicted-object-read-2d-uint32"

# Parquet format, LogicalTypes.md: converted type -> physical types it may annotate (flat leaves only)
VALID = {
    None: ["BOOLEAN", "INT32", "INT64", "INT96", "FLOAT", "DOUBLE", "BYTE_ARRAY", "FIXED_LEN_BYTE_ARRAY"],
    "UTF8": ["BYTE_ARRAY"], "ENUM": ["BYTE_ARRAY"], "JSON": ["BYTE_ARRAY"], "BSON": ["BYTE_ARRAY"],
    "DECIMAL": ["INT32", "INT64", "FIXED_LEN_BYTE_ARRAY", "BYTE_ARRAY"],
    "DATE": ["INT32"], "TIME_MILLIS": ["INT32"], "TIME_MICROS": ["INT64"],
    "TIMESTAMP_MILLIS": ["INT64"], "TIMESTAMP_MICROS": ["INT64"],
    "UINT_8": ["INT32"], "UINT_16": ["INT32"], "UINT_32": ["INT32"], "UINT_64": ["INT64"],
    "INT_8": ["INT32"], "INT_16": ["INT32"], "INT_32": ["INT32"], "INT_64": ["INT64"],
    "INTERVAL": ["FIXED_LEN_BYTE_ARRAY"],
}
GROUP_ONLY = ("MAP", "MAP_KEY_VALUE", "LIST")
# logical TIMESTAMP(unit) may stand alone on INT64 or next to the converted type it replaces
TS_COMPAT = {"MILLIS": (None, "TIMESTAMP_MILLIS"), "MICROS": (None, "TIMESTAMP_MICROS"), "NANOS": (None,)}
LOGICALS = [None] + [("TIMESTAMP", u, utc) for u in ("MILLIS", "MICROS", "NANOS") for utc in (True, False)]


def logical_name(lg):
    return "-" if lg is None else f"TIMESTAMP({lg[1]},utc={lg[2]})"


def in_format_table(pname, cname, lg):
    if cname in GROUP_ONLY:
        return False
    if pname not in VALID.get(cname, []):
        return False
    if lg is None:
        return True
    return pname == "INT64" and cname in TS_COMPAT[lg[1]]


def _ba(items):
    return b"".join(struct.pack("<i", len(x)) + x for x in items)


def sample_bytes(pname, cname, width):
    """PLAIN encoding of 3 values of the physical type (small, so that every integer annotation can hold them)"""
    if pname == "BOOLEAN":
        return bytes([0b101]), 3
    if pname == "INT32":
        return np.array([1, 2, 100], "<i4").tobytes(), 3
    if pname == "INT64":
        return np.array([1, 2000, 86_400_000_000], "<i8").tobytes(), 3
    if pname == "INT96":
        return b"".join(struct.pack("<qi", 1_000_000_000 * k, 2440588 + k) for k in (0, 1, 2)), 3
    if pname == "FLOAT":
        return np.array([1.5, -2.0, 0.25], "<f4").tobytes(), 3
    if pname == "DOUBLE":
        return np.array([1.5, -2.0, 0.25], "<f8").tobytes(), 3
    if pname == "BYTE_ARRAY":
        if cname == "JSON":
            return _ba([b'{"a": 1}', b"[1, 2]", b"null"]), 3
        if cname == "DECIMAL":
            return _ba([b"\x01", b"\x00\xff", b"\xff"]), 3
        return _ba([b"a", b"bc", b""]), 3
    if pname == "FIXED_LEN_BYTE_ARRAY":
        return bytes(range(3 * width)), 3
    raise ValueError(pname)


def make_se(pt, pname, cname, lg):
    kw = {"name": "x", "type": getattr(pt.Type, pname)}
    if cname is not None:
        kw["converted_type"] = getattr(pt.ConvertedType, cname)
    if cname == "DECIMAL":
        kw.update(scale=2, precision=4)
    if pname == "FIXED_LEN_BYTE_ARRAY":
        kw["type_length"] = 12 if cname == "INTERVAL" else 4
    if lg is not None:
        unit = {"MILLIS": pt.TimeUnit(MILLIS=pt.MilliSeconds()), "MICROS": pt.TimeUnit(MICROS=pt.MicroSeconds()),
                "NANOS": pt.TimeUnit(NANOS=pt.NanoSeconds())}[lg[1]]
        kw["logicalType"] = pt.LogicalType(TIMESTAMP=pt.TimestampType(isAdjustedToUTC=lg[2], unit=unit))
    return pt.SchemaElement(**kw)


def dtypes_rule(dt):
    """the one dtype rewrite ParquetFile._dtypes applies that does not depend on nulls / pandas metadata / categories:
    an INT96 column (typemap: S12) is announced as M8[ns] (checked against the source in `check`)"""
    if dt == "S12":
        return np.dtype("M8[ns]")
    return dt


def run_case(fp, pname, cname, lg):
    """-> (status, detail dict)"""
    from fastparquet import parquet_thrift as pt, converted_types, encoding
    se = make_se(pt, pname, cname, lg)
    d = {"type": pname, "converted": cname, "logical": logical_name(lg)}
    try:
        predicted = np.dtype(dtypes_rule(converted_types.typemap(se)))
    except Exception as ex:
        d["typemap_refuses"] = f"{type(ex).__name__}: {ex}"
        return PROVED, d
    d["predicted"] = str(predicted)
    raw, n = sample_bytes(pname, cname, se.type_length)
    saved = None
    if cname == "BSON":
        try:
            converted_types.unbson(b"")
        except ImportError:
            saved, converted_types.unbson = converted_types.unbson, (lambda b: {"bson": bytes(b)})
            d["bson_stand_in"] = True
        except Exception:
            pass
    try:
        vals = encoding.read_plain(raw, se.type, n, width=se.type_length or 0,
                                   utf=se.converted_type == pt.ConvertedType.UTF8)
        out = converted_types.convert(vals, se)
    except Exception as ex:
        d["read_raises"] = f"{type(ex).__name__}: {ex}"[:200]
        return REFUTED, d
    finally:
        if saved is not None:
            converted_types.unbson = saved
    out = np.asarray(out)
    d["realised"] = str(out.dtype) + ("" if out.shape == (n,) else f" shape {out.shape}")
    if out.shape != (n,):
        d["why"] = f"convert returns shape {out.shape} for {n} rows: not one value per row"
        return REFUTED, d
    if predicted.kind != "O" and (out.dtype.kind, out.dtype.itemsize) != (predicted.kind, predicted.itemsize):
        d["why"] = "kind / item width differ"
        return REFUTED, d
    try:
        arr = np.empty(n, dtype=predicted)
        arr[:] = out
        same = bool(np.array_equal(arr.astype(out.dtype), out)) if predicted.kind != "O" else all(a == b or (a is b) for a, b in zip(arr, out))
    except Exception as ex:
        d["why"] = f"assignment into the pre-allocated {predicted} array raises {type(ex).__name__}: {ex}"[:200]
        return REFUTED, d
    if not same:
        d["why"] = "assignment into the pre-allocated array changes the values"
        return REFUTED, d
    return PROVED, d


def check(ctx, timeout=None):
    from runtime.harness import import_fastparquet
    fp = import_fastparquet()
    from fastparquet import parquet_thrift as pt
    res = Results()
    for rel, names in (("fastparquet/converted_types.py", ("typemap", "convert", "_logical_to_time_dtype")),
                       ("fastparquet/encoding.py", ("read_plain",))):
        funcs, _, src = parse_module(rel)
        for nm in names:
            if nm in funcs:
                ctx.function(f"{rel.split('/')[-1][:-3]}.{nm}", funcs[nm].sha, dict(funcs[nm].report, mode="executed, not symbolically"))
    # the _dtypes rule mirrored by dtypes_rule() is read off the source on every run
    api, _, _ = parse_module("fastparquet/api.py")
    txt = api["ParquetFile._dtypes"].text if "ParquetFile._dtypes" in api else ""
    rule_ok = "dt == 'S12'" in txt and "dtype[col] = 'M8[ns]'" in txt
    res.add("typemap.dtypes_applies_int96_rule", PROVED if rule_ok else UNKNOWN, None, 0.0, "ast",
            "ParquetFile._dtypes rewrites typemap's S12 (INT96) to M8[ns]: the only value-independent rewrite between typemap and pf.dtypes")
    pnames = sorted(pt.Type._NAMES_TO_VALUES, key=pt.Type._NAMES_TO_VALUES.get)
    cnames = [None] + sorted(pt.ConvertedType._NAMES_TO_VALUES, key=pt.ConvertedType._NAMES_TO_VALUES.get)
    missing = [c for c in cnames if c not in VALID and c not in GROUP_ONLY]
    res.add("typemap.table_covers_every_converted_type", PROVED if not missing else UNKNOWN, None, 0.0, "enum",
            "every ConvertedType of parquet_thrift is in the lemma's annotation table" + (f"; missing: {missing}" if missing else ""))
    off = {"agree": 0, "disagree": 0}
    n_in = 0
    for pname, cname, lg in itertools.product(pnames, cnames, LOGICALS):
        t0 = time.time()
        if not in_format_table(pname, cname, lg):
            if cname in GROUP_ONLY:
                continue
            try:
                st, _ = run_case(fp, pname, cname, lg)
            except Exception:
                st = REFUTED
            off["agree" if st == PROVED else "disagree"] += 1
            continue
        n_in += 1
        name = f"typemap.predicts_convert[{pname},{cname or '-'},{logical_name(lg)}]"
        try:
            st, d = run_case(fp, pname, cname, lg)
        except Exception as ex:        # the lemma's own code failed: undecided, never a violation
            st, d = UNKNOWN, {"lemma_error": f"{type(ex).__name__}: {ex}"}
        detail = ("typemap refuses: " + d["typemap_refuses"]) if "typemap_refuses" in d else \
            f"predicted {d.get('predicted')} / read gives {d.get('realised', d.get('read_raises'))}" + (f" - {d['why']}" if "why" in d else "")
        res.add(name, st, d if st == REFUTED else None, time.time() - t0, "executed", detail)
    ctx.vacuity["covers"] += n_in
    ctx.note(f"C17 table lemma: {n_in} combinations of the format's annotation table posed; outside the table (not posed): "
             f"{off['agree']} agree, {off['disagree']} disagree or raise")
    return res


def known_for(name):
    """obligation name -> finding id (region of the finding = these obligation names)"""
    if name == "typemap.predicts_convert[FIXED_LEN_BYTE_ARRAY,INTERVAL,-]":
        return FID_INTERVAL
    return None
