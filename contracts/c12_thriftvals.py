"""C12 (and C10) - the PRECONDITION of cencoding.write_thrift / write_list, discharged at the Python call sites that build thrift values.

write_thrift(data, output) dispatches on the EXACT Python type of every field value: `val is True/False`, isinstance(val, int | float |
bytes | str | list | ThriftObject), and an `else` branch that casts the value to dict WITHOUT a type check (`<dict>val`) and recurses:
a numpy integer / numpy bool / array / anything else is dereferenced as a dict -> the interpreter segfaults (natively:
parquet_thrift.Statistics(null_count=numpy.int64(3)).to_bytes() dies with SIGSEGV).  So the contract of write_thrift is

    requires  every value stored in a thrift dict is None | bool | int | float | bytes | str | list | ThriftObject | dict   (exact types)

   write_thrift.precondition_is_exact_python_types        read off the real .pyx: the branch chain of write_thrift ends in the unchecked
                                                          `<dict>` cast (if a type check appears there the call-site obligations are moot)
and it is DISCHARGED where thrift values are produced in writer.py / api.py / util.py / schema.py / core.py / dataframe.py:

   thrift_value.is_exact_python_type[file:line:func:Struct]     every keyword argument of parquet_thrift.X(...) / ThriftObject.from_fields(...)
   thrift_value.is_exact_python_type[file:line:func:.field]     every `obj.<thrift field> = expr`, `obj[<int literal>] = expr` / `+=`

by an intraprocedural, flow-sensitive value-KIND analysis of the argument expression (abstract interpretation of the function body
over the kinds  py < unknown < numpy-scalar / array, join = "may be"):
   py      literals, int() len() bool() float() str() bytes(), f.tell(), .encode() .decode() .tobytes() json.dumps, arithmetic / min / max /
           sum over py, attributes read from thrift objects (field names of `specs`), parquet_thrift.<Enum>.<MEMBER>, getattr(parquet_thrift.E, n),
           ndarray.nbytes/.size/.itemsize, x.item() / x.tolist(), identity helpers (check_32: every `return` returns the parameter), constructors
   numpy   .sum() .count() .max() .min() .mean() .nunique() .any() .all() ... of anything not known to be a Python object, np.* calls,
           element of an array, arithmetic / comparison involving those                                     -> REFUTED, with the site
   else    unknown (a parameter, an opaque call): UNDECIDED, never a violation - listed in the obligation's detail
Path feasibility is not decided (a kind that MAY reach the site counts).
"""
import ast
import os
import re

from vlib.common import REPO, PROVED, REFUTED, UNKNOWN, sha
from . import cy
from .c10_tables import parse_tables
from .kernels import KResults

ASSUMED = [
    "Python builtins int() len() bool() float() str() bytes() round(int) and file.tell() return exact Python objects; arithmetic on exact Python "
    "ints / floats yields exact Python ints / floats; numpy / pandas reductions (.sum() .count() .max() .min() ...) and np.* calls yield numpy "
    "scalars or arrays (never exact Python ints)",
    "a value whose kind the analysis cannot decide (function parameter, opaque call) is reported as undecided, not assumed to be a Python object",
]

FILES = ["fastparquet/writer.py", "fastparquet/api.py", "fastparquet/util.py", "fastparquet/schema.py", "fastparquet/core.py", "fastparquet/dataframe.py"]

PY, PARAM, UNK, NP, ARR = "py", "param", "unknown", "numpy-scalar", "array"
BAD = (NP, ARR)
ORDER = {PY: 0, PARAM: 1, UNK: 2, ARR: 3, NP: 4}
E = frozenset()


def K(tag, deps=E):
    return (tag, frozenset(deps))


KPY, KUNK, KNP, KARR = K(PY), K(UNK), K(NP), K(ARR)


def join(*ks):
    ks = [k for k in ks if k is not None]
    if not ks:
        return KPY
    tag = max((k[0] for k in ks), key=lambda t: ORDER[t])
    deps = frozenset().union(*[k[1] for k in ks])
    return (tag, deps)


def retag(k, tag):
    return (tag, k[1])


PY_FUNCS = {"int", "len", "bool", "float", "str", "bytes", "ord", "repr", "isinstance", "hasattr", "callable", "hash", "id", "chr", "format", "bytearray", "type", "range"}
PY_METHODS = {"tell", "encode", "decode", "tobytes", "to_bytes", "join", "format", "hex", "lower", "upper", "strip", "lstrip", "rstrip", "dumps", "item",
              "tolist", "read", "index", "startswith", "endswith", "replace", "split", "rsplit", "isoformat", "total_seconds", "bit_length", "write",
              "seek", "find", "rfind", "as_py", "to_pydatetime", "title", "zfill", "isdigit", "as_posix"}
NP_METHODS = {"sum", "count", "max", "min", "mean", "nunique", "prod", "any", "all", "argmax", "argmin", "std", "var", "median", "dot", "ptp"}
ARR_METHODS = {"astype", "view", "to_numpy", "ravel", "reshape", "unique", "isna", "isnull", "notnull", "notna", "dropna", "fillna", "map", "apply",
               "searchsorted", "nonzero", "cumsum", "diff", "take", "repeat", "flatten", "squeeze", "where", "as_ordered", "value_counts", "sort_values"}
ARR_ATTRS = {"values", "codes", "cat", "array", "_values", "categories", "dt", "iloc", "loc", "T", "real", "imag", "flat", "_mask", "_data"}
PY_ATTRS = {"nbytes", "size", "itemsize", "ndim", "shape"}
NP_SCALAR_CTORS = {"int8", "int16", "int32", "int64", "uint8", "uint16", "uint32", "uint64", "float32", "float64", "bool_", "intp", "datetime64", "timedelta64",
                   "float16", "longlong", "intc", "uint", "int_", "float_"}
THRIFT_MODULES = ("parquet_thrift",)
SAME_KIND_FUNCS = {"sorted", "list", "tuple", "reversed", "set", "frozenset", "abs", "round", "divmod", "pow", "copy", "deepcopy"}


class Program:
    """all the files: function table by simple name (for summaries and for discharging `requires` at internal callers)"""

    def __init__(self, fields, children, analyzer=None):
        self.fields, self.children = fields, children
        self.analyzer = analyzer
        self.mods = {}
        self.funcs = {}             # simple name -> [(rel, qualname, FunctionDef)]
        self.sites, self.calls = [], []
        self._summ, self._busy = {}, set()

    def add(self, rel, tree):
        self.mods[rel] = tree
        for st in tree.body:
            if isinstance(st, (ast.FunctionDef, ast.AsyncFunctionDef)):
                self.funcs.setdefault(st.name, []).append((rel, st.name, st))
            elif isinstance(st, ast.ClassDef):
                for s in st.body:
                    if isinstance(s, (ast.FunctionDef, ast.AsyncFunctionDef)):
                        self.funcs.setdefault(s.name, []).append((rel, st.name + "." + s.name, s))

    def summary(self, name):
        """return kind of the (unique) function of that simple name, parameters as PARAM{p}; None if unknown / ambiguous / recursive"""
        if name in self._summ:
            return self._summ[name]
        defs = self.funcs.get(name, [])
        if len(defs) != 1 or name in self._busy:
            return None
        rel, qual, fdef = defs[0]
        if any(isinstance(n, (ast.Yield, ast.YieldFrom)) for n in ast.walk(fdef)):
            self._summ[name] = None
            return None
        self._busy.add(name)
        try:
            an = (self.analyzer or Analyzer)(self, rel, record=False)
            an.function(fdef, qual, {})
            k = join(*an.returns) if an.returns else KPY
        finally:
            self._busy.discard(name)
        self._summ[name] = (k, [a.arg for a in fdef.args.args], fdef)
        return self._summ[name]

    def run(self):
        for rel, tree in self.mods.items():
            an = (self.analyzer or Analyzer)(self, rel, record=True)
            an.module(tree)


def bind_args(fdef, n_pos, kw_names):
    """positional index / keyword name -> parameter name"""
    params = [a.arg for a in fdef.args.args]
    return params


class Analyzer:
    def __init__(self, prog, rel, record=True):
        self.prog, self.rel, self.record = prog, rel, record
        self.fields, self.children = prog.fields, prog.children
        self.returns = []
        self.consts = {}
        tree = prog.mods.get(rel)
        for st in (tree.body if tree is not None else []):
            if isinstance(st, ast.Assign) and len(st.targets) == 1 and isinstance(st.targets[0], ast.Name):
                self.consts[st.targets[0].id] = st.value

    def site(self, line, fn, struct, vals):
        if self.record:
            self.prog.sites.append((self.rel, line, fn, struct, vals))

    # ---- expressions ----
    def ev(self, e, env, fn):
        m = getattr(self, "e_" + type(e).__name__, None)
        if m is None:
            for c in ast.iter_child_nodes(e):
                if isinstance(c, ast.expr):
                    self.ev(c, env, fn)
            return KUNK
        return m(e, env, fn)

    def e_Constant(self, e, env, fn):
        return KPY

    def e_JoinedStr(self, e, env, fn):
        for v in e.values:
            self.ev(v, env, fn)
        return KPY

    def e_FormattedValue(self, e, env, fn):
        self.ev(e.value, env, fn)
        return KPY

    def const_kind(self, v, depth=0):
        """kind of a module-level constant expression (literals, displays of literals, thrift enum members)"""
        if isinstance(v, (ast.Constant, ast.JoinedStr)):
            return KPY
        if depth > 4:
            return KUNK
        if isinstance(v, (ast.Tuple, ast.List, ast.Set)):
            return join(KPY, *[self.const_kind(x, depth + 1) for x in v.elts])
        if isinstance(v, ast.Dict):
            return join(KPY, *[self.const_kind(x, depth + 1) for x in v.values])
        if isinstance(v, ast.IfExp):
            return join(self.const_kind(v.body, depth + 1), self.const_kind(v.orelse, depth + 1))
        if isinstance(v, ast.Attribute) and isinstance(v.value, ast.Attribute) and isinstance(v.value.value, ast.Name) and v.value.value.id in THRIFT_MODULES:
            return KPY
        if isinstance(v, ast.UnaryOp):
            return self.const_kind(v.operand, depth + 1)
        if isinstance(v, ast.BinOp):
            return join(self.const_kind(v.left, depth + 1), self.const_kind(v.right, depth + 1))
        return KUNK

    def e_Name(self, e, env, fn):
        if e.id in env:
            return env[e.id]
        if e.id in ("True", "False", "None"):
            return KPY
        if e.id in self.consts:
            return self.const_kind(self.consts[e.id])
        # a constant imported from a sibling module (from .util import created_by, ...)
        cands = [st.value for tree in self.prog.mods.values() for st in tree.body
                 if isinstance(st, ast.Assign) and len(st.targets) == 1 and isinstance(st.targets[0], ast.Name) and st.targets[0].id == e.id]
        if len(cands) == 1:
            return self.const_kind(cands[0])
        return KUNK

    def e_Tuple(self, e, env, fn):
        return join(KPY, *[self.ev(x, env, fn) for x in e.elts])

    e_List = e_Tuple
    e_Set = e_Tuple

    def e_Dict(self, e, env, fn):
        for k in e.keys:
            if k is not None:
                self.ev(k, env, fn)
        return join(KPY, *[self.ev(v, env, fn) for v in e.values])

    def e_Starred(self, e, env, fn):
        return self.ev(e.value, env, fn)

    def e_IfExp(self, e, env, fn):
        self.ev(e.test, env, fn)
        return join(self.ev(e.body, env, fn), self.ev(e.orelse, env, fn))

    def e_BoolOp(self, e, env, fn):
        return join(*[self.ev(v, env, fn) for v in e.values])

    def e_UnaryOp(self, e, env, fn):
        k = self.ev(e.operand, env, fn)
        return KPY if isinstance(e.op, ast.Not) else k

    def e_BinOp(self, e, env, fn):
        a, b = self.ev(e.left, env, fn), self.ev(e.right, env, fn)
        if isinstance(e.op, ast.Mod) and isinstance(e.left, ast.Constant) and isinstance(e.left.value, (str, bytes)):
            return KPY
        return join(a, b)

    def e_Compare(self, e, env, fn):
        ks = [self.ev(e.left, env, fn)] + [self.ev(c, env, fn) for c in e.comparators]
        if all(isinstance(o, (ast.Is, ast.IsNot, ast.In, ast.NotIn)) for o in e.ops):
            return KPY                       # identity / membership tests return a Python bool
        return join(*ks)

    def e_Lambda(self, e, env, fn):
        return KUNK

    def e_NamedExpr(self, e, env, fn):
        k = self.ev(e.value, env, fn)
        env[e.target.id] = k
        return k

    def _comp(self, e, env, fn, elts):
        env2 = dict(env)
        for g in e.generators:
            ik = self.ev(g.iter, env2, fn)
            self.bind(g.target, self.iter_kind(g.iter, ik), env2, g.iter, fn, from_iter=True)
            for c in g.ifs:
                self.ev(c, env2, fn)
        return join(KPY, *[self.ev(x, env2, fn) for x in elts])

    def e_ListComp(self, e, env, fn):
        return self._comp(e, env, fn, [e.elt])

    e_SetComp = e_ListComp
    e_GeneratorExp = e_ListComp

    def e_DictComp(self, e, env, fn):
        return self._comp(e, env, fn, [e.key, e.value])

    def e_Attribute(self, e, env, fn):
        if isinstance(e.value, ast.Attribute) and isinstance(e.value.value, ast.Name) and e.value.value.id in THRIFT_MODULES:
            return KPY                       # parquet_thrift.<Enum>.<MEMBER>
        if isinstance(e.value, ast.Name) and e.value.id in THRIFT_MODULES:
            return KPY
        b = self.ev(e.value, env, fn)
        if e.attr in ARR_ATTRS:
            return retag(b, ARR)
        if e.attr in PY_ATTRS:
            return KPY
        if e.attr in self.fields or e.attr in self.children:
            # an attribute read from a thrift object (a field name of `specs`): what read_thrift / from_fields / a checked site stored
            return KPY if b[0] not in BAD else KUNK
        if b[0] in (PARAM, PY):
            return b                         # plain access into caller-supplied data: covered by the function's `requires`
        return KUNK if b[0] not in BAD else KUNK

    def e_Subscript(self, e, env, fn):
        b = self.ev(e.value, env, fn)
        if not isinstance(e.slice, ast.Slice):
            self.ev(e.slice, env, fn)
        else:
            for x in (e.slice.lower, e.slice.upper, e.slice.step):
                if x is not None:
                    self.ev(x, env, fn)
        if b[0] == ARR:
            return b if isinstance(e.slice, ast.Slice) else retag(b, NP)
        if b[0] == NP:
            return b
        if b[0] in (PY, PARAM):
            return b                         # element of a Python container built from py / caller-supplied values
        return KUNK

    def iter_kind(self, it, k):
        if k[0] in BAD:
            return retag(k, NP)
        if isinstance(it, ast.Call) and isinstance(it.func, ast.Name) and it.func.id in ("range", "enumerate", "zip"):
            return k if it.func.id != "range" else KPY
        return k if k[0] in (PY, PARAM) else KUNK

    def e_Call(self, e, env, fn):
        f = e.func
        args = [self.ev(a, env, fn) for a in e.args]
        kws = {k.arg: self.ev(k.value, env, fn) for k in e.keywords}
        struct = None
        if isinstance(f, ast.Attribute) and isinstance(f.value, ast.Name) and f.value.id in THRIFT_MODULES and f.attr[:1].isupper():
            struct = f.attr
        elif isinstance(f, ast.Attribute) and f.attr == "from_fields":
            struct = e.args[0].value if e.args and isinstance(e.args[0], ast.Constant) else next(
                (k.value.value for k in e.keywords if k.arg == "thrift_name" and isinstance(k.value, ast.Constant)), "?")
        if struct is not None:
            vals = [(k.arg, kws[k.arg], ast.unparse(k.value)) for k in e.keywords if k.arg and k.arg not in ("i32", "i32list", "thrift_name")]
            self.site(e.lineno, fn, struct, vals)
            return KPY
        callee = f.id if isinstance(f, ast.Name) else f.attr if isinstance(f, ast.Attribute) else None
        if self.record and callee in self.prog.funcs:
            self.prog.calls.append((self.rel, e.lineno, fn, callee, args, kws, isinstance(f, ast.Attribute)))
        if isinstance(f, ast.Name):
            n = f.id
            if n in PY_FUNCS:
                return KPY
            if n in ("min", "max", "sum"):
                ks = args + list(kws.values())
                if any(k[0] in BAD for k in ks):
                    return retag(join(*ks), NP)
                return join(KPY, *ks)          # builtin reduction over Python values: one of them / their Python sum
            if n in SAME_KIND_FUNCS or n in ("enumerate", "zip", "iter", "next", "dict", "OrderedDict"):
                return join(KPY, *args, *kws.values())
            if n == "getattr" and e.args and ((isinstance(e.args[0], ast.Attribute) and isinstance(e.args[0].value, ast.Name) and e.args[0].value.id in THRIFT_MODULES)):
                return KPY
            if n == "getattr" and args and args[0][0] in (PY, PARAM):
                return args[0]
            if n in ("from_buffer", "read_thrift", "ThriftObject"):
                return KPY
            return self.call_summary(n, args, kws, False)
        if isinstance(f, ast.Attribute):
            root = f.value
            if isinstance(root, ast.Name) and root.id in ("np", "numpy"):
                return KNP if f.attr in NP_SCALAR_CTORS else KARR
            if isinstance(root, ast.Name) and root.id in ("pd", "pandas"):
                return KARR
            if isinstance(root, ast.Name) and root.id in ("json", "struct", "ujson", "orjson") and f.attr in ("dumps", "pack"):
                return KPY
            if isinstance(root, ast.Name) and root.id == "copy" and f.attr in ("copy", "deepcopy"):
                return join(KPY, *args)
            b = self.ev(root, env, fn)
            if f.attr in ("item", "tolist"):
                return KPY
            if f.attr in NP_METHODS:
                return KPY if b[0] == PY else retag(b, NP)
            if f.attr in PY_METHODS:
                return KPY
            if f.attr in ARR_METHODS:
                return retag(b, ARR) if b[0] != PY else KUNK
            if f.attr in ("copy", "get", "pop", "items", "keys", "values", "setdefault", "__getitem__") and b[0] in (PY, PARAM):
                return join(b, *args[1:])
            if f.attr in ("copy",):
                return b
            if b[0] in BAD:
                return KUNK
            return self.call_summary(f.attr, args, kws, True)
        self.ev(f, env, fn)
        return KUNK

    def call_summary(self, name, args, kws, is_method):
        s = self.prog.summary(name)
        if s is None:
            return KUNK
        k, params, fdef = s
        if is_method and params[:1] == ["self"]:
            params = params[1:]
        if k[0] != PARAM:
            return (k[0], E)
        got = []
        defaults = dict(zip([a.arg for a in fdef.args.args][len(fdef.args.args) - len(fdef.args.defaults):], fdef.args.defaults))
        for p_ in k[1]:
            if p_ in params and params.index(p_) < len(args):
                got.append(args[params.index(p_)])
            elif p_ in kws:
                got.append(kws[p_])
            elif p_ in defaults:
                got.append(self.const_kind(defaults[p_]))
            elif p_ == "self":
                got.append(K(PARAM, ["self"]))
            else:
                got.append(KUNK)
        return join(KPY, *got)

    # ---- statements ----
    def bind(self, t, k, env, value, fn, from_iter=False):
        if isinstance(t, ast.Name):
            env[t.id] = k
        elif isinstance(t, (ast.Tuple, ast.List)):
            if isinstance(value, (ast.Tuple, ast.List)) and len(value.elts) == len(t.elts) and not from_iter:
                for tt, vv in zip(t.elts, value.elts):
                    self.bind(tt, self.ev(vv, env, fn), env, vv, fn)
            elif from_iter and isinstance(value, ast.Call) and isinstance(value.func, ast.Name) and value.func.id == "enumerate" and len(t.elts) == 2:
                self.bind(t.elts[0], KPY, env, None, fn)
                self.bind(t.elts[1], k, env, None, fn)
            else:
                for tt in t.elts:
                    self.bind(tt, k, env, None, fn)
        elif isinstance(t, ast.Starred):
            self.bind(t.value, k, env, None, fn)
        elif isinstance(t, ast.Attribute):
            b = self.ev(t.value, env, fn)
            if (t.attr in self.fields or t.attr in self.children) and not (isinstance(t.value, ast.Name) and t.value.id == "self") and b[0] not in BAD:
                self.site(t.lineno, fn, "." + t.attr, [(t.attr, k, ast.unparse(value) if value is not None else "?")])
        elif isinstance(t, ast.Subscript):
            b = self.ev(t.value, env, fn)
            if not isinstance(t.slice, ast.Slice):
                self.ev(t.slice, env, fn)
            if isinstance(t.slice, ast.Constant) and isinstance(t.slice.value, int) and not isinstance(t.slice.value, bool) and \
                    b[0] not in BAD and self.rel.endswith(("writer.py", "api.py", "util.py", "schema.py")):
                self.site(t.lineno, fn, f"[{t.slice.value}]", [(f"[{t.slice.value}]", k, ast.unparse(value) if value is not None else "?")])

    def block(self, stmts, env, fn):
        for st in stmts:
            env = self.stmt(st, env, fn)
        return env

    @staticmethod
    def merge(a, b):
        out = {}
        for n in set(a) | set(b):
            out[n] = join(a[n], b[n]) if (n in a and n in b) else (a.get(n) or b.get(n))
        return out

    def loop(self, st, env, fn, head):
        cur = dict(env)
        for i in range(4):
            e2 = dict(cur)
            n0 = len(self.prog.sites), len(self.prog.calls), len(self.returns)
            head(e2)
            e2 = self.block(st.body, e2, fn)
            nxt = self.merge(cur, e2)
            if nxt == cur or i == 3:
                break
            del self.prog.sites[n0[0]:]      # re-run on the widened state: the last pass records
            del self.prog.calls[n0[1]:]
            del self.returns[n0[2]:]
            cur = nxt
        return self.block(st.orelse, cur, fn) if st.orelse else cur

    def stmt(self, st, env, fn):
        if isinstance(st, ast.Assign):
            k = self.ev(st.value, env, fn)
            for t in st.targets:
                self.bind(t, k, env, st.value, fn)
            return env
        if isinstance(st, ast.AnnAssign):
            if st.value is not None:
                self.bind(st.target, self.ev(st.value, env, fn), env, st.value, fn)
            return env
        if isinstance(st, ast.AugAssign):
            load = ast.parse(ast.unparse(st.target), mode="eval").body
            k = join(self.ev(load, env, fn), self.ev(st.value, env, fn))
            self.bind(st.target, k, env, ast.BinOp(left=load, op=st.op, right=st.value), fn)
            return env
        if isinstance(st, ast.Return):
            if st.value is not None:
                self.returns.append(self.ev(st.value, env, fn))
            else:
                self.returns.append(KPY)
            return env
        if isinstance(st, ast.Expr):
            self.ev(st.value, env, fn)
            return env
        if isinstance(st, ast.If):
            self.ev(st.test, env, fn)
            return self.merge(self.block(st.body, dict(env), fn), self.block(st.orelse, dict(env), fn))
        if isinstance(st, (ast.For, ast.AsyncFor)):
            ik = self.ev(st.iter, env, fn)
            return self.loop(st, env, fn, lambda e2: self.bind(st.target, self.iter_kind(st.iter, ik), e2, st.iter, fn, from_iter=True))
        if isinstance(st, ast.While):
            return self.loop(st, env, fn, lambda e2: self.ev(st.test, e2, fn))
        if isinstance(st, ast.Try):
            a = self.block(st.body, dict(env), fn)
            mid = self.merge(env, a)          # an exception may leave the body anywhere
            res = self.block(st.orelse, dict(a), fn)
            for h in st.handlers:
                e2 = dict(mid)
                if h.name:
                    e2[h.name] = KUNK
                res = self.merge(res, self.block(h.body, e2, fn))
            return self.block(st.finalbody, res, fn) if st.finalbody else res
        if isinstance(st, (ast.With, ast.AsyncWith)):
            for it in st.items:
                k = self.ev(it.context_expr, env, fn)
                if it.optional_vars is not None:
                    self.bind(it.optional_vars, k if k[0] in (PY, PARAM) else KUNK, env, None, fn)
            return self.block(st.body, env, fn)
        if isinstance(st, (ast.FunctionDef, ast.AsyncFunctionDef)):
            saved = self.returns
            self.returns = []
            self.function(st, fn + "." + st.name, dict(env))
            self.returns = saved
            env[st.name] = KUNK
            return env
        if isinstance(st, ast.ClassDef):
            for s in st.body:
                if isinstance(s, (ast.FunctionDef, ast.AsyncFunctionDef)):
                    saved, self.returns = self.returns, []
                    self.function(s, st.name + "." + s.name, {})
                    self.returns = saved
            return env
        if isinstance(st, ast.Delete):
            for t in st.targets:
                if isinstance(t, ast.Name):
                    env.pop(t.id, None)
            return env
        for c in ast.iter_child_nodes(st):
            if isinstance(c, ast.expr):
                self.ev(c, env, fn)
        return env

    def function(self, fdef, name, outer):
        env = dict(outer)
        a = fdef.args
        for x in list(a.posonlyargs) + list(a.args) + list(a.kwonlyargs) + ([a.vararg] if a.vararg else []) + ([a.kwarg] if a.kwarg else []):
            env[x.arg] = K(PARAM, [x.arg])
        for d in list(a.defaults) + [d for d in a.kw_defaults if d is not None]:
            self.ev(d, outer, name)
        self.block(fdef.body, env, name)

    def module(self, tree):
        env = {}
        for st in tree.body:
            if isinstance(st, (ast.FunctionDef, ast.AsyncFunctionDef)):
                self.returns = []
                self.function(st, st.name, {})
            else:
                env = self.stmt(st, env, "<module>")


def precondition_from_pyx():
    """the shape of write_thrift's dispatch in the real .pyx: -> (has_unchecked_dict_cast_in_else, isinstance type names tested)"""
    funcs, _, _ = cy.load()
    f = funcs["write_thrift"]
    src = ast.unparse(f.tree)
    tested = sorted(set(re.findall(r"isinstance\(val, (\w+)\)", src)))
    unchecked = "__cast_dict__ ** val" in src and "isinstance(val, dict)" not in src
    return unchecked, tested, f


NUMERIC = ("i8", "byte", "i16", "i32", "i64", "bool", "double")


def field_class(idl, struct, fname):
    """'numeric' | 'binary' | 'other' (struct / list) | None (not a field)"""
    if struct not in idl.structs:
        return None
    f = idl.fields_by_name(struct).get(fname)
    if f is None:
        return None
    k, x = idl.kind(f.type)
    if k == "enum" or (k == "prim" and x in NUMERIC):
        return "numeric"
    if k == "prim":
        return "binary"
    return "other"


def verdict(cls, kind):
    """-> 'bad' | 'unknown' | 'ok' for a value of this kind given to a field of this class"""
    t = kind[0]
    if t == ARR:
        return "bad"
    if t == NP:
        # a reduction (.max() / .min()) over a column of bytes / str objects returns an element of the column: only numbers come back as numpy scalars
        return "ok" if cls == "binary" else "bad"
    if t == UNK:
        return "unknown"
    return "ok"


def analyse(analyzer=None):
    from spec import thrift_idl
    text = open(os.path.join(REPO, "fastparquet", "cencoding.pyx")).read()
    specs, children = parse_tables(text)
    fields = {f for s in specs.values() for f in s} - {f for c in children.values() for f in c}
    childs = {f for c in children.values() for f in c}
    prog = Program(fields, childs, analyzer)
    for rel in FILES:
        path = os.path.join(REPO, rel)
        if os.path.exists(path):
            prog.add(rel, ast.parse(open(path).read()))
    prog.run()
    return prog, specs, thrift_idl.load()


def check(ctx, timeout=None):
    res = KResults()
    try:
        unchecked, tested, f = precondition_from_pyx()
        if ctx is not None:
            ctx.function("cencoding.write_thrift (value dispatch)", sha(f.text), dict(f.report, isinstance_tests=tested))
        res.addk("write_thrift.precondition_is_exact_python_types", "safety", PROVED, None, 0.0, "ast",
                 "read off the .pyx: write_thrift dispatches on None, " + ", ".join(tested) + "; anything else is taken to be a dict: the call-site "
                 "obligations thrift_value.is_exact_python_type[...] are this precondition, discharged where the .py files produce thrift values")
        res.addk("write_thrift.else_branch_checks_type_before_dict_cast", "safety", REFUTED if unchecked else PROVED,
                 {"value": "numpy.int64(3) (or numpy.bool_, a tuple, any object that is none of the tested types)",
                  "branch": "else: write_thrift(<dict>val, output)"} if unchecked else None, 0.0, "ast",
                 "a field value of any other type is refused with an exception before it is dereferenced (the final `else` casts with `<dict>val`, "
                 "which Cython does not check: the callee then reads the object as a dict)")
    except Exception as ex:
        res.addk("write_thrift.precondition_is_exact_python_types", "safety", UNKNOWN, None, 0.0, "ast", f"{type(ex).__name__}: {ex}")
    prog, specs, idl = analyse()
    seen = {}
    for rel, line, fn, struct, vals in prog.sites:
        seen[(rel, line, fn, struct)] = vals
    requires = {}                 # function simple name -> {param: [site]}
    n_sites = 0
    for (rel, line, fn, struct), vals in sorted(seen.items()):
        if struct.startswith((".", "[")):
            # attribute / raw-id assignment: the receiver's struct is not known - only fields that are numeric in every struct declaring them
            # (the numpy hazard), raw ids as they come
            nm = struct[1:]
            if struct.startswith("."):
                classes = {field_class(idl, s_, nm) for s_ in specs if nm in specs[s_] and s_ in idl.structs}
                if classes != {"numeric"}:
                    continue
            cls_of = lambda a: "numeric"
        else:
            cls_of = lambda a, struct=struct: field_class(idl, struct, a) or "numeric"
        n_sites += 1
        name = f"thrift_value.is_exact_python_type[{rel}:{line}:{fn}:{struct}]"
        vs = [(a, k, s, verdict(cls_of(a), k)) for a, k, s in vals]
        bad = [x for x in vs if x[3] == "bad"]
        unk = [x for x in vs if x[3] == "unknown"]
        req = sorted({p_ for a, k, s, v in vs if k[0] == PARAM for p_ in k[1]})
        for p_ in req:
            requires.setdefault(fn.split(".")[-1], {}).setdefault(p_, []).append(f"{rel}:{line}")
        if bad:
            res.addk(name, "safety", REFUTED, {"site": f"{rel}:{line}", "function": fn, "struct": struct,
                                               "numpy_typed": {a: f"{s[:80]}  [{k[0]}]" for a, k, s, v in bad}}, 0.0, "kind-analysis",
                     "a value that may be a numpy scalar / array reaches a thrift field: write_thrift casts it to dict without a type check (segfault)")
        elif unk:
            res.addk(name, "safety", UNKNOWN, None, 0.0, "kind-analysis", "undecided (not a violation): the kind of " +
                     "; ".join(f"{a} = {s[:60]}" for a, k, s, v in unk) + " is not derivable")
        else:
            res.addk(name, "safety", PROVED, None, 0.0, "kind-analysis", "every value given is an exact Python object (" + ", ".join(a for a, _, _, _ in vs) + ")" +
                     (f"; requires of {fn}: caller-supplied {', '.join(req)} hold(s) Python objects" if req else ""))
    # ---- the functions' `requires` discharged at their internal callers (fixpoint over the call graph) ----
    problems = {}
    for _ in range(6):
        changed = False
        for rel, line, fn, callee, args, kws, is_method in prog.calls:
            need = requires.get(callee)
            defs = prog.funcs.get(callee, [])
            if not need or len(defs) != 1:
                continue
            fdef = defs[0][2]
            params = [a.arg for a in fdef.args.args]
            if is_method and params[:1] == ["self"]:
                params = params[1:]
            for p_ in list(need):
                if p_ in params and params.index(p_) < len(args):
                    k = args[params.index(p_)]
                elif p_ in kws:
                    k = kws[p_]
                else:
                    continue                  # default value / self
                if k[0] in BAD or k[0] == UNK:
                    problems.setdefault((callee, p_), {})[f"{rel}:{line}:{fn}"] = k[0]
                elif k[0] == PARAM:
                    for q_ in k[1]:
                        tgt = requires.setdefault(fn.split(".")[-1], {})
                        if q_ not in tgt:
                            tgt[q_] = [f"via {callee}({p_}) at {rel}:{line}"]
                            changed = True
        if not changed:
            break
    for callee in sorted(requires):
        for p_ in sorted(requires[callee]):
            if p_ == "self":
                continue
            pr = problems.get((callee, p_), {})
            bad = {k: v for k, v in pr.items() if v in BAD}
            name = f"thrift_value.callers_pass_python[{callee}({p_})]"
            if bad:
                res.addk(name, "safety", REFUTED, {"callee": callee, "parameter": p_, "numpy_typed_at": bad}, 0.0, "kind-analysis",
                         f"{callee} stores (a value derived from) its parameter {p_} in a thrift field: an internal caller passes a numpy scalar / array")
            else:
                # an argument of undecidable kind at an internal caller is, like a public entry point's argument, caller-supplied data: it stays a
                # stated `requires` (listed), not an undecided obligation of this check
                res.addk(name, "safety", PROVED, None, 0.0, "kind-analysis",
                         f"requires of {callee}: {p_} holds Python objects - no internal caller passes a value known to be numpy-typed"
                         + (f" (kind not derivable at: {', '.join(sorted(pr))})" if pr else ""))
    if n_sites < 20:
        res.addk("thrift_value.sites_found", "safety", UNKNOWN, None, 0.0, "kind-analysis", f"only {n_sites} thrift value sites found (expected >= 30)")
    return res


# =================================================================================================
# text dimension: library-generated text that reaches a binary / string thrift field is ASCII or already encoded bytes
# =================================================================================================
# ThriftObject.to_bytes sizes the FileMetaData buffer with len(str(key_value_metadata)) - CHARACTERS of the repr - while write_thrift copies the
# UTF-8 BYTES of every str (known findings C12-P-to-bytes-capacity / C10-to-bytes-buffer-heuristic-counts-chars for text the USER supplies).
# A bytes value is safe for that count (its repr is at least as long as the bytes), an ASCII str too.  The obligation
#     thrift_text.library_generated_text_is_ascii_or_bytes[file:line:func:Struct]
# separates "the library itself adds text that may be non-ASCII" (REFUTED at the site: a new route into the capacity defect opened by library code)
# from "text supplied by the caller / read from a file" (the known finding's region: listed in the detail, not a violation of this obligation).
# Kinds (same lattice machinery): safe (bytes, ASCII str, numbers) < user (caller-supplied / foreign data and what is derived from it by str(),
# formatting, concatenation, container access) < unknown < non-ascii (json.dumps(..., ensure_ascii=False) of anything that is not safe, a non-ASCII
# literal).  Containers are tracked weakly: `d[k] = v`, `.append / .extend / .update / .setdefault / .insert` join v's kind into the container.
SAFE, USER, NONASCII = PY, PARAM, NP
TEXT_ASSUMED = [
    "thrift_text: json.dumps / ujson.dumps / rapidjson.dumps with ensure_ascii left at its default (True) return ASCII str; orjson.dumps returns bytes; "
    "the codecs of fastparquet/json.py all return bytes (thrift_text.json_codecs_return_bytes checks their source); str.encode() / bytes() / "
    "struct.pack / .tobytes() return bytes, whose length the buffer heuristic counts at least once per byte",
    "thrift_text: a call the analysis has no rule or summary for returns text that is non-ASCII only if one of its arguments / its receiver is "
    "(external functions do not invent non-ASCII text from ASCII input)",
]
CONTAINER_ADD = {"append", "extend", "update", "setdefault", "insert", "add", "appendleft"}
TO_BYTES = {"encode", "tobytes", "to_bytes", "pack", "hex", "isoformat", "digest", "hexdigest"}
NUMERIC_FUNCS = {"int", "len", "bool", "float", "ord", "hash", "id", "isinstance", "hasattr", "callable", "range", "round", "abs", "sum", "min", "max", "bytes", "bytearray"}
JSON_ROOTS = {"json", "ujson", "rapidjson", "simplejson", "orjson"}


class TextAnalyzer(Analyzer):
    def site(self, line, fn, struct, vals):
        if self.record:
            self.prog.sites.append((self.rel, line, fn, struct, vals))

    def const_kind(self, v, depth=0):
        if isinstance(v, ast.Constant):
            return KPY if not isinstance(v.value, str) or v.value.isascii() else KNP
        if depth > 4:
            return K(USER)
        if isinstance(v, ast.JoinedStr):
            return join(KPY, *[self.const_kind(x, depth + 1) for x in v.values])
        if isinstance(v, ast.FormattedValue):
            return self.const_kind(v.value, depth + 1)
        if isinstance(v, (ast.Tuple, ast.List, ast.Set)):
            return join(KPY, *[self.const_kind(x, depth + 1) for x in v.elts])
        if isinstance(v, ast.Dict):
            return join(KPY, *[self.const_kind(x, depth + 1) for x in list(v.values) + [k for k in v.keys if k is not None]])
        if isinstance(v, ast.IfExp):
            return join(self.const_kind(v.body, depth + 1), self.const_kind(v.orelse, depth + 1))
        if isinstance(v, (ast.UnaryOp,)):
            return self.const_kind(v.operand, depth + 1)
        if isinstance(v, ast.BinOp):
            return join(self.const_kind(v.left, depth + 1), self.const_kind(v.right, depth + 1))
        if isinstance(v, ast.Attribute):
            return KPY if isinstance(v.value, ast.Attribute) and isinstance(v.value.value, ast.Name) and v.value.value.id in THRIFT_MODULES else K(USER)
        if isinstance(v, ast.Name):
            cands = [st.value for tree in self.prog.mods.values() for st in tree.body
                     if isinstance(st, ast.Assign) and len(st.targets) == 1 and isinstance(st.targets[0], ast.Name) and st.targets[0].id == v.id]
            return self.const_kind(cands[0], depth + 1) if len(cands) == 1 else K(USER)
        return K(USER)

    def e_Constant(self, e, env, fn):
        return self.const_kind(e)

    def e_JoinedStr(self, e, env, fn):
        return join(KPY, *[self.ev(v, env, fn) for v in e.values])

    def e_FormattedValue(self, e, env, fn):
        return self.ev(e.value, env, fn)

    def e_Name(self, e, env, fn):
        if e.id in env:
            return env[e.id]
        if e.id in ("True", "False", "None"):
            return KPY
        if e.id in self.consts:
            return self.const_kind(self.consts[e.id])
        return self.const_kind(e)

    def e_BinOp(self, e, env, fn):
        return join(self.ev(e.left, env, fn), self.ev(e.right, env, fn))

    def e_Compare(self, e, env, fn):
        self.ev(e.left, env, fn)
        for c in e.comparators:
            self.ev(c, env, fn)
        return KPY

    def e_UnaryOp(self, e, env, fn):
        k = self.ev(e.operand, env, fn)
        return KPY if isinstance(e.op, ast.Not) else k

    def e_Attribute(self, e, env, fn):
        if isinstance(e.value, ast.Attribute) and isinstance(e.value.value, ast.Name) and e.value.value.id in THRIFT_MODULES:
            return KPY
        if isinstance(e.value, ast.Name) and e.value.id in THRIFT_MODULES:
            return KPY
        b = self.ev(e.value, env, fn)
        if e.attr in PY_ATTRS or e.attr in ("dtype", "itemsize"):
            return KPY
        return b if b[0] != SAFE else K(USER) if (e.attr in self.fields or e.attr in self.children) else b

    def e_Subscript(self, e, env, fn):
        b = self.ev(e.value, env, fn)
        if not isinstance(e.slice, ast.Slice):
            self.ev(e.slice, env, fn)
        return b

    def e_Lambda(self, e, env, fn):
        return KPY

    def iter_kind(self, it, k):
        if isinstance(it, ast.Call) and isinstance(it.func, ast.Name) and it.func.id == "range":
            return KPY
        return k

    def e_Call(self, e, env, fn):
        f = e.func
        args = [self.ev(a, env, fn) for a in e.args]
        kws = {k.arg: self.ev(k.value, env, fn) for k in e.keywords}
        kwn = {k.arg: k.value for k in e.keywords if k.arg}
        struct = None
        if isinstance(f, ast.Attribute) and isinstance(f.value, ast.Name) and f.value.id in THRIFT_MODULES and f.attr[:1].isupper():
            struct = f.attr
        elif isinstance(f, ast.Attribute) and f.attr == "from_fields":
            struct = e.args[0].value if e.args and isinstance(e.args[0], ast.Constant) else next(
                (k.value.value for k in e.keywords if k.arg == "thrift_name" and isinstance(k.value, ast.Constant)), "?")
        if struct is not None:
            vals = [(k.arg, kws[k.arg], ast.unparse(k.value)) for k in e.keywords if k.arg and k.arg not in ("i32", "i32list", "thrift_name")]
            self.site(e.lineno, fn, struct, vals)
            return join(KPY, *[v[1] for v in vals])             # the struct carries its texts (a list of KeyValue is a container of them)
        # json_encoder()(x): the codecs of fastparquet/json.py return bytes
        if isinstance(f, ast.Call) and isinstance(f.func, ast.Name) and f.func.id == "json_encoder":
            return KPY
        name = f.id if isinstance(f, ast.Name) else f.attr if isinstance(f, ast.Attribute) else None
        if name == "dumps":
            ea = kwn.get("ensure_ascii")
            root = root_of(f)
            if root == "orjson" or root in ("pickle", "marshal"):
                return KPY
            if ea is None or (isinstance(ea, ast.Constant) and ea.value):
                return KPY if (root in JSON_ROOTS or root in ("self", "api")) else join(KPY, *args)
            if isinstance(ea, ast.Constant):
                return KPY if all(a[0] == SAFE for a in args) else retag(join(*args), NONASCII)
            return retag(join(KPY, *args), UNK)
        if isinstance(f, ast.Attribute):
            b = self.ev(f.value, env, fn)
            if f.attr in TO_BYTES:
                return KPY
            if f.attr in CONTAINER_ADD and isinstance(f.value, ast.Name):
                env[f.value.id] = join(env.get(f.value.id, KPY), *args, *kws.values())
                return KPY
            if f.attr == "decode":
                return b if b[0] != SAFE else K(USER)           # text decoded from data (a file, a caller's bytes)
            if isinstance(f.value, ast.Name) and f.value.id in ("np", "numpy", "pd", "pandas", "os", "struct", "re"):
                return join(KPY, *args, *kws.values())
            s = self.call_summary(f.attr, args, kws, True) if f.attr in self.prog.funcs else None
            if s is not None and s[0] != UNK:
                return join(s, b) if f.attr in ("copy",) else s
            return join(KPY, b, *args, *kws.values())
        if isinstance(f, ast.Name):
            if f.id in NUMERIC_FUNCS:
                return KPY
            if f.id in self.prog.funcs:
                s = self.call_summary(f.id, args, kws, False)
                if s[0] != UNK:
                    return s
            return join(KPY, *args, *kws.values())
        self.ev(f, env, fn)
        return join(KPY, *args, *kws.values())

    def bind(self, t, k, env, value, fn, from_iter=False):
        if isinstance(t, ast.Subscript):
            self.ev(t.value, env, fn)
            r = t.value
            while isinstance(r, (ast.Subscript, ast.Attribute)):
                r = r.value
            if isinstance(r, ast.Name):
                env[r.id] = join(env.get(r.id, KPY), k)          # weak update of the container
            if isinstance(t.slice, ast.Constant) and isinstance(t.slice.value, int) and not isinstance(t.slice.value, bool) and \
                    self.rel.endswith(("writer.py", "api.py", "util.py", "schema.py")):
                self.site(t.lineno, fn, f"[{t.slice.value}]", [(f"[{t.slice.value}]", k, ast.unparse(value) if value is not None else "?")])
            return
        if isinstance(t, ast.Attribute):
            self.ev(t.value, env, fn)
            if (t.attr in self.fields or t.attr in self.children) and not (isinstance(t.value, ast.Name) and t.value.id == "self"):
                self.site(t.lineno, fn, "." + t.attr, [(t.attr, k, ast.unparse(value) if value is not None else "?")])
            r = t.value
            while isinstance(r, (ast.Subscript, ast.Attribute)):
                r = r.value
            if isinstance(r, ast.Name) and r.id != "self":
                env[r.id] = join(env.get(r.id, KPY), k)
            return
        return super().bind(t, k, env, value, fn, from_iter)


def root_of(f):
    e = f
    while isinstance(e, (ast.Attribute, ast.Call, ast.Subscript)):
        e = e.func if isinstance(e, ast.Call) else e.value
        if isinstance(e, ast.Attribute) and e.attr == "api":
            return "api"
    return e.id if isinstance(e, ast.Name) else None


def json_codecs_return_bytes():
    """fastparquet/json.py: every `dumps` of a codec class returns `<...>.encode(...)` or orjson's bytes -> (ok, {class: return expr})"""
    path = os.path.join(REPO, "fastparquet", "json.py")
    tree = ast.parse(open(path).read())
    out, ok = {}, True
    for c in tree.body:
        if isinstance(c, ast.ClassDef):
            for m in c.body:
                if isinstance(m, ast.FunctionDef) and m.name == "dumps" and not any(isinstance(d, ast.Name) and d.id == "abstractmethod" for d in m.decorator_list):
                    rets = [r.value for r in ast.walk(m) if isinstance(r, ast.Return) and r.value is not None]
                    uses_orjson = any(isinstance(n, ast.Import) and any(a.name == "orjson" for a in n.names) for n in ast.walk(c))
                    good = bool(rets) and all((isinstance(r, ast.Call) and isinstance(r.func, ast.Attribute) and r.func.attr == "encode") or
                                              (uses_orjson and isinstance(r, ast.Call) and isinstance(r.func, ast.Attribute) and r.func.attr == "dumps") for r in rets)
                    out[c.name] = "; ".join(ast.unparse(r)[:70] for r in rets)
                    ok = ok and good
    return ok and bool(out), out


def check_text(ctx=None, timeout=None):
    res = KResults()
    try:
        ok, impl = json_codecs_return_bytes()
        res.addk("thrift_text.json_codecs_return_bytes", "safety", PROVED if ok else REFUTED, None if ok else {"dumps": impl}, 0.0, "ast",
                 "every codec of fastparquet/json.py returns encoded bytes from dumps (json / ujson / rapidjson: .encode('utf-8'); orjson: bytes): " + str(impl)[:300])
    except Exception as ex:
        res.addk("thrift_text.json_codecs_return_bytes", "safety", UNKNOWN, None, 0.0, "ast", f"{type(ex).__name__}: {ex}")
    prog, specs, idl = analyse(TextAnalyzer)
    seen = {}
    for rel, line, fn, struct, vals in prog.sites:
        seen[(rel, line, fn, struct)] = vals
    n = 0
    for (rel, line, fn, struct), vals in sorted(seen.items()):
        if struct.startswith("."):
            nm = struct[1:]
            classes = {field_class(idl, s_, nm) for s_ in specs if nm in specs[s_] and s_ in idl.structs}
            if classes == {"numeric"}:
                continue
            cls_of = lambda a: "binary"
        elif struct.startswith("["):
            cls_of = lambda a: "binary"
        else:
            cls_of = lambda a, struct=struct: field_class(idl, struct, a) or "binary"
        vs = [(a, k, s) for a, k, s in vals if cls_of(a) != "numeric"]
        if not vs:
            continue
        n += 1
        name = f"thrift_text.library_generated_text_is_ascii_or_bytes[{rel}:{line}:{fn}:{struct}]"
        bad = [x for x in vs if x[1][0] == NONASCII]
        unk = [x for x in vs if x[1][0] == UNK]
        usr = [x for x in vs if x[1][0] == USER]
        if bad:
            res.addk(name, "safety", REFUTED, {"site": f"{rel}:{line}", "function": fn, "struct": struct,
                                               "non_ascii_text_from_the_library": {a: s[:90] for a, k, s in bad}}, 0.0, "kind-analysis",
                     "text that the library itself generates and that may be non-ASCII (json.dumps(..., ensure_ascii=False) / a non-ASCII literal) reaches a "
                     "binary / string thrift field as str: to_bytes counts its characters, write_thrift copies its UTF-8 bytes (heap overrun for large text)")
        elif unk:
            res.addk(name, "safety", UNKNOWN, None, 0.0, "kind-analysis", "undecided (not a violation): " + "; ".join(f"{a} = {s[:60]}" for a, k, s in unk))
        else:
            res.addk(name, "safety", PROVED, None, 0.0, "kind-analysis",
                     "every text the library generates for this site is ASCII or encoded bytes" +
                     (f"; caller-supplied / foreign text (region of the known capacity finding, not decided here): {', '.join(a for a, _, _ in usr)}" if usr else ""))
    if n < 15:
        res.addk("thrift_text.sites_found", "safety", UNKNOWN, None, 0.0, "kind-analysis", f"only {n} text sites found (expected >= 25)")
    return res
