"""C12 (and C10) - the PRECONDITION of cencoding.write_thrift / write_list, discharged at the Python call sites that build thrift values.

write_thrift(data, output) dispatches on the EXACT Python type of every field value: `val is True/False`, isinstance(val, int | float |
bytes | str | list | ThriftObject), and an `else` branch that casts the value to dict WITHOUT a type check (`<dict>val`) and recurses:
a numpy integer / numpy bool / array / anything else is dereferenced as a dict -> the interpreter segfaults (natively:
parquet_thrift.Statistics(null_count=numpy.int64(3)).to_bytes() dies with SIGSEGV).  So the contract of write_thrift is

    requires  every value stored in a thrift dict is None | bool | int | float | bytes | str | list | ThriftObject | dict   (exact types)

   write_thrift.precondition_is_exact_python_types        read off the real .pyx: the branch chain of write_thrift ends in the unchecked
                                                          `<dict>` cast (if a type check appears there the call-site obligations are moot)
and it is DISCHARGED where thrift values are produced in writer.py / api.py / util.py / schema.py / core.py / dataframe.py:

   thrift_value.is_exact_python_type[file:line:func:Struct]     every keyword argument of parquet_thrift.X(...) / ThriftObject.from_fields(...)
   thrift_value.is_exact_python_type[file:line:func:.field]     every `obj.<thrift field> = expr`, `obj[<int literal>] = expr` / `+=`

by an intraprocedural, flow-sensitive value-KIND analysis of the argument expression (abstract interpretation of the function body
over the kinds  py < unknown < numpy-scalar / array, join = "may be"):
   py      literals, int() len() bool() float() str() bytes(), f.tell(), .encode() .decode() .tobytes() json.dumps, arithmetic / min / max /
           sum over py, attributes read from thrift objects (field names of `specs`), parquet_thrift.<Enum>.<MEMBER>, getattr(parquet_thrift.E, n),
           ndarray.nbytes/.size/.itemsize, x.item() / x.tolist(), identity helpers (check_32: every `return` returns the parameter), constructors
   numpy   .sum() .count() .max() .min() .mean() .nunique() .any() .all() ... of anything not known to be a Python object, np.* calls,
           element of an array, arithmetic / comparison involving those                                     -> REFUTED, with the site
   else    unknown (a parameter, an opaque call): UNDECIDED, never a violation - listed in the obligation's detail
Path feasibility is not decided (a kind that MAY reach the site counts).
"""
import ast
import os
import re

from vlib.common import REPO, PROVED, REFUTED, UNKNOWN, sha
from . import cy
from .c10_tables import parse_tables
from .kernels import KResults

ASSUMED = [
    "Python builtins int() len() bool() float() str() bytes() round(int) and file.tell() return exact Python objects; arithmetic on exact Python "
    "ints / floats yields exact Python ints / floats; numpy / pandas reductions (.sum() .count() .max() .min() ...) and np.* calls yield numpy "
    "scalars or arrays (never exact Python ints)",
    "a value whose kind the analysis cannot decide (function parameter, opaque call) is reported as undecided, not assumed to be a Python object",
]

FILES = ["fastparquet/writer.py", "fastparquet/api.py", "fastparquet/util.py", "fastparquet/schema.py", "fastparquet/core.py", "fastparquet/dataframe.py"]

PY, UNK, NP, ARR = "py", "unknown", "numpy-scalar", "array"
BAD = (NP, ARR)


def join(*ks):
    ks = [k for k in ks if k is not None]
    if not ks:
        return PY
    if NP in ks:
        return NP
    if ARR in ks:
        return ARR
    if UNK in ks:
        return UNK
    return PY


PY_FUNCS = {"int", "len", "bool", "float", "str", "bytes", "ord", "repr", "isinstance", "hasattr", "callable", "hash", "id", "chr", "format", "bytearray"}
PY_METHODS = {"tell", "encode", "decode", "tobytes", "to_bytes", "join", "format", "hex", "lower", "upper", "strip", "lstrip", "rstrip", "dumps", "item",
              "tolist", "read", "index", "startswith", "endswith", "replace", "split", "rsplit", "isoformat", "total_seconds", "bit_length", "keys_", "write",
              "seek", "find", "rfind", "as_py", "to_pydatetime", "title", "zfill", "isdigit"}
NP_METHODS = {"sum", "count", "max", "min", "mean", "nunique", "prod", "any", "all", "argmax", "argmin", "std", "var", "median", "dot", "cumsum", "ptp"}
ARR_METHODS = {"astype", "view", "to_numpy", "ravel", "reshape", "unique", "isna", "isnull", "notnull", "notna", "dropna", "fillna", "map", "apply", "copy_",
               "searchsorted", "nonzero", "cumsum", "diff", "take", "repeat", "flatten", "squeeze", "where"}
ARR_ATTRS = {"values", "codes", "cat", "array", "_values", "categories", "str", "dt", "iloc", "loc", "T", "real", "imag", "flat", "_mask", "_data"}
PY_ATTRS = {"nbytes", "size", "itemsize", "ndim", "shape", "name", "names", "kind", "char", "tz", "zone", "unit"}
NP_SCALAR_CTORS = {"int8", "int16", "int32", "int64", "uint8", "uint16", "uint32", "uint64", "float32", "float64", "bool_", "intp", "datetime64", "timedelta64",
                   "float16", "longlong", "intc", "uint", "int_", "float_"}
THRIFT_MODULES = ("parquet_thrift",)


class Analyzer:
    def __init__(self, rel, tree, field_names, child_names):
        self.rel, self.tree = rel, tree
        self.fields, self.children = field_names, child_names
        self.sites = []
        self.consts = {}
        self.summaries = {}
        for st in tree.body:
            if isinstance(st, ast.Assign) and len(st.targets) == 1 and isinstance(st.targets[0], ast.Name):
                self.consts[st.targets[0].id] = st.value
            if isinstance(st, ast.FunctionDef):
                self.summaries[st.name] = self.summary(st)

    # a module-level function is an identity helper when every return statement returns one and the same parameter, a py helper when every
    # return expression is py in an environment where the parameters are unknown
    def summary(self, fn):
        params = [a.arg for a in fn.args.args]
        rets = [n for n in ast.walk(fn) if isinstance(n, ast.Return)]
        inner = [n for n in ast.walk(fn) if isinstance(n, (ast.FunctionDef, ast.Lambda)) and n is not fn]
        if not rets or inner or any(isinstance(n, (ast.Yield, ast.YieldFrom)) for n in ast.walk(fn)):
            return None
        assigned = {t.id for n in ast.walk(fn) if isinstance(n, (ast.Assign, ast.AugAssign, ast.AnnAssign, ast.For))
                    for t in ast.walk(n.targets[0] if isinstance(n, ast.Assign) else n.target) if isinstance(t, ast.Name)}
        if all(isinstance(r.value, ast.Name) and r.value.id in params and r.value.id not in assigned for r in rets):
            idx = {params.index(r.value.id) for r in rets}
            if len(idx) == 1:
                return ("identity", idx.pop())
        return None

    # ---- expressions ----
    def ev(self, e, env, fn):
        m = getattr(self, "e_" + type(e).__name__, None)
        if m is None:
            for c in ast.iter_child_nodes(e):
                if isinstance(c, ast.expr):
                    self.ev(c, env, fn)
            return UNK
        return m(e, env, fn)

    def e_Constant(self, e, env, fn):
        return PY

    def e_JoinedStr(self, e, env, fn):
        for v in e.values:
            self.ev(v, env, fn)
        return PY

    def e_FormattedValue(self, e, env, fn):
        self.ev(e.value, env, fn)
        return PY

    def e_Name(self, e, env, fn):
        if e.id in env:
            return env[e.id]
        if e.id in ("True", "False", "None"):
            return PY
        if e.id in self.consts:
            v = self.consts[e.id]
            if isinstance(v, ast.Constant) or (isinstance(v, ast.IfExp) and isinstance(v.body, ast.Constant) and isinstance(v.orelse, ast.Constant)):
                return PY
        return UNK

    def e_Tuple(self, e, env, fn):
        return join(PY, *[self.ev(x, env, fn) for x in e.elts])

    e_List = e_Tuple
    e_Set = e_Tuple

    def e_Dict(self, e, env, fn):
        for k in e.keys:
            if k is not None:
                self.ev(k, env, fn)
        return join(PY, *[self.ev(v, env, fn) for v in e.values])

    def e_Starred(self, e, env, fn):
        return self.ev(e.value, env, fn)

    def e_IfExp(self, e, env, fn):
        self.ev(e.test, env, fn)
        return join(self.ev(e.body, env, fn), self.ev(e.orelse, env, fn))

    def e_BoolOp(self, e, env, fn):
        return join(*[self.ev(v, env, fn) for v in e.values])

    def e_UnaryOp(self, e, env, fn):
        k = self.ev(e.operand, env, fn)
        return PY if isinstance(e.op, ast.Not) else k

    def e_BinOp(self, e, env, fn):
        a, b = self.ev(e.left, env, fn), self.ev(e.right, env, fn)
        if isinstance(e.op, ast.Mod) and isinstance(e.left, (ast.Constant, ast.JoinedStr)) and isinstance(getattr(e.left, "value", None), (str, bytes)):
            return PY
        return join(a, b)

    def e_Compare(self, e, env, fn):
        ks = [self.ev(e.left, env, fn)] + [self.ev(c, env, fn) for c in e.comparators]
        if all(isinstance(o, (ast.Is, ast.IsNot, ast.In, ast.NotIn)) for o in e.ops):
            return PY if not any(k == ARR for k in ks[:1]) or all(isinstance(o, (ast.Is, ast.IsNot)) for o in e.ops) else join(*ks)
        return join(*ks)

    def e_Lambda(self, e, env, fn):
        return UNK

    def e_Await(self, e, env, fn):
        return self.ev(e.value, env, fn)

    def e_NamedExpr(self, e, env, fn):
        k = self.ev(e.value, env, fn)
        env[e.target.id] = k
        return k

    def _comp(self, e, env, fn, elts):
        env2 = dict(env)
        for g in e.generators:
            ik = self.ev(g.iter, env2, fn)
            self.bind(g.target, self.iter_kind(g.iter, ik), env2, g.iter, fn, from_iter=True)
            for c in g.ifs:
                self.ev(c, env2, fn)
        return join(PY, *[self.ev(x, env2, fn) for x in elts])

    def e_ListComp(self, e, env, fn):
        return self._comp(e, env, fn, [e.elt])

    e_SetComp = e_ListComp
    e_GeneratorExp = e_ListComp

    def e_DictComp(self, e, env, fn):
        return self._comp(e, env, fn, [e.key, e.value])

    def e_Attribute(self, e, env, fn):
        # parquet_thrift.<Enum>.<MEMBER>
        if isinstance(e.value, ast.Attribute) and isinstance(e.value.value, ast.Name) and e.value.value.id in THRIFT_MODULES:
            return PY
        if isinstance(e.value, ast.Name) and e.value.id in THRIFT_MODULES:
            return PY
        b = self.ev(e.value, env, fn)
        if e.attr in ARR_ATTRS:
            return ARR
        if e.attr in PY_ATTRS:
            return PY
        if e.attr in self.fields or e.attr in self.children:
            # an attribute read from a thrift object (field name of `specs`): a Python object (what read_thrift / from_fields store) - unless
            # the base is known to be an array / frame (df.columns, s.name are handled above / stay unknown)
            return PY if b not in BAD else UNK
        if e.attr in ("dtype", "dtypes", "index", "columns"):
            return UNK
        return UNK

    def e_Subscript(self, e, env, fn):
        b = self.ev(e.value, env, fn)
        if not isinstance(e.slice, ast.Slice):
            self.ev(e.slice, env, fn)
        else:
            for x in (e.slice.lower, e.slice.upper, e.slice.step):
                if x is not None:
                    self.ev(x, env, fn)
        if b == ARR:
            return ARR if isinstance(e.slice, ast.Slice) else NP
        if b == NP:
            return NP
        if isinstance(e.value, ast.Attribute) and e.value.attr == "shape":
            return PY
        if isinstance(e.value, (ast.Tuple, ast.List)) or (b == PY and isinstance(e.value, ast.Name) and env.get("#elts:" + e.value.id) == PY):
            return b
        return UNK

    def iter_kind(self, it, k):
        """kind of one element when iterating over expression `it` of kind k"""
        if k == ARR or k == NP:
            return NP
        if isinstance(it, ast.Call) and isinstance(it.func, ast.Name) and it.func.id == "range":
            return PY
        if isinstance(it, (ast.Tuple, ast.List)):
            return k
        return UNK

    def e_Call(self, e, env, fn):
        f = e.func
        args = [self.ev(a, env, fn) for a in e.args]
        kws = {k.arg: self.ev(k.value, env, fn) for k in e.keywords}
        full = ast.unparse(f)
        # thrift constructors: a SITE
        struct = None
        if isinstance(f, ast.Attribute) and isinstance(f.value, ast.Name) and f.value.id in THRIFT_MODULES and f.attr[:1].isupper():
            struct = f.attr
        elif isinstance(f, ast.Attribute) and f.attr == "from_fields":
            struct = e.args[0].value if e.args and isinstance(e.args[0], ast.Constant) else next(
                (k.value.value for k in e.keywords if k.arg == "thrift_name" and isinstance(k.value, ast.Constant)), "?")
        if struct is not None:
            vals = [(k.arg, kws[k.arg], ast.unparse(k.value)) for k in e.keywords if k.arg and k.arg not in ("i32", "i32list", "thrift_name")]
            self.sites.append((e.lineno, fn, struct, vals))
            return PY
        if isinstance(f, ast.Name):
            n = f.id
            if n in PY_FUNCS:
                return PY
            if n in ("min", "max"):
                if len(args) >= 2:
                    return join(*args)
                return NP if args and args[0] in BAD else (args[0] if args and isinstance(e.args[0], (ast.List, ast.Tuple, ast.ListComp, ast.GeneratorExp)) else UNK)
            if n == "sum":
                if args and args[0] in BAD:
                    return NP
                if args and isinstance(e.args[0], (ast.GeneratorExp, ast.ListComp, ast.List, ast.Tuple)):
                    return join(*(args[:2]))
                return UNK
            if n in ("abs", "round", "divmod", "pow"):
                return join(*args) if args else UNK
            if n == "getattr" and e.args and ((isinstance(e.args[0], ast.Attribute) and isinstance(e.args[0].value, ast.Name) and e.args[0].value.id in THRIFT_MODULES)):
                return PY
            if n in ("from_buffer", "read_thrift", "ThriftObject"):
                return PY
            s = self.summaries.get(n)
            if s and s[0] == "identity" and s[1] < len(args):
                return args[s[1]]
            return UNK
        if isinstance(f, ast.Attribute):
            root = f.value
            if isinstance(root, ast.Name) and root.id in ("np", "numpy"):
                return NP if f.attr in NP_SCALAR_CTORS else ARR
            if isinstance(root, ast.Name) and root.id in ("pd", "pandas"):
                return ARR
            if isinstance(root, ast.Name) and root.id in ("json", "struct", "ujson", "orjson") and f.attr in ("dumps", "pack"):
                return PY
            b = self.ev(root, env, fn)
            if f.attr in ("item", "tolist"):
                return PY
            if f.attr in NP_METHODS:
                return PY if b == PY else NP
            if f.attr in PY_METHODS:
                return PY
            if f.attr in ARR_METHODS:
                return ARR if b != PY else UNK
            if f.attr == "copy":
                return b
            if f.attr == "get" and b == PY:
                return UNK
            return UNK
        self.ev(f, env, fn)
        return UNK

    # ---- statements ----
    def bind(self, t, k, env, value, fn, from_iter=False):
        if isinstance(t, ast.Name):
            env[t.id] = k
            if value is not None and isinstance(value, (ast.List, ast.Tuple, ast.ListComp)) and not from_iter:
                env["#elts:" + t.id] = k
            else:
                env.pop("#elts:" + t.id, None)
        elif isinstance(t, (ast.Tuple, ast.List)):
            if isinstance(value, (ast.Tuple, ast.List)) and len(value.elts) == len(t.elts) and not from_iter:
                for tt, vv in zip(t.elts, value.elts):
                    self.bind(tt, self.ev(vv, env, fn), env, vv, fn)
            elif from_iter and isinstance(value, ast.Call) and isinstance(value.func, ast.Name) and value.func.id == "enumerate" and len(t.elts) == 2:
                self.bind(t.elts[0], PY, env, None, fn)
                self.bind(t.elts[1], UNK if k not in BAD else NP, env, None, fn)
            else:
                for tt in t.elts:
                    self.bind(tt, k if k in BAD else UNK, env, None, fn)
        elif isinstance(t, ast.Starred):
            self.bind(t.value, UNK, env, None, fn)
        elif isinstance(t, ast.Attribute):
            self.ev(t.value, env, fn)
            if (t.attr in self.fields or t.attr in self.children) and not (isinstance(t.value, ast.Name) and t.value.id == "self"):
                self.sites.append((t.lineno, fn, "." + t.attr, [(t.attr, k, ast.unparse(value) if value is not None else "?")]))
        elif isinstance(t, ast.Subscript):
            self.ev(t.value, env, fn)
            if isinstance(t.slice, ast.Constant) and isinstance(t.slice.value, int) and not isinstance(t.slice.value, bool) and \
                    self.ev(t.value, env, fn) not in BAD and self.rel.endswith(("writer.py", "api.py", "util.py", "schema.py")):
                self.sites.append((t.lineno, fn, f"[{t.slice.value}]", [(f"[{t.slice.value}]", k, ast.unparse(value) if value is not None else "?")]))

    def block(self, stmts, env, fn):
        for st in stmts:
            env = self.stmt(st, env, fn)
        return env

    @staticmethod
    def merge(a, b):
        out = {}
        for n in set(a) | set(b):
            if n in a and n in b:
                out[n] = join(a[n], b[n])
            else:
                out[n] = join(a.get(n, UNK), b.get(n, UNK), UNK) if not n.startswith("#") else UNK
        return out

    def stmt(self, st, env, fn):
        if isinstance(st, ast.Assign):
            k = self.ev(st.value, env, fn)
            for t in st.targets:
                self.bind(t, k, env, st.value, fn)
            return env
        if isinstance(st, ast.AnnAssign):
            if st.value is not None:
                self.bind(st.target, self.ev(st.value, env, fn), env, st.value, fn)
            return env
        if isinstance(st, ast.AugAssign):
            load = ast.parse(ast.unparse(st.target), mode="eval").body
            k = join(self.ev(load, env, fn), self.ev(st.value, env, fn))
            self.bind(st.target, k, env, ast.BinOp(left=load, op=st.op, right=st.value), fn)
            return env
        if isinstance(st, (ast.Expr, ast.Return)):
            if st.value is not None:
                self.ev(st.value, env, fn)
            return env
        if isinstance(st, ast.If):
            self.ev(st.test, env, fn)
            a = self.block(st.body, dict(env), fn)
            b = self.block(st.orelse, dict(env), fn)
            return self.merge(a, b)
        if isinstance(st, (ast.For, ast.AsyncFor)):
            ik = self.ev(st.iter, env, fn)
            cur = dict(env)
            for _ in range(3):
                e2 = dict(cur)
                self.bind(st.target, self.iter_kind(st.iter, ik), e2, st.iter, fn, from_iter=True)
                n0 = len(self.sites)
                e2 = self.block(st.body, e2, fn)
                nxt = self.merge(cur, e2)
                if nxt == cur:
                    break
                del self.sites[n0:]         # re-run with the widened state: sites are recorded by the last pass
                cur = nxt
            else:
                e2 = dict(cur)
                self.bind(st.target, self.iter_kind(st.iter, ik), e2, st.iter, fn, from_iter=True)
                self.block(st.body, e2, fn)
            return self.block(st.orelse, cur, fn) if st.orelse else cur
        if isinstance(st, ast.While):
            cur = dict(env)
            for _ in range(3):
                self.ev(st.test, cur, fn)
                n0 = len(self.sites)
                e2 = self.block(st.body, dict(cur), fn)
                nxt = self.merge(cur, e2)
                if nxt == cur:
                    break
                del self.sites[n0:]
                cur = nxt
            return self.block(st.orelse, cur, fn) if st.orelse else cur
        if isinstance(st, ast.Try):
            a = self.block(st.body, dict(env), fn)
            mid = self.merge(env, a)          # an exception may leave the body anywhere
            outs = [self.block(st.orelse, dict(a), fn)]
            for h in st.handlers:
                e2 = dict(mid)
                if h.name:
                    e2[h.name] = UNK
                outs.append(self.block(h.body, e2, fn))
            res = outs[0]
            for o in outs[1:]:
                res = self.merge(res, o)
            return self.block(st.finalbody, res, fn) if st.finalbody else res
        if isinstance(st, (ast.With, ast.AsyncWith)):
            for it in st.items:
                k = self.ev(it.context_expr, env, fn)
                if it.optional_vars is not None:
                    self.bind(it.optional_vars, UNK, env, None, fn)
            return self.block(st.body, env, fn)
        if isinstance(st, (ast.FunctionDef, ast.AsyncFunctionDef)):
            self.function(st, fn + "." + st.name, dict(env))
            env[st.name] = UNK
            return env
        if isinstance(st, ast.ClassDef):
            for s in st.body:
                if isinstance(s, (ast.FunctionDef, ast.AsyncFunctionDef)):
                    self.function(s, st.name + "." + s.name, {})
            return env
        if isinstance(st, ast.Delete):
            for t in st.targets:
                if isinstance(t, ast.Name):
                    env.pop(t.id, None)
            return env
        if isinstance(st, (ast.Raise, ast.Assert)):
            for c in ast.iter_child_nodes(st):
                if isinstance(c, ast.expr):
                    self.ev(c, env, fn)
            return env
        if hasattr(ast, "Match") and isinstance(st, ast.Match):
            self.ev(st.subject, env, fn)
            res = dict(env)
            for c in st.cases:
                res = self.merge(res, self.block(c.body, {k: UNK for k in env}, fn))
            return res
        return env

    def function(self, fdef, name, outer):
        env = {k: v for k, v in outer.items()}
        a = fdef.args
        for x in list(a.posonlyargs) + list(a.args) + list(a.kwonlyargs) + ([a.vararg] if a.vararg else []) + ([a.kwarg] if a.kwarg else []):
            env[x.arg] = UNK
        for d in list(a.defaults) + [d for d in a.kw_defaults if d is not None]:
            self.ev(d, outer, name)
        self.block(fdef.body, env, name)

    def run(self):
        env = {}
        for st in self.tree.body:
            env = self.stmt(st, env, "<module>") if not isinstance(st, (ast.FunctionDef, ast.AsyncFunctionDef)) else env
            if isinstance(st, (ast.FunctionDef, ast.AsyncFunctionDef)):
                self.function(st, st.name, {})
        return self.sites


def precondition_from_pyx():
    """the shape of write_thrift's dispatch in the real .pyx: -> (has_unchecked_dict_cast_in_else, isinstance type names tested)"""
    funcs, _, _ = cy.load()
    f = funcs["write_thrift"]
    src = ast.unparse(f.tree)
    tested = sorted(set(re.findall(r"isinstance\(val, (\w+)\)", src)))
    unchecked = "__cast_dict__ ** val" in src and "isinstance(val, dict)" not in src
    return unchecked, tested, f


def check(ctx, timeout=None):
    res = KResults()
    text = open(os.path.join(REPO, "fastparquet", "cencoding.pyx")).read()
    specs, children = parse_tables(text)
    fields = {f for s in specs.values() for f in s} - {f for c in children.values() for f in c}
    childs = {f for c in children.values() for f in c}
    try:
        unchecked, tested, f = precondition_from_pyx()
        if ctx is not None:
            ctx.function("cencoding.write_thrift (value dispatch)", sha(f.text), dict(f.report, isinstance_tests=tested))
        res.addk("write_thrift.precondition_is_exact_python_types", "safety", PROVED, None, 0.0, "ast",
                 "write_thrift dispatches on True/False, " + ", ".join(tested) + (" and ends in the UNCHECKED cast <dict>val: any other value type is "
                 "dereferenced as a dict - the call-site obligations thrift_value.is_exact_python_type[...] are its precondition" if unchecked else
                 " and checks the dict case: the call-site obligations are stronger than needed"))
    except Exception as ex:
        res.addk("write_thrift.precondition_is_exact_python_types", "safety", UNKNOWN, None, 0.0, "ast", f"{type(ex).__name__}: {ex}")
    n_sites = 0
    for rel in FILES:
        path = os.path.join(REPO, rel)
        if not os.path.exists(path):
            continue
        src = open(path).read()
        an = Analyzer(rel, ast.parse(src), fields, childs)
        seen = {}
        for line, fn, struct, vals in an.run():
            key = (line, fn, struct)
            seen[key] = vals                # a loop body is analysed until its state is stable: the last pass counts
        for (line, fn, struct), vals in sorted(seen.items()):
            n_sites += 1
            name = f"thrift_value.is_exact_python_type[{rel}:{line}:{fn}:{struct}]"
            bad = [(a, k, s) for a, k, s in vals if k in BAD]
            unk = [(a, k, s) for a, k, s in vals if k == UNK]
            if bad:
                res.addk(name, "safety", REFUTED, {"site": f"{rel}:{line}", "function": fn, "struct": struct,
                                                   "numpy_typed": {a: f"{s}  [{k}]" for a, k, s in bad}}, 0.0, "kind-analysis",
                         "a value that may be a numpy scalar / array reaches a thrift field: write_thrift casts it to dict without a type check (segfault)")
            elif unk:
                res.addk(name, "safety", UNKNOWN, None, 0.0, "kind-analysis", "undecided (not a violation): the kind of " +
                         "; ".join(f"{a} = {s[:60]}" for a, k, s in unk) + " is not derivable inside the function")
            else:
                res.addk(name, "safety", PROVED, None, 0.0, "kind-analysis", "every value given is an exact Python object (" + ", ".join(a for a, _, _ in vals) + ")")
    if n_sites < 20:
        res.addk("thrift_value.sites_found", "safety", UNKNOWN, None, 0.0, "kind-analysis", f"only {n_sites} thrift value sites found (expected >= 30)")
    return res
