"""C06 - partial-read bookkeeping of fastparquet/api.py, executed symbolically from the real source.

Model.  A list of row groups is (list id L, length n); `num_rows(L, j) >= 0` is the row count of its j-th member and
`rows_before(L, k)` the prefix sum S(k) (S(0) = 0, S(k+1) = S(k) + num_rows(k); only instances are added, monotonicity is
posed as its own induction lemma `prefix_sum.monotone.*` and then instantiated).  A custom boolean mask is
(id m, length, true-count of every slice [a, b) = mask_true_count(m, a, b)); T(k) is the number of rows READ from the first
k row groups: S(k) without a mask, mask_true_count(m, 0, S(k)) with one.  Loops over row groups run the body once for an
arbitrary index k with every loop-carried variable havoc'd under the invariant `offset == T(k)` (proved on entry and after
the body).  Output views are opaque arrays of ghost length `size` (the first argument of pre_allocate).

Obligations (names = what a VIOLATION reports; [mode] in plain | filtered | mask | mask+filters | row_filter=True)
  prefix_sum.monotone.base/step         S(a) <= S(b) for 0 <= a <= b (induction; used instantiated afterwards)
  to_pandas.size[mode]                  length of the pre-allocated views == rows read from ALL selected row groups (T(n))
  to_pandas.slices_tile[mode].first_at_zero / .slice_is_kth_tile / .offset_advances_by_rows_read / .inside_output /
      .ordered_disjoint / .ends_at_size the slice v[lo:hi] handed to read_row_group_file with the k-th row group is
                                        [T(k), T(k+1)): inside [0, size), adjacent, in row-group order, pairwise disjoint;
                                        the running offset is T(k+1) after the body (also when the row group is skipped)
                                        and == size at exit
  to_pandas.skip_only_empty[mode]       a row group is skipped (no read) only if no row of it is selected - and then the
                                        offset does not move (part of offset_advances_by_rows_read)
  to_pandas.each_row_group_read_once    one read per row group that is not skipped, for THAT row group, in list order
  to_pandas.row_filter_matches_row_group  the row mask handed over is the k-th tile of the mask, or None when all rows are taken
  to_pandas.catdef_passed_whole / .parts_cover_every_view   '-catdef' entries whole, every view present under its own name
  to_pandas.selected_covers_all_row_groups   zip(rgs, selected) loses no row group
  to_pandas.iterates_selected_row_groups     the loop runs over the selection (filtered list / own list)
  to_pandas.mask_tiles_follow_row_groups[mode]  selected[k] == sel[S(k) : S(k+1)]
  to_pandas.mask_length_checked[mask]   a custom mask whose length differs from the number of rows raises
  to_pandas.filters_own_row_groups      filter_row_groups is applied to THIS handle with the caller's filters
  to_pandas.returns_preallocated_frame
  head.running_total_is_prefix_sum.*    loop invariant total_rows == S(k)
  head.defined_on_empty                 the index used in self[:i+1] is bound when there are no row groups
  head.prefix_sufficient                the prefix self[:i+1] holds >= nrows rows or is the whole dataset (minimality NOT required)
  head.truncates_prefix_read            the result is <prefix handle>.to_pandas(**kwargs).head(nrows)
  getitem.new_row_groups_are_selection[int|slice]   new handle's row_groups (and its footer's) == list(self.row_groups[item])
  getitem.new_footer_row_groups_are_selection[..]   the same for new_handle.fmd.row_groups (__setstate__/_set_attrs run inline)
  getitem.parent_unchanged / .footer_copied_before_assignment / .returns_new_handle
  set_attrs.row_groups_follow_footer    self.row_groups is fmd.row_groups, or [] when that is None/empty  (handle invariant)
  set_attrs.footer_unchanged            _set_attrs assigns nothing on the footer
  count.own_row_groups[no filters|filters]   == sum of num_rows over the handle's OWN (filtered) row groups
  len.own_row_groups, info.rows / info.row_groups
  rangeindex.length / .valid_step / .assigned_to_frame   RangeIndex(start, start + size*step, step) has exactly `size` labels
  frame.helpers_do_not_assign_row_groups   (ast) methods called opaquely on self never store to .row_groups / .fmd
A source shape the script does not model (other loop form, several loop-carried ints, ...) gives `<run>.out_of_reach` = unknown.
plus the engine's own safety obligations (`<func>.local_defined[x]`, no None compared / subscripted, ...).
"""
import ast
import itertools

import z3

from vc import backends
from vc.front_py import parse_module
from vc.symexec import (Engine, Path, Custom, Opaque, Str, PyB, PyI, NONE, NoneV, Unsupported, Tup, Opt,
                        AbstractComp, AbstractDict, BUILTINS, _target_names)
from vlib.common import PROVED, REFUTED, UNKNOWN
from .util import Results, solve, ret_line

I = z3.IntSort()
NR = z3.Function("num_rows", I, I, I)                    # (list id, j) -> rows of the j-th row group
S = z3.Function("rows_before", I, I, I)                  # (list id, k) -> sum_{j<k} num_rows(j)
COUNT = z3.Function("mask_true_count", I, I, I, I)       # (mask id, a, b) -> number of True in mask[a:b]
_ids = itertools.count(10)

ASSUMED = [
    "preconditions: every handle satisfies set_attrs.row_groups_follow_footer (posed on _set_attrs itself); head: nrows >= 0; "
    "__getitem__ with an int: -len <= item < len; pre_allocate: size >= 0 and the stored RangeIndex step != 0",
    "num_rows of every row group is an int >= 0 (thrift i64 written by this library / validated on open)",
    "filter_row_groups(pf, filters) is deterministic, returns a list of row groups of pf.row_groups; with filters None/empty it "
    "returns all of pf.row_groups (C05: filter_row_groups.or_of_ands[empty], result_is_inorder_subsequence)",
    "pre_allocate(size, ...) returns (df, views): every view whose name does not end in '-catdef' is an array of length `size`; "
    "v[a:b] with 0 <= a <= b <= len(v) is the window of b - a elements starting at a (numpy basic slicing)",
    "numpy boolean mask m: m.sum() == true-count of m[0:len(m)]; for 0 <= a <= b <= c <= len(m): count(a,c) == count(a,b) + "
    "count(b,c) and 0 <= count(a,b) <= b - a; m[a:b].sum() == count(a,b)",
    "_column_filter(df, filters) returns a boolean array with one entry per row of df; the recursive "
    "to_pandas(row_filter=False) call inside to_pandas obeys to_pandas.size[filtered] (cut: proved in that mode)",
    "len(range(a, b, s)) == max(0, ceil((b - a) / s)) for s > 0 and max(0, ceil((a - b) / -s)) for s < 0; pandas.RangeIndex "
    "has the labels of that range; the 'step' stored in pandas metadata is never 0",
    "copy.copy(fmd) is a new object with the same field values (shallow); object.__new__(ParquetFile) has no attributes; "
    "obj.__dict__.update(d) sets exactly the attributes named in d; FileMetaData field 4 is row_groups (parquet.thrift)",
    "list indexing: xs[i] raises IndexError for i outside [-len, len) before anything else happens (precondition of the "
    "integer-pick run); xs[:h] is the prefix of length clamp(h)",
    "DataFrame.head(n) for n >= 0 keeps the first min(n, rows) rows",
    "methods called on self that are not under contract here (_get_index, check_column_names, _columns_from_filters, open, "
    "_read_partitions, _dtypes, check_categories, read_row_group_file) do not assign row_groups / fmd (checked on their "
    "ast: frame.helpers_do_not_assign_row_groups) and read_row_group_file writes only into the arrays it is given",
]


class ProofScriptError(Exception):
    """the source no longer has the shape this proof script models: undecided (unknown), never a violation"""


# =================================================================================================
# facts (instances of the definitions / assumed contracts; always sound to add)
# =================================================================================================
def s_step(L, k):
    return [S(L, 0) == 0, NR(L, k) >= 0, S(L, k + 1) == S(L, k) + NR(L, k)]


def s_mono(L, a, b):
    """instance of the lemma prefix_sum.monotone (posed separately)"""
    return z3.Implies(z3.And(0 <= a, a <= b), z3.And(S(L, a) <= S(L, b), 0 <= S(L, a)))


def count_facts(m, mlen, a, b):
    """assumed numpy facts for the slice [a, b) of mask m, and additivity at (0, a, b) and (0, b, len)"""
    ok = z3.And(0 <= a, a <= b, b <= mlen)
    return [COUNT(m, 0, 0) == 0,
            z3.Implies(ok, z3.And(0 <= COUNT(m, a, b), COUNT(m, a, b) <= b - a,
                                  0 <= COUNT(m, 0, a), COUNT(m, 0, a) <= a,
                                  COUNT(m, 0, b) == COUNT(m, 0, a) + COUNT(m, a, b),
                                  COUNT(m, 0, mlen) == COUNT(m, 0, b) + COUNT(m, b, mlen),
                                  0 <= COUNT(m, b, mlen), COUNT(m, b, mlen) <= mlen - b))]


# =================================================================================================
# proof-script values
# =================================================================================================
class RG:
    """row group j of list L"""
    tracked = False

    def __init__(self, L, j):
        self.L, self.j = L, j

    def attr(self, eng, p, name):
        if name == "num_rows":
            p.pc += s_step(self.L, self.j)
            return PyI(NR(self.L, self.j))
        return Opaque(("rg", str(self.L), str(self.j), name))

    def getitem(self, eng, p, i, node):
        return Opaque(("rg[]", str(self.L), str(self.j), str(getattr(i, "z", getattr(i, "s", "?")))))

    def isinstance(self, eng, p, tn):
        return z3.BoolVal(False)

    def is_none(self, eng, p):
        return z3.BoolVal(False)

    def truth(self, eng, p):
        return z3.BoolVal(True)


class SliceObj:
    """an arbitrary slice object given to __getitem__"""
    tracked = False

    def isinstance(self, eng, p, tn):
        return z3.BoolVal("slice" in tn)


class RGList:
    """abstract list of row groups: members (L, 0) .. (L, n-1).  `origin` records how the proof script obtained it"""
    tracked = False

    def __init__(self, L, n, origin=None):
        self.L, self.n, self.origin = L, n, origin

    def len(self, eng, p):
        return PyI(self.n)

    def truth(self, eng, p):
        return self.n > 0

    nonempty = truth

    def is_none(self, eng, p):
        return z3.BoolVal(False)

    def isinstance(self, eng, p, tn):
        return z3.BoolVal("list" in tn)

    def item(self, eng, p, k):
        return Custom(RG(self.L, k))

    def getitem(self, eng, p, i, node):
        if isinstance(i, Custom) and isinstance(i.h, SliceObj):
            n2 = eng.fresh_int("n_sliced")
            p.pc += [n2 >= 0, n2 <= z3.If(self.n >= 0, self.n, 0)]
            return Custom(RGList(z3.IntVal(next(_ids)), n2, origin=("getitem", self.L, i.h)))
        k = eng.as_int(i, p, node)
        idx = z3.simplify(z3.If(k < 0, self.n + k, k))
        eng.oblige(p, f"{eng.cur_func}.index_in_range@L{node.lineno}", "safety", z3.And(0 <= idx, idx < self.n), node)
        return Custom(RG(self.L, idx))

    def slice(self, eng, p, lo, hi, node):
        if lo is None and hi is None:
            return Custom(self)                      # rgs[:] - a copy with the same members
        raise Unsupported("slice of a row-group list")

    def arbitrary(self, eng, p):
        # one arbitrary member; NO range constraint is put on the path (the list may be empty)
        return Custom(RG(self.L, eng.fresh_int("rg_j")))

    def enumerate(self, eng, p):
        return Custom(EnumList(self))

    def for_loop(self, eng, p, st):
        return abstract_for(eng, p, st, self, self.n, self.item)

    def call_method(self, eng, p, name, args, kw, node):
        if name == "copy":
            return [(p, Custom(self))]
        if name in MUTATORS:
            p.ghost["writes"].append(("list", str(self.L), name))
            return [(p, NONE)]
        raise Unsupported("row_groups." + name)


class EnumList:
    tracked = False

    def __init__(self, base):
        self.base, self.n, self.L = base, base.n, base.L

    def for_loop(self, eng, p, st):
        return abstract_for(eng, p, st, self, self.n, lambda e, q, k: Tup([PyI(k), self.base.item(e, q, k)]))


class ConstList:
    """[x] * n"""
    tracked = False

    def __init__(self, elt, n):
        self.elt, self.n = elt, n

    def len(self, eng, p):
        return PyI(z3.If(self.n >= 0, self.n, 0))

    def item(self, eng, p, k):
        return self.elt


class SelList:
    """`selected` after the mask loop: selected[k] == mask[S(k) : S(k+1)] (justified by to_pandas.mask_tiles_follow_row_groups)"""
    tracked = False

    def __init__(self, mask, L, n):
        self.mask, self.L, self.n = mask, L, n

    def len(self, eng, p):
        return PyI(self.n)

    def item(self, eng, p, k):
        p.pc += s_step(self.L, k)
        return Custom(MaskSlice(self.mask, S(self.L, k), S(self.L, k + 1)))


class ZipList:
    tracked = False

    def __init__(self, rgs, other):
        self.rgs, self.other, self.n, self.L = rgs, other, rgs.n, rgs.L

    def for_loop(self, eng, p, st):
        return abstract_for(eng, p, st, self, self.n,
                            lambda e, q, k: Tup([self.rgs.item(e, q, k), self.other.item(e, q, k)]))


class Recorder:
    """a list the loop body mutates through methods: the appends of ONE iteration are recorded"""
    tracked = False

    def __init__(self, name):
        self.name = name

    def call_method(self, eng, p, name, args, kw, node):
        if name == "append" and len(args) == 1:
            p.ghost.setdefault("appended:" + self.name, []).append(args[0])
            return [(p, NONE)]
        raise Unsupported(f"{self.name}.{name} inside an abstract loop")


class MaskArr:
    """boolean numpy array used as row mask"""
    tracked = False

    def __init__(self, mid, mlen, tot):
        self.mid, self.mlen, self.tot = mid, mlen, tot

    def facts(self):
        return [self.mlen >= 0, self.tot == COUNT(self.mid, 0, self.mlen), COUNT(self.mid, 0, 0) == 0,
                0 <= self.tot, self.tot <= self.mlen]

    def len(self, eng, p):
        return PyI(self.mlen)

    def is_none(self, eng, p):
        return z3.BoolVal(False)

    def isinstance(self, eng, p, tn):
        return z3.BoolVal("ndarray" in tn)

    def call_method(self, eng, p, name, args, kw, node):
        if name == "sum" and not args:
            p.pc += self.facts()
            return [(p, PyI(self.tot))]
        raise Unsupported("mask." + name)

    def slice(self, eng, p, lo, hi, node):
        a = eng.as_int(lo, p, node) if lo is not None else z3.IntVal(0)
        b = eng.as_int(hi, p, node) if hi is not None else self.mlen
        return Custom(MaskSlice(self, a, b))


class MaskSlice:
    tracked = False

    def __init__(self, mask, a, b):
        self.mask, self.a, self.b = mask, a, b

    def is_none(self, eng, p):
        return z3.BoolVal(False)

    def call_method(self, eng, p, name, args, kw, node):
        if name == "sum" and not args:
            p.pc += count_facts(self.mask.mid, self.mask.mlen, self.a, self.b)
            return [(p, PyI(COUNT(self.mask.mid, self.a, self.b)))]
        raise Unsupported("mask slice." + name)


class ColName:
    tracked = False

    def __init__(self, c):
        self.c = c

    def call_method(self, eng, p, name, args, kw, node):
        if name == "endswith" and len(args) == 1 and isinstance(args[0], Str) and args[0].s == "-catdef":
            key = ("catdef", self.c)
            if key not in p.opq:
                p.opq[key] = eng.fresh("is_catdef", z3.BoolSort())
            return [(p, PyB(p.opq[key]))]
        raise Unsupported("view name." + name)


class ViewArr:
    """one pre-allocated output array of ghost length n"""
    tracked = True

    def __init__(self, c, n):
        self.c, self.n = c, n

    def slice(self, eng, p, lo, hi, node):
        a = eng.as_int(lo, p, node) if lo is not None else z3.IntVal(0)
        b = eng.as_int(hi, p, node) if hi is not None else self.n
        return Custom(ViewSlice(self.c, a, b, self.n))


class ViewSlice:
    tracked = True

    def __init__(self, c, lo, hi, n):
        self.c, self.lo, self.hi, self.n = c, lo, hi, n


class ViewItems:
    tracked = True

    def __init__(self, views):
        self.views = views

    def arbitrary(self, eng, p):
        c = next(eng.counter)
        return Tup([Custom(ColName(c)), Custom(ViewArr(c, self.views.n))])

    def nonempty(self, eng, p):
        return eng.fresh("has_views", z3.BoolSort())


class Views:
    tracked = True

    def __init__(self, n):
        self.n = n

    def call_method(self, eng, p, name, args, kw, node):
        if name == "items" and not args:
            return [(p, Custom(ViewItems(self)))]
        raise Unsupported("views." + name)


class Frame:
    """a DataFrame the proof script follows: `src` says where it came from"""
    tracked = False

    def __init__(self, src):
        self.src = src

    def attr(self, eng, p, name):
        return Opaque(("frame", str(id(self)), name))

    def setattr(self, eng, p, name, v):
        pass

    def call_method(self, eng, p, name, args, kw, node):
        if name == "head" and len(args) == 1:
            return [(p, Custom(Frame(("head", self, args[0]))))]
        return [(p, Opaque(("frame." + name, next(eng.counter))))]


class DictLit:
    tracked = False

    def __init__(self, d):
        self.d = d

    def getitem(self, eng, p, i, node):
        if isinstance(i, Str) and i.s in self.d:
            return self.d[i.s]
        raise Unsupported("dict literal item")


class FMD:
    """footer object; fields live in p.ghost['attrs'][(oid, name)]; unset fields are shared opaque values of the root"""
    tracked = False

    def __init__(self, oid, root, copy_of=None):
        self.oid, self.root, self.copy_of = oid, root, copy_of

    def attr(self, eng, p, name):
        A = p.ghost["attrs"]
        if (self.oid, name) in A:
            return A[(self.oid, name)]
        if name == "num_rows":
            # the footer's own total: NOT related to the handle's row groups (stale on a sliced handle)
            return PyI(z3.Int("footer_num_rows_" + self.root))
        return Opaque(("fmd", self.root, name))

    def setattr(self, eng, p, name, v):
        p.ghost["attrs"][(self.oid, name)] = v
        p.ghost["writes"].append((self.oid, name))

    def getitem(self, eng, p, i, node):
        s = z3.simplify(eng.as_int(i, p, node))
        if z3.is_int_value(s) and s.as_long() == 4:
            return self.attr(eng, p, "row_groups")
        return Opaque(("fmd[]", self.root, str(s)))

    def is_none(self, eng, p):
        return z3.BoolVal(False)


class PFDict:
    tracked = False

    def __init__(self, oid):
        self.oid = oid

    def call_method(self, eng, p, name, args, kw, node):
        if name == "update" and len(args) == 1 and isinstance(args[0], Custom) and isinstance(args[0].h, DictLit):
            for k, v in args[0].h.d.items():
                p.ghost["attrs"][(self.oid, k)] = v
                p.ghost["writes"].append((self.oid, k))
            return [(p, NONE)]
        raise Unsupported("__dict__." + name)


OPAQUE_METHODS = ("_get_index", "_columns_from_filters", "open", "_read_partitions", "_dtypes", "check_categories",
                  "row_group_filename")


class PF:
    """a ParquetFile handle; attributes live in p.ghost['attrs'][(oid, name)]"""
    tracked = False

    def __init__(self, oid):
        self.oid = oid

    def attr(self, eng, p, name):
        A = p.ghost["attrs"]
        if (self.oid, name) in A:
            return A[(self.oid, name)]
        if name == "__dict__":
            return Custom(PFDict(self.oid))
        return Opaque(("pf", self.oid, name))

    def setattr(self, eng, p, name, v):
        p.ghost["attrs"][(self.oid, name)] = v
        p.ghost["writes"].append((self.oid, name))

    def truth(self, eng, p):
        return z3.BoolVal(True)

    def is_none(self, eng, p):
        return z3.BoolVal(False)

    def call_method(self, eng, p, name, args, kw, node):
        m = eng.pf_methods.get(name)
        if m is not None:
            return m(eng, p, self, args, kw, node)
        for a in list(args) + list(kw.values()):
            if isinstance(a, Custom) and getattr(a.h, "tracked", False):
                raise Unsupported(f"tracked object flows into self.{name}")
        if name not in OPAQUE_METHODS:
            p.ghost.setdefault("unmodelled_calls", []).append(name)
        return [(p, Opaque(("pfcall", self.oid, name, next(eng.counter))))]

    def slice(self, eng, p, lo, hi, node):
        """self[lo:hi] == __getitem__(slice): by the __getitem__ contract a new handle over list(self.row_groups[lo:hi])"""
        if lo is not None or hi is None:
            raise Unsupported("handle slice other than self[:h]")
        rgs = self.attr(eng, p, "row_groups")
        if not (isinstance(rgs, Custom) and isinstance(rgs.h, RGList)):
            raise Unsupported("slice of a handle without abstract row groups")
        n = rgs.h.n
        h = eng.as_int(hi, p, node)
        m = z3.If(h < 0, z3.If(n + h < 0, 0, n + h), z3.If(h > n, n, h))
        oid = f"pf{next(_ids)}"
        p.ghost["attrs"][(oid, "row_groups")] = Custom(RGList(rgs.h.L, m, origin=("prefix", rgs.h.L, h)))
        p.ghost["children"] = p.ghost.get("children", []) + [(oid, self.oid, h, m)]
        return Custom(PF(oid))


MUTATORS = ("append", "extend", "insert", "pop", "remove", "sort", "reverse", "clear", "__setitem__", "__delitem__")


# =================================================================================================
# abstract for-loop: body once for an arbitrary index, loop-carried state havoc'd under the invariant
# =================================================================================================
SCOPES = (ast.ListComp, ast.SetComp, ast.DictComp, ast.GeneratorExp, ast.Lambda, ast.FunctionDef, ast.ClassDef)


def stored_names(stmts):
    out = set()

    def walk(n):
        if isinstance(n, SCOPES):
            return
        if isinstance(n, ast.Name) and isinstance(n.ctx, (ast.Store, ast.Del)):
            out.add(n.id)
        for c in ast.iter_child_nodes(n):
            walk(c)
    for s in stmts:
        walk(s)
    return out


def mutated_names(stmts):
    """x such that the body calls x.append(...) etc."""
    out = set()
    for s in stmts:
        for n in ast.walk(s):
            if isinstance(n, ast.Call) and isinstance(n.func, ast.Attribute) and n.func.attr in MUTATORS \
                    and isinstance(n.func.value, ast.Name):
                out.add(n.func.value.id)
    return out


class LoopAnn:
    """proof-script annotation of one loop"""
    mode = "abstract"          # (the engine looks at .mode of a loop spec for range() loops only)

    def enter(self, eng, p, st, coll, carried):
        pass

    def inv(self, eng, q, k):
        return z3.BoolVal(True)

    def begin_iter(self, eng, q, k):
        pass

    def end_iter(self, eng, q, k, skipped, st):
        pass

    def exit_value(self, eng, q, name, n_iter):
        return Opaque(f"{name}!after_loop{next(eng.counter)}")


def _fresh_like(eng, v, nm):
    if isinstance(v, PyI):
        return PyI(eng.fresh_int(nm))
    if isinstance(v, PyB):
        return PyB(eng.fresh(nm, z3.BoolSort()))
    return Opaque(f"{nm}!havoc{next(eng.counter)}")


def abstract_for(eng, p, st, coll, n, item_fn):
    spec, ordinal = eng.loop_spec(st)
    base = f"{eng.cur_func}.loop{ordinal}"
    targets = _target_names(st.target)
    assigned = stored_names(st.body)
    mutated = mutated_names(st.body) - assigned
    if spec is None:
        spec = LoopAnn()
    carried = sorted(nm for nm in assigned - targets if isinstance(p.env.get(nm), PyI))
    spec.enter(eng, p, st, coll, carried)
    eng.oblige(p, base + ".invariant_on_entry", "inv", spec.inv(eng, p, z3.IntVal(0)), st)
    out = []

    def havoc(q, in_body):
        for nm in sorted(assigned | targets):
            if nm in q.env:
                q.env[nm] = _fresh_like(eng, q.env[nm], nm)
            elif not in_body:
                q.env[nm] = Opaque(f"{nm}!maybe_bound{next(eng.counter)}")
        for nm in sorted(mutated):
            if nm in q.env:
                q.env[nm] = Custom(Recorder(nm)) if in_body else spec.exit_value(eng, q, nm, n)

    # no iteration at all: the state is the entry state
    e0 = p.fork(n <= 0)
    if eng.feasible(e0):
        out += eng.block(st.orelse, [e0]) if st.orelse else [e0]
    # ONE arbitrary iteration k
    h = p.fork()
    k = eng.fresh_int("iter_k")
    h.pc += [k >= 0, k < n]
    if eng.feasible(h):
        havoc(h, True)
        h.pc.append(spec.inv(eng, h, k))
        spec.begin_iter(eng, h, k)
        h.ghost["iter_k"] = k
        for b0 in eng.assign(st.target, item_fn(eng, h, k), h):
            for b in eng.block(st.body, [b0]):
                if b.ctl == "break":
                    b.ctl = None
                    out.append(b)
                elif b.ctl is None or b.ctl == "continue":
                    skipped = b.ctl == "continue"
                    b.ctl = None
                    eng.oblige(b, base + ".invariant_preserved", "inv", spec.inv(eng, b, k + 1), st)
                    spec.end_iter(eng, b, k, skipped, st)
                else:
                    out.append(b)
    # all n > 0 iterations done
    e = p.fork(n > 0)
    if eng.feasible(e):
        havoc(e, False)
        e.pc.append(spec.inv(eng, e, n))
        e.ghost.pop("iter_k", None)
        for e1 in eng.assign(st.target, item_fn(eng, e, n - 1), e):
            for nm in targets & assigned:
                e1.env[nm] = Opaque(f"{nm}!after_loop{next(eng.counter)}")
            out += eng.block(st.orelse, [e1]) if st.orelse else [e1]
    return out


class OffsetLoop(LoopAnn):
    """invariant: <the one loop-carried int> == T(k)"""

    def __init__(self, T, facts, want_list=None):
        self.T, self.facts, self.want_list, self.var = T, facts, want_list, None

    def enter(self, eng, p, st, coll, carried):
        if len(carried) != 1:
            raise ProofScriptError(f"{eng.cur_func} L{st.lineno}: expected one loop-carried integer, found {carried}")
        self.var = carried[0]
        if self.want_list is not None:
            L = getattr(coll, "L", None)
            ok = L is not None and z3.eq(z3.simplify(L), z3.simplify(self.want_list[0])) and \
                z3.eq(z3.simplify(coll.n), z3.simplify(self.want_list[1]))
            eng.oblige(p, "to_pandas.iterates_selected_row_groups", "post", z3.BoolVal(bool(ok)), st,
                       note="the loop runs over the selected row groups (filter_row_groups(self, filters) if filters else self.row_groups)")

    def inv(self, eng, q, k):
        v = q.env.get(self.var)
        if not isinstance(v, PyI):
            raise ProofScriptError(f"loop-carried offset {self.var} is not an int")
        return v.z == self.T(k)

    def begin_iter(self, eng, q, k):
        q.pc += self.facts(k)


# =================================================================================================
# engine extensions
# =================================================================================================
class Eng6(Engine):
    def __init__(self, *a, **kw):
        self.pf_methods = kw.pop("pf_methods", {})
        super().__init__(*a, **kw)
        self._locals = {}

    def locals_of(self, func):
        if func not in self._locals:
            f = self.funcs.get(func)
            self._locals[func] = stored_names(f.tree.body) if f is not None else set()
        return self._locals[func]

    def e_Name(self, e, p):
        if e.id not in p.env and isinstance(e.ctx, ast.Load) and e.id in self.locals_of(self.cur_func):
            # a local that no executed statement has bound: UnboundLocalError
            self.oblige(p, f"{self.cur_func}.local_defined[{e.id}]", "safety", z3.BoolVal(False), e,
                        note=f"local variable {e.id!r} is read before any assignment on this path")
            return [(p, Opaque(f"unbound:{e.id}"))]
        return super().e_Name(e, p)

    def load_sub(self, o, i, p, node):
        if isinstance(o, Opaque) and isinstance(i, (PyI, PyB)):
            # opaque[int]: memoised opaque item (the engine's own key construction cannot take a z3 term)
            key = ("item", o.tag, str(z3.simplify(i.z)))
            if key not in p.opq:
                p.opq[key] = Opaque((o.tag, "[]", key[2]))
            return p.opq[key]
        return super().load_sub(o, i, p, node)

    def binop(self, op, a, b, p, node):
        if isinstance(op, ast.Mult) and isinstance(a, Tup) and a.is_list and len(a.items) == 1 and isinstance(b, (PyI, PyB)):
            return Custom(ConstList(a.items[0], self.as_int(b)))
        return super().binop(op, a, b, p, node)

    def identical(self, a, b, p):
        for x, y in ((a, b), (b, a)):
            if isinstance(x, Custom) and isinstance(y, (PyB, PyI, Str, Tup)):
                return z3.BoolVal(False)
        if isinstance(a, Custom) and isinstance(b, Custom):
            return z3.BoolVal(a.h is b.h)
        return super().identical(a, b, p)

    def e_Dict(self, e, p):
        if e.keys and all(isinstance(k, ast.Constant) and isinstance(k.value, str) for k in e.keys):
            return [(q, Custom(DictLit(dict(zip([k.value for k in e.keys], vs))))) for q, vs in self.ev_list(e.values, p)]
        return super().e_Dict(e, p)

    def ev_args(self, e, p):
        if any(k.arg is None for k in e.keywords):
            import copy
            e2 = copy.copy(e)
            e2.keywords = [k for k in e.keywords if k.arg is not None]
            out = []
            for q, (args, kw) in super().ev_args(e2, p):
                for k in e.keywords:
                    if k.arg is None:
                        v = self.ev1(k.value, q)
                        if not isinstance(v, Opaque):
                            raise Unsupported("** of a tracked value")
                        kw = dict(kw, **{"**": v})
                out.append((q, (args, kw)))
            return out
        return super().ev_args(e, p)


def h_sum(eng, p, args, kw, node):
    """sum(rg.num_rows for rg in <row-group list>) == S(n): only for exactly that summand"""
    v = args[0] if args else None
    if isinstance(v, Custom) and isinstance(v.h, AbstractComp) and isinstance(v.h.coll, Custom) \
            and isinstance(v.h.coll.h, RGList) and z3.is_true(z3.simplify(v.h.guard)) and isinstance(v.h.elt, PyI):
        L, n = v.h.coll.h.L, v.h.coll.h.n
        e = z3.simplify(v.h.elt.z)
        if z3.is_app(e) and e.decl().eq(NR) and z3.eq(z3.simplify(e.arg(0)), z3.simplify(L)) and str(e.arg(1)).startswith("rg_j!"):
            p.pc += [S(L, 0) == 0, s_mono(L, z3.IntVal(0), n)]
            return [(p, PyI(S(L, n)))]
    raise Unsupported("sum() of something that is not `rg.num_rows for rg in <row groups>`")


def h_len(eng, p, args, kw, node):
    v = args[0]
    if isinstance(v, Opt):
        eng.oblige(p, f"{eng.cur_func}.no_len_of_None@L{node.lineno}", "safety", z3.Not(v.isnone), node)
        return BUILTINS["len"](eng, p, [v.val], kw, node)
    return BUILTINS["len"](eng, p, args, kw, node)


def h_zip(eng, p, args, kw, node):
    if len(args) == 2 and isinstance(args[0], Custom) and isinstance(args[0].h, RGList):
        o = args[1]
        if isinstance(o, Tup) and not o.items:
            other = ConstList(NONE, z3.IntVal(0))
        elif isinstance(o, Custom) and isinstance(o.h, (ConstList, SelList)):
            other = o.h
        else:
            raise Unsupported("zip(rgs, <unmodelled list>)")
        ln = eng.as_int(other.len(eng, p))
        eng.oblige(p, "to_pandas.selected_covers_all_row_groups", "post", ln == args[0].h.n, node,
                   note="zip() stops at the shorter list: `selected` must have one entry per selected row group")
        return [(p, Custom(ZipList(args[0].h, other)))]
    raise Unsupported("zip")


def h_append_on_plain(eng, p, args, kw, node):
    raise Unsupported("list mutation outside a modelled loop")


def h_list(eng, p, args, kw, node):
    if args and isinstance(args[0], Custom) and isinstance(args[0].h, RGList):
        return [(p, args[0])]
    return BUILTINS["list"](eng, p, args, kw, node)


BASE_HANDLERS = {"sum": h_sum, "len": h_len, "zip": h_zip, ".append": h_append_on_plain, ".extend": h_append_on_plain,
                 "list": h_list}


def new_path(N0):
    """the handle `self` (pf0) with the invariant _set_attrs establishes (set_attrs.row_groups_follow_footer):
    self.row_groups is self.fmd.row_groups, or [] when that is None / empty"""
    p = Path()
    L0 = z3.IntVal(0)
    B0 = z3.Bool("footer_row_groups_is_None")
    p.pc += [N0 >= 0, z3.Implies(B0, N0 == 0), S(L0, 0) == 0]
    own = Custom(RGList(L0, N0, origin="own"))
    p.ghost["attrs"] = {("pf0", "row_groups"): own, ("pf0", "fmd"): Custom(FMD("fmd0", "fmd0")),
                        ("fmd0", "row_groups"): Opt(B0, own)}
    p.ghost["writes"] = []
    return p, L0


DETAILS = {
    "to_pandas.slices_tile.first_at_zero": "the running offset is 0 == T(0) when the row-group loop starts",
    "to_pandas.slices_tile.offset_advances_by_rows_read": "after the body for row group k (read OR skipped) the running offset is "
                                                          "T(k+1) = T(k) + rows read from row group k - a skipped group does not move it",
    "to_pandas.mask_tiles_follow_row_groups.first_at_zero": "the mask cursor is 0 == S(0) when the tiling loop starts",
    "to_pandas.mask_tiles_follow_row_groups.offset_advances": "the mask cursor advances by num_rows of the row group: S(k+1)",
    "head.running_total_is_prefix_sum.entry": "total_rows == S(0) == 0 before the first row group",
    "head.running_total_is_prefix_sum.preserved": "total_rows == S(k+1) after row group k when the loop goes on",
}


def ret_tag(eng, fn, q):
    """'@return-L<n>' when the function has several return statements, '' otherwise (names stay stable under edits)"""
    f = eng.funcs.get(fn)
    n = sum(1 for x in ast.walk(f.tree) if isinstance(x, ast.Return)) if f is not None else 2
    return f"@return-L{ret_line(q)}" if n != 1 else ""


def discharge_engine(res, eng, timeout, rename=None, tag=""):
    for ob in eng.oblig:
        st, be, secs, m = backends.discharge(ob, timeout)
        nm = ob.name[len("ParquetFile."):] if ob.name.startswith("ParquetFile.") else ob.name
        if rename:
            nm = rename(nm)
        det = ob.note or next((d for k, d in DETAILS.items() if nm.startswith(k)), ob.kind)
        nm = nm + tag
        res.add(nm, st, {"z3_model": str(m)[:400]} if m is not None else None, secs, be, det)
    eng.oblig = []


def pose(res, name, hyps, goal, timeout, detail, model_terms=None):
    st, m, secs = solve(list(hyps) + [z3.Not(goal)], timeout)
    mdl = None
    if m is not None:
        mdl = {k: backends.model_value(m, t) for k, t in (model_terms or {}).items()}
        mdl["z3_model"] = str(m)[:300]
    res.add(name, st, mdl, secs, "z3", detail)
    return st


# =================================================================================================
# lemma: prefix sums are monotone
# =================================================================================================
def run_lemma(ctx, timeout):
    res = Results()
    L, a, b = z3.Ints("L a b")
    pose(res, "prefix_sum.monotone.base", [0 <= a], S(L, a) <= S(L, a), timeout, "S(a) <= S(a)")
    pose(res, "prefix_sum.monotone.step", [0 <= a, a <= b, S(L, a) <= S(L, b)] + s_step(L, b), S(L, a) <= S(L, b + 1), timeout,
         "S(a) <= S(b) and S(b+1) = S(b) + num_rows(b), num_rows(b) >= 0  =>  S(a) <= S(b+1)")
    pose(res, "prefix_sum.monotone.nonneg_step", [0 <= b, 0 <= S(L, b)] + s_step(L, b), 0 <= S(L, b + 1), timeout, "S(b) >= 0 => S(b+1) >= 0")
    return res


# =================================================================================================
# to_pandas
# =================================================================================================
MODES = ("plain", "filtered", "mask", "mask+filters", "row_filter=True")


def run_to_pandas(ctx, funcs, timeout, mode):
    res = Results()
    tag = f"[{mode}]"
    fn = "ParquetFile.to_pandas"
    N0 = z3.Int("n_row_groups")
    p, L0 = new_path(N0)
    L1, N1 = z3.IntVal(1), z3.Int("n_filtered_row_groups")
    filtered = mode in ("filtered", "row_filter=True", "mask+filters")
    masked = mode in ("mask", "row_filter=True", "mask+filters")
    L, N = (L1, N1) if filtered else (L0, N0)
    if filtered:
        p.pc += [N1 >= 0, N1 <= N0, S(L1, 0) == 0]
    MID = z3.IntVal(7)
    MLEN, TOT = z3.Int("mask_length"), z3.Int("mask_true_total")
    mask = MaskArr(MID, MLEN, TOT)
    filters_obj = Custom(type("Filters", (), {"tracked": False, "truth": lambda s, e, q: z3.BoolVal(True),
                                              "is_none": lambda s, e, q: z3.BoolVal(False)})())
    if masked:
        p.pc += mask.facts()

    def T(k):
        return COUNT(MID, 0, S(L, k)) if masked else S(L, k)

    def TL(k):
        return COUNT(MID, S(L, k), S(L, k + 1)) if masked else NR(L, k)

    def facts(k):
        f = s_step(L, k) + [s_mono(L, k + 1, N), s_mono(L, z3.IntVal(0), k)]
        if masked:
            f += count_facts(MID, MLEN, S(L, k), S(L, k + 1))
        return f

    def m_filter_row_groups(eng, q, args, kw, node):
        pf, fl = args[0], args[1] if len(args) > 1 else kw.get("filters", NONE)
        own = isinstance(pf, Custom) and isinstance(pf.h, PF) and pf.h.oid == "pf0"
        same = fl is filters_obj
        eng.oblige(q, "to_pandas.filters_own_row_groups", "post", z3.BoolVal(bool(own and same)), node,
                   note="filter_row_groups is applied to this handle with the caller's filters")
        return [(q, Custom(RGList(L1, N1, origin="filtered")))]

    def m_pre_allocate(eng, q, pf, args, kw, node):
        if "views_len" in q.ghost:
            raise ProofScriptError("pre_allocate called twice")
        q.ghost["views_len"] = eng.as_int(args[0], q, node)
        q.ghost["df"] = Opaque(("df", next(eng.counter)))
        return [(q, Tup([q.ghost["df"], Custom(Views(q.ghost["views_len"]))]))]

    def m_read(eng, q, pf, args, kw, node):
        k = q.ghost.get("iter_k")
        if k is None:
            eng.oblige(q, "to_pandas.each_row_group_read_once", "post", z3.BoolVal(False), node, note="read outside the row-group loop")
            return [(q, NONE)]
        q.ghost["reads"] = q.ghost.get("reads", []) + [1]
        VL = q.ghost.get("views_len")
        rg = args[0] if args else kw.get("rg")
        if not (isinstance(rg, Custom) and isinstance(rg.h, RG) and z3.eq(z3.simplify(rg.h.L), z3.simplify(L))):
            eng.oblige(q, "to_pandas.each_row_group_read_once", "post", z3.BoolVal(False), node, note="first argument is not a selected row group")
            return [(q, NONE)]
        j = rg.h.j
        eng.oblige(q, "to_pandas.each_row_group_read_once", "post", j == k, node, note="the k-th iteration reads the k-th selected row group")
        parts = kw.get("assign")
        if not (isinstance(parts, Custom) and isinstance(parts.h, AbstractDict) and VL is not None):
            eng.oblige(q, "to_pandas.slices_tile.slice_is_kth_tile", "post", z3.BoolVal(False), node,
                       note="assign= is not {name: view or view[lo:hi]} over the pre-allocated views")
            return [(q, NONE)]
        d = parts.h
        key_ok = isinstance(d.key, Custom) and isinstance(d.key.h, ColName)
        c = d.key.h.c if key_ok else None
        cov = key_ok and z3.is_true(z3.simplify(d.guard)) and isinstance(d.coll, Custom) and isinstance(d.coll.h, ViewItems)
        eng.oblige(q, "to_pandas.parts_cover_every_view", "post", z3.BoolVal(bool(cov)), node,
                   note="every pre-allocated view appears in assign= under its own name")
        is_cat = q.opq.get(("catdef", c))
        val = d.val
        if is_cat is not None and not eng.feasible(q, z3.Not(is_cat)):      # the path on which the arbitrary view IS a -catdef entry
            whole = isinstance(val, Custom) and isinstance(val.h, ViewArr) and val.h.c == c
            eng.oblige(q, "to_pandas.catdef_passed_whole", "post", z3.BoolVal(bool(whole)), node,
                       note="a '-catdef' entry (category definitions, not row data) is handed over unsliced")
        else:
            if isinstance(val, Custom) and isinstance(val.h, ViewSlice) and val.h.c == c:
                lo, hi = val.h.lo, val.h.hi
            elif isinstance(val, Custom) and isinstance(val.h, ViewArr) and val.h.c == c:
                lo, hi = z3.IntVal(0), val.h.n
            else:
                eng.oblige(q, "to_pandas.slices_tile.slice_is_kth_tile", "post", z3.BoolVal(False), node, note="value is not a slice of its own view")
                return [(q, NONE)]
            eng.oblige(q, "to_pandas.slices_tile.slice_is_kth_tile", "post", z3.And(lo == T(j), hi == T(j + 1)), node,
                       note="v[lo:hi] given with row group j is [T(j), T(j+1)), T = rows read from the row groups before")
            eng.oblige(q, "to_pandas.slices_tile.inside_output", "post", z3.And(0 <= lo, lo <= hi, hi <= VL), node,
                       note="0 <= lo <= hi <= size: the slice is a window of the pre-allocated array (no clamping, no wrap-around)")
        rf = kw.get("row_filter", NONE)
        if isinstance(rf, NoneV):
            g = TL(j) == NR(L, j)
        elif isinstance(rf, Custom) and isinstance(rf.h, MaskSlice) and rf.h.mask is mask and masked:
            g = z3.And(rf.h.a == S(L, j), rf.h.b == S(L, j + 1))
        else:
            g = z3.BoolVal(False)
        eng.oblige(q, "to_pandas.row_filter_matches_row_group", "post", g, node,
                   note="row_filter is None only when every row of the group is selected, else the group's own tile of the mask")
        return [(q, NONE)]

    def m_to_pandas_rec(eng, q, pf, args, kw, node):
        # the recursive call of the row_filter=True branch: contract of the non-mask mode (cut)
        ok = pf.oid == "pf0" and kw.get("filters") is filters_obj and isinstance(kw.get("row_filter"), PyB) and \
            z3.is_false(z3.simplify(kw["row_filter"].z)) and not args
        if not ok or mode != "row_filter=True":
            raise ProofScriptError("unexpected recursive to_pandas call")
        fr = Frame(("to_pandas", "pf0", "filtered"))
        q.pc += [S(L1, 0) == 0, s_mono(L1, z3.IntVal(0), N1)]
        return [(q, Custom(fr))]

    def m_column_filter(eng, q, pf, args, kw, node):
        df = args[0] if args else kw.get("df")
        if not (isinstance(df, Custom) and isinstance(df.h, Frame) and df.h.src == ("to_pandas", "pf0", "filtered")):
            raise ProofScriptError("_column_filter on an unknown frame")
        q.pc += [MLEN == S(L1, N1)]
        return [(q, Custom(mask))]

    class MaskLoop(OffsetLoop):
        def end_iter(self, eng, q, k, skipped, st):
            ap = q.ghost.get("appended:" + self.sel_name, []) if self.sel_name else []
            ok = len(ap) == 1 and isinstance(ap[0], Custom) and isinstance(ap[0].h, MaskSlice) and ap[0].h.mask is mask
            g = z3.And(ap[0].h.a == S(L, k), ap[0].h.b == S(L, k + 1)) if ok else z3.BoolVal(False)
            eng.oblige(q, "to_pandas.mask_tiles_follow_row_groups", "post", g, st,
                       note="each iteration appends exactly sel[S(k) : S(k+1)]")

        def enter(self, eng, q, st, coll, carried):
            super().enter(eng, q, st, coll, carried)
            mut = sorted(mutated_names(st.body))
            self.sel_name = mut[0] if len(mut) == 1 else None
            v = q.env.get(self.sel_name) if self.sel_name else None
            if not (isinstance(v, Tup) and v.is_list and not v.items):
                raise ProofScriptError("mask loop: the list appended to is not empty at loop entry")

        def exit_value(self, eng, q, name, n_iter):
            return Custom(SelList(mask, L, n_iter))

    class SharedLoop(OffsetLoop):
        def end_iter(self, eng, q, k, skipped, st):
            nreads = len(q.ghost.get("reads", []))
            if skipped or nreads == 0:
                eng.oblige(q, "to_pandas.skip_only_empty", "post", TL(k) == 0, st,
                           note="a row group that is not read has no selected row")
            eng.oblige(q, "to_pandas.each_row_group_read_once", "post", z3.BoolVal(nreads <= 1), st)

    mask_loop = MaskLoop(lambda k: S(L, k), lambda k: s_step(L, k), want_list=(L, N))
    shared_loop = SharedLoop(T, facts, want_list=(L, N))
    eng = Eng6(funcs=funcs, handlers=dict(BASE_HANDLERS, filter_row_groups=m_filter_row_groups), opaque_calls=True,
               loops={(fn, 0): mask_loop, (fn, 1): shared_loop},
               pf_methods={"pre_allocate": m_pre_allocate, "read_row_group_file": m_read, "to_pandas": m_to_pandas_rec,
                           "_column_filter": m_column_filter})
    kwargs = {"columns": NONE, "categories": NONE, "index": NONE, "dtypes": NONE,
              "filters": filters_obj if filtered else Tup([], True),
              "row_filter": {"plain": PyB(False), "filtered": PyB(False), "mask": Custom(mask), "mask+filters": Custom(mask),
                             "row_filter=True": PyB(True)}[mode]}
    if solve(list(p.pc), 2000)[0] == REFUTED:
        ctx.vacuity["requires_sat"] += 1
    else:
        ctx.engine_error(f"to_pandas{tag}: precondition unsatisfiable")
    outs = eng.run(fn, p, [Custom(PF("pf0"))], kwargs)

    def rename(nm):
        for a, b in ((f"to_pandas.loop1.invariant_on_entry", "to_pandas.slices_tile.first_at_zero"),
                     (f"to_pandas.loop1.invariant_preserved", "to_pandas.slices_tile.offset_advances_by_rows_read"),
                     (f"to_pandas.loop0.invariant_on_entry", "to_pandas.mask_tiles_follow_row_groups.first_at_zero"),
                     (f"to_pandas.loop0.invariant_preserved", "to_pandas.mask_tiles_follow_row_groups.offset_advances")):
            if nm == a:
                return b
        return nm
    discharge_engine(res, eng, timeout, rename, tag)
    n_ret = 0
    must_fail = False
    for q in outs:
        if q.ctl[0] == "raise":
            continue
        n_ret += 1
        VL = q.ghost.get("views_len")
        loc = q.ghost["locals:" + fn]
        hyps = list(q.pc) + [S(L, 0) == 0, s_mono(L, z3.IntVal(0), N)]
        if masked:
            hyps += count_facts(MID, MLEN, S(L, 0), S(L, N))
        if VL is None:
            res.add("to_pandas.size" + tag, REFUTED, {"note": "pre_allocate was not called on a returning path"}, 0.0, "trace")
            continue
        pose(res, "to_pandas.size" + tag, hyps, VL == T(N), timeout,
             "length of the pre-allocated views == number of rows read from all selected row groups",
             {"row_groups": N, "size": VL, "rows_to_read": T(N)})
        off = loc.get(shared_loop.var) if shared_loop.var else None
        if isinstance(off, PyI):
            pose(res, "to_pandas.slices_tile.ends_at_size" + tag, hyps, off.z == VL, timeout,
                 "the running offset equals the allocated size after the last row group", {"offset": off.z, "size": VL, "row_groups": N})
            if not must_fail and solve(hyps + [N >= 2, off.z != 0], 3000)[0] == REFUTED:
                must_fail = True
        else:
            res.add("to_pandas.slices_tile.ends_at_size" + tag, UNKNOWN, None, 0.0, "engine", "no offset variable on this path")
        ok = isinstance(q.ctl[1], Opaque) and q.ctl[1] is q.ghost.get("df") or \
            (isinstance(q.ctl[1], Opaque) and isinstance(q.ghost.get("df"), Opaque) and q.ctl[1].tag == q.ghost["df"].tag)
        res.add("to_pandas.returns_preallocated_frame" + tag, PROVED if ok else REFUTED, None, 0.0, "trace",
                "the frame returned is the one whose arrays were filled")
    # a custom mask of the wrong length must raise: no returning path may have S(n) != len(mask)
    if mode in ("mask", "mask+filters"):
        for q in outs:
            if q.ctl[0] != "raise":
                pose(res, "to_pandas.mask_length_checked" + tag, list(q.pc), S(L, N) == MLEN, timeout,
                     "a returning path has len(row_filter) == total rows of the selected row groups",
                     {"mask_length": MLEN, "total_rows": S(L, N)})
    # whole-view statement: tiles k1 < k2 are ordered and disjoint (given slice_is_kth_tile)
    k1, k2 = z3.Ints("k1 k2")
    hy = [N >= 0, 0 <= k1, k1 < k2, k2 < N] + s_step(L, k1) + [s_mono(L, k1 + 1, k2), s_mono(L, k2, N), s_mono(L, z3.IntVal(0), k1 + 1)]
    if masked:
        hy += mask.facts() + [MLEN == S(L, N)] + count_facts(MID, MLEN, S(L, k1 + 1), S(L, k2))
    pose(res, "to_pandas.slices_tile.ordered_disjoint" + tag, hy, T(k1 + 1) <= T(k2), timeout,
         "for k1 < k2 the tile of k1 ends at or before the tile of k2 starts")
    if n_ret == 0:
        ctx.engine_error(f"to_pandas{tag}: no returning path")
    if must_fail:
        ctx.vacuity["must_fail_sat"] += 1
    else:
        ctx.engine_error(f"to_pandas{tag}: must-fail obligation (offset stays 0 with >= 2 row groups) was not refuted")
    ctx.vacuity["covers"] += n_ret
    un = sorted({c for q in outs for c in q.ghost.get("unmodelled_calls", [])})
    if un:
        res.add("to_pandas.unmodelled_self_calls" + tag, UNKNOWN, None, 0.0, "engine", "methods called on self without a contract: " + ", ".join(un))
    return res


# =================================================================================================
# head
# =================================================================================================
def run_head(ctx, funcs, timeout):
    res = Results()
    fn = "ParquetFile.head"
    N0, nrows = z3.Int("n_row_groups"), z3.Int("nrows")
    p, L0 = new_path(N0)
    p.pc += [nrows >= 0]

    def m_to_pandas(eng, q, pf, args, kw, node):
        return [(q, Custom(Frame(("to_pandas", pf.oid, tuple(sorted(kw)), tuple(args)))))]

    loop = OffsetLoop(lambda k: S(L0, k), lambda k: s_step(L0, k))
    eng = Eng6(funcs=funcs, handlers=dict(BASE_HANDLERS), opaque_calls=True, loops={(fn, 0): loop}, pf_methods={"to_pandas": m_to_pandas})
    outs = eng.run(fn, p, [Custom(PF("pf0")), PyI(nrows)])

    def rename(nm):
        if nm.startswith("head.local_defined["):
            return "head.defined_on_empty"
        return {"head.loop0.invariant_on_entry": "head.running_total_is_prefix_sum.entry",
                "head.loop0.invariant_preserved": "head.running_total_is_prefix_sum.preserved"}.get(nm, nm)
    discharge_engine(res, eng, timeout, rename)
    if "head.defined_on_empty" not in res.d:
        res.add("head.defined_on_empty", PROVED, None, 0.0, "engine", "every local read on every path (including zero row groups) is bound")
    n_ret = 0
    for q in outs:
        if q.ctl[0] != "ret":
            continue
        n_ret += 1
        ch = q.ghost.get("children", [])
        v = q.ctl[1]
        shape = isinstance(v, Custom) and isinstance(v.h, Frame) and v.h.src[0] == "head" and len(ch) == 1 and \
            isinstance(v.h.src[1], Frame) and v.h.src[1].src[0] == "to_pandas" and v.h.src[1].src[1] == ch[0][0] and \
            ch[0][1] == "pf0" and "**" in v.h.src[1].src[2] and not v.h.src[1].src[3]
        n_ok = shape and isinstance(v.h.src[2], PyI)
        if n_ok:
            pose(res, "head.truncates_prefix_read" + ret_tag(eng, fn, q), list(q.pc), v.h.src[2].z == nrows, timeout,
                 "result == self[:h].to_pandas(**kwargs).head(nrows)")
        else:
            res.add("head.truncates_prefix_read" + ret_tag(eng, fn, q), REFUTED, {"note": "return value is not <prefix>.to_pandas(**kwargs).head(nrows)"}, 0.0, "trace")
            continue
        _, _, h, m = ch[0]
        hyps = list(q.pc) + [S(L0, 0) == 0]
        pose(res, "head.prefix_sufficient" + ret_tag(eng, fn, q), hyps, z3.And(h >= 0, z3.Or(S(L0, m) >= nrows, m == N0)), timeout,
             "self[:h] is a prefix (h >= 0) that holds >= nrows rows or is the whole dataset",
             {"row_groups": N0, "nrows": nrows, "h": h, "prefix_len": m, "rows_in_prefix": S(L0, m),
              "num_rows[0]": NR(L0, 0), "num_rows[1]": NR(L0, 1), "num_rows[2]": NR(L0, 2)})
    if n_ret == 0:
        ctx.engine_error("head: no returning path")
    # must-fail: "the prefix is always the whole dataset" is false
    if any(q.ctl[0] == "ret" and q.ghost.get("children") and
           solve(list(q.pc) + [q.ghost["children"][0][3] != N0], 3000)[0] == REFUTED for q in outs):
        ctx.vacuity["must_fail_sat"] += 1
    else:
        ctx.engine_error("head: must-fail obligation (prefix is always everything) was not refuted")
    ctx.vacuity["covers"] += n_ret
    return res


# =================================================================================================
# __getitem__, _set_attrs
# =================================================================================================
def _inline_method(name):
    def m(eng, q, pf, args, kw, node):
        out = []
        for r in eng.run("ParquetFile." + name, q, [Custom(pf)] + list(args), kw):
            if r.ctl[0] == "ret":
                v = r.ctl[1]
                r.ctl = None
                out.append((r, v))
            else:
                out.append((r, Opaque("raised")))
        return out
    return m


def _same_selection(v, want):
    """is value v the abstract list `want` (('int', L, idx) | ('slice', L, sliceobj))?  -> z3 Bool"""
    if want[0] == "int":
        if isinstance(v, Tup) and v.is_list and len(v.items) == 1 and isinstance(v.items[0], Custom) and isinstance(v.items[0].h, RG) \
                and z3.eq(z3.simplify(v.items[0].h.L), z3.simplify(want[1])):
            return v.items[0].h.j == want[2]
        return z3.BoolVal(False)
    if isinstance(v, Custom) and isinstance(v.h, RGList) and isinstance(v.h.origin, tuple) and v.h.origin[0] == "getitem" \
            and z3.eq(z3.simplify(v.h.origin[1]), z3.simplify(want[1])) and v.h.origin[2] is want[2]:
        return z3.BoolVal(True)
    return z3.BoolVal(False)


def run_getitem(ctx, funcs, timeout, kind):
    res = Results()
    tag = f"[{kind}]"
    fn = "ParquetFile.__getitem__"
    N0 = z3.Int("n_row_groups")
    p, L0 = new_path(N0)
    if kind == "int":
        it = z3.Int("item")
        p.pc += [-N0 <= it, it < N0]
        item = PyI(it)
        want = ("int", L0, z3.If(it < 0, N0 + it, it))
    else:
        so = SliceObj()
        item = Custom(so)
        want = ("slice", L0, so)

    def h_new(eng, q, args, kw, node):
        oid = f"pf{next(_ids)}"
        q.ghost["new_handles"] = q.ghost.get("new_handles", []) + [oid]
        return [(q, Custom(PF(oid)))]

    def h_copy(eng, q, args, kw, node):
        o = args[0]
        if not (isinstance(o, Custom) and isinstance(o.h, FMD)):
            raise Unsupported("copy.copy of something that is not the footer")
        oid = f"fmd{next(_ids)}"
        A = q.ghost["attrs"]
        for (o2, name), v in list(A.items()):
            if o2 == o.h.oid:
                A[(oid, name)] = v
        return [(q, Custom(FMD(oid, o.h.root, copy_of=o.h.oid)))]
    eng = Eng6(funcs=funcs, handlers=dict(BASE_HANDLERS, **{"object.__new__": h_new, "copy.copy": h_copy}), opaque_calls=True,
               pf_methods={"__setstate__": _inline_method("__setstate__"), "_set_attrs": _inline_method("_set_attrs")})
    outs = eng.run(fn, p, [Custom(PF("pf0")), item])
    discharge_engine(res, eng, timeout, None, tag)
    n_ret = 0
    for q in outs:
        if q.ctl[0] != "ret":
            continue
        n_ret += 1
        A, W = q.ghost["attrs"], q.ghost["writes"]
        v = q.ctl[1]
        new = isinstance(v, Custom) and isinstance(v.h, PF) and v.h.oid != "pf0" and v.h.oid in q.ghost.get("new_handles", [])
        res.add("getitem.returns_new_handle" + tag, PROVED if new else REFUTED, None, 0.0, "trace", "the result is a fresh ParquetFile object")
        bad = [w for w in W if w[0] in ("pf0", "fmd0", "list")]
        res.add("getitem.parent_unchanged" + tag, PROVED if not bad else REFUTED, {"assigned_on_parent": str(bad)} if bad else None, 0.0, "trace",
                "no attribute of self or of self.fmd is assigned, self.row_groups is not mutated")
        if not new:
            continue
        oid = v.h.oid
        f = A.get((oid, "fmd"))
        copied = isinstance(f, Custom) and isinstance(f.h, FMD) and f.h.oid != "fmd0" and f.h.copy_of == "fmd0"
        order_ok = copied and ("fmd0", "row_groups") not in W and (f.h.oid, "row_groups") in W
        res.add("getitem.footer_copied_before_assignment" + tag, PROVED if order_ok else REFUTED,
                None if order_ok else {"new_handle_fmd": str(getattr(getattr(f, "h", None), "oid", f)), "writes": str(W)[:300]}, 0.0, "trace",
                "new handle's footer is a copy of self.fmd and row_groups is set on the copy only")
        hyps = list(q.pc)
        own = A.get((oid, "row_groups"))
        g_own = _same_selection(own, want)
        if want[0] == "slice" and isinstance(own, Tup) and own.is_list and not own.items and copied:
            # `fmd.row_groups or []`: a fresh [] stands for an EMPTY selection
            fr = A.get((f.h.oid, "row_groups"))
            g_own = z3.And(_same_selection(fr, want), fr.h.n == 0) if isinstance(fr, Custom) and isinstance(fr.h, RGList) else z3.BoolVal(False)
        pose(res, "getitem.new_row_groups_are_selection" + tag, hyps, g_own, timeout,
             "new handle's row_groups == list(self.row_groups[item]) (a single pick becomes a one-element list)")
        if copied:
            pose(res, "getitem.new_footer_row_groups_are_selection" + tag, hyps, _same_selection(A.get((f.h.oid, "row_groups")), want), timeout,
                 "new handle's fmd.row_groups == list(self.row_groups[item])")
    if n_ret == 0:
        ctx.engine_error(f"__getitem__{tag}: no returning path")
    ctx.vacuity["covers"] += n_ret
    return res


def run_set_attrs(ctx, funcs, timeout):
    res = Results()
    fn = "ParquetFile._set_attrs"
    n = z3.Int("n_footer_row_groups")
    B = z3.Bool("footer_row_groups_is_None")
    p = Path()
    p.pc += [n >= 0]
    Lf = z3.IntVal(0)
    footer_list = Custom(RGList(Lf, n, origin="footer"))
    p.ghost["attrs"] = {("pfX", "fmd"): Custom(FMD("fmdX", "fmdX")), ("fmdX", "row_groups"): Opt(B, footer_list)}
    p.ghost["writes"] = []
    eng = Eng6(funcs=funcs, handlers=dict(BASE_HANDLERS), opaque_calls=True)
    outs = eng.run(fn, p, [Custom(PF("pfX"))])
    discharge_engine(res, eng, timeout)
    n_ret = 0
    for q in outs:
        if q.ctl[0] != "ret":
            continue
        n_ret += 1
        v = q.ghost["attrs"].get(("pfX", "row_groups"))
        if isinstance(v, Opt):
            g = z3.And(z3.Not(v.isnone), z3.BoolVal(v.val is footer_list))
        elif v is footer_list:
            g = z3.BoolVal(True)
        elif isinstance(v, Tup) and v.is_list and not v.items:
            g = z3.Or(B, n == 0)
        else:
            g = z3.BoolVal(False)
        pose(res, "set_attrs.row_groups_follow_footer", list(q.pc), g, timeout,
             "self.row_groups is fmd.row_groups, or an empty list when that is None or empty", {"footer_is_None": B, "n": n})
        bad = [w for w in q.ghost["writes"] if w[0] == "fmdX" or w[0] == "list"]
        res.add("set_attrs.footer_unchanged", PROVED if not bad else REFUTED, {"writes": str(bad)} if bad else None, 0.0, "trace")
    if n_ret == 0:
        ctx.engine_error("_set_attrs: no returning path")
    ctx.vacuity["covers"] += n_ret
    return res


# =================================================================================================
# count / __len__ / info
# =================================================================================================
def run_counts(ctx, funcs, timeout):
    res = Results()
    N0 = z3.Int("n_row_groups")
    L1, N1 = z3.IntVal(1), z3.Int("n_filtered_row_groups")
    filters_obj = Custom(type("Filters", (), {"tracked": False, "truth": lambda s, e, q: z3.BoolVal(True),
                                              "is_none": lambda s, e, q: z3.BoolVal(False)})())

    def mk():
        def h_frg(eng, q, args, kw, node):
            pf, fl = args[0], args[1] if len(args) > 1 else kw.get("filters", NONE)
            if not (isinstance(pf, Custom) and isinstance(pf.h, PF)):
                raise Unsupported("filter_row_groups on something that is not a handle")
            own = pf.h.attr(eng, q, "row_groups")
            q.ghost["frg_calls"] = q.ghost.get("frg_calls", []) + [(pf.h.oid, fl)]
            if isinstance(fl, NoneV) or (isinstance(fl, Tup) and not fl.items):
                return [(q, own)]            # assumed (C05): no filters -> every row group of pf.row_groups
            q.pc += [N1 >= 0, S(L1, 0) == 0]
            return [(q, Custom(RGList(L1, N1, origin=("filtered", pf.h.oid, fl))))]
        return Eng6(funcs=funcs, handlers=dict(BASE_HANDLERS, filter_row_groups=h_frg), opaque_calls=True,
                    pf_methods={"count": _inline_method("count")})
    model = {"row_groups": N0, "sum_num_rows": S(z3.IntVal(0), N0), "footer_num_rows": z3.Int("footer_num_rows_fmd0")}
    # count()
    for tag, fl in (("[no filters]", None), ("[filters]", filters_obj)):
        eng = mk()
        p, L0 = new_path(N0)
        outs = eng.run("ParquetFile.count", p, [Custom(PF("pf0"))], {"filters": fl} if fl is not None else {})
        discharge_engine(res, eng, timeout, None, tag)
        for q in outs:
            if q.ctl[0] != "ret":
                continue
            ctx.vacuity["covers"] += 1
            calls = q.ghost.get("frg_calls", [])
            if fl is None:
                want = S(L0, N0)
            else:
                ok = len(calls) >= 1 and all(c[0] == "pf0" and c[1] is fl for c in calls)
                want = S(L1, N1) if ok else None
            if want is None or not isinstance(q.ctl[1], (PyI, PyB)):
                res.add(f"count.own_row_groups{tag}" + ret_tag(eng, "ParquetFile.count", q), REFUTED if want is None else UNKNOWN,
                        {"note": "filter_row_groups not applied to this handle with the given filters" if want is None else "non-integer result"}, 0.0, "trace")
                continue
            pose(res, f"count.own_row_groups{tag}" + ret_tag(eng, "ParquetFile.count", q), list(q.pc), eng.as_int(q.ctl[1]) == want, timeout,
                 "count() == sum of num_rows over this handle's own row groups (after row-group filtering)", model)
    # __len__
    eng = mk()
    p, L0 = new_path(N0)
    outs = eng.run("ParquetFile.__len__", p, [Custom(PF("pf0"))])
    discharge_engine(res, eng, timeout)
    for q in outs:
        if q.ctl[0] == "ret":
            ctx.vacuity["covers"] += 1
            if not isinstance(q.ctl[1], (PyI, PyB)):
                res.add("len.own_row_groups" + ret_tag(eng, "ParquetFile.__len__", q), UNKNOWN, None, 0.0, "engine", "non-integer result")
                continue
            pose(res, "len.own_row_groups" + ret_tag(eng, "ParquetFile.__len__", q), list(q.pc), eng.as_int(q.ctl[1]) == N0, timeout,
                 "len(handle) == number of the handle's own row groups", model)
    # info
    eng = mk()
    p, L0 = new_path(N0)
    outs = eng.run("ParquetFile.info", p, [Custom(PF("pf0"))])
    discharge_engine(res, eng, timeout)
    for q in outs:
        if q.ctl[0] != "ret":
            continue
        ctx.vacuity["covers"] += 1
        v = q.ctl[1]
        if not (isinstance(v, Custom) and isinstance(v.h, DictLit) and "rows" in v.h.d and "row_groups" in v.h.d):
            res.add("info.rows", UNKNOWN, None, 0.0, "engine", "info is not a dict literal with 'rows' and 'row_groups'")
            continue
        for key, want in (("rows", S(L0, N0)), ("row_groups", N0)):
            x = v.h.d[key]
            if not isinstance(x, (PyI, PyB)):
                res.add("info." + key, REFUTED, {"note": "not derived from this handle's row groups: " + type(x).__name__}, 0.0, "trace")
                continue
            pose(res, "info." + key, list(q.pc), eng.as_int(x) == want, timeout,
                 f"info[{key!r}] is computed from the handle's own row groups", model)
    # must-fail: count() == footer total is NOT provable
    if solve([N0 >= 0, S(z3.IntVal(0), N0) != z3.Int("footer_num_rows_fmd0")], 2000)[0] == REFUTED:
        ctx.vacuity["must_fail_sat"] += 1
    return res


# =================================================================================================
# RangeIndex fragment of pre_allocate
# =================================================================================================
def range_len(a, b, s, ln):
    """assumed contract of range(): ln == len(range(a, b, s)), s != 0"""
    return z3.And(ln >= 0,
                  z3.Implies(z3.And(s > 0, b <= a), ln == 0),
                  z3.Implies(z3.And(s > 0, b > a), z3.And((ln - 1) * s < b - a, b - a <= ln * s)),
                  z3.Implies(z3.And(s < 0, b >= a), ln == 0),
                  z3.Implies(z3.And(s < 0, b < a), z3.And((ln - 1) * (-s) < a - b, a - b <= ln * (-s))))


def run_rangeindex(ctx, funcs, timeout):
    res = Results()
    fn = "ParquetFile.pre_allocate"
    size, START, STEP = z3.Int("size"), z3.Int("stored_start"), z3.Int("stored_step")

    class IC:
        tracked = False

        def isinstance(self, eng, p, tn):
            if ("ic_isdict", tn) not in p.opq:
                p.opq[("ic_isdict", tn)] = eng.fresh("ic_is_" + tn, z3.BoolSort())
            return p.opq[("ic_isdict", tn)]

        def call_method(self, eng, p, name, args, kw, node):
            if name == "get" and args and isinstance(args[0], Str):
                return [(p, Opaque(("ic.get", args[0].s)))]
            raise Unsupported("index column." + name)

        def getitem(self, eng, p, i, node):
            if isinstance(i, Str) and i.s == "start":
                return PyI(START)
            if isinstance(i, Str) and i.s == "step":
                return PyI(STEP)
            return Opaque(("ic[]", getattr(i, "s", "?")))

    class IdxCols:
        tracked = False
        n = z3.Int("n_index_columns")

        def truth(self, eng, p):
            return self.n > 0

        def len(self, eng, p):
            return PyI(self.n)

        def getitem(self, eng, p, i, node):
            return Custom(IC())

    class OList:
        tracked = False

        def __init__(self, name):
            self.name, self.n = name, z3.Int("n_" + name)

        def truth(self, eng, p):
            return self.n > 0

        def for_loop(self, eng, p, st):
            return abstract_for(eng, p, st, self, self.n, lambda e, q, k: Opaque((self.name, "item", next(e.counter))))

    idx = Custom(IdxCols())

    class MD:
        tracked = False

        def getitem(self, eng, p, i, node):
            if isinstance(i, Str) and i.s == "index_columns":
                return idx
            if isinstance(i, Str):
                return Custom(OList("md_" + i.s))
            raise Unsupported("pandas_metadata[...]")

        def call_method(self, eng, p, name, args, kw, node):
            if name == "get" and args and isinstance(args[0], Str):
                if args[0].s == "index_columns":
                    return [(p, idx)]
                return [(p, Custom(OList("md_" + args[0].s)))]
            raise Unsupported("pandas_metadata." + name)

    def h_rangeindex(eng, q, args, kw, node):
        vals = dict(zip(("start", "stop", "step"), args))
        vals.update(kw)
        if not all(k in vals and isinstance(vals[k], (PyI, PyB)) for k in ("start", "stop", "step")):
            raise Unsupported("RangeIndex(...) with non-integer arguments")
        a, b, s = (eng.as_int(vals[k]) for k in ("start", "stop", "step"))
        ln = eng.fresh_int("n_labels")
        q.pc.append(range_len(a, b, s, ln))
        eng.oblige(q, "rangeindex.valid_step", "post", s != 0, node, note="RangeIndex step must not be 0 (pandas raises)")
        eng.oblige(q, "rangeindex.length", "post", ln == size, node,
                   note="the regenerated RangeIndex has exactly `size` labels (else pandas raises Length mismatch / rows are lost)")
        q.ghost["rangeindex"] = q.ghost.get("rangeindex", 0) + 1
        q.ghost["ri_model"] = (a, b, s, ln)
        return [(q, Opaque(("rangeindex", next(eng.counter))))]

    p = Path()
    p.pc += [size >= 0, STEP != 0, IdxCols.n >= 0]
    p.ghost["attrs"] = {("pf0", "has_pandas_metadata"): PyB(True), ("pf0", "pandas_metadata"): Custom(MD())}
    p.ghost["writes"] = []
    eng = Eng6(funcs=funcs, handlers=dict(BASE_HANDLERS, RangeIndex=h_rangeindex), opaque_calls=True)
    outs = eng.run(fn, p, [Custom(PF("pf0")), PyI(size), Opaque("columns"), Opaque("categories"), NONE], {"dtypes": NONE})
    for ob in eng.oblig:
        st, be, secs, m = backends.discharge(ob, timeout)
        nm = ob.name[len("ParquetFile."):] if ob.name.startswith("ParquetFile.") else ob.name
        mdl = None
        if m is not None:
            mdl = {"size": backends.model_value(m, size), "stored_start": backends.model_value(m, START),
                   "stored_step": backends.model_value(m, STEP), "z3_model": str(m)[:300]}
        res.add(nm, st, mdl, secs, be, ob.note or ob.kind)
    n_ri = 0
    for q in outs:
        if q.ctl[0] != "ret" or not q.ghost.get("rangeindex"):
            continue
        n_ri += 1
        v = q.ctl[1]
        df = v.items[0] if isinstance(v, Tup) and v.items else None
        ix = q.opq.get(("attr", df.tag, "index")) if isinstance(df, Opaque) else None
        ok = isinstance(ix, Opaque) and isinstance(ix.tag, tuple) and ix.tag[0] == "rangeindex" and q.ghost["rangeindex"] == 1
        res.add("rangeindex.assigned_to_frame", PROVED if ok else REFUTED, None, 0.0, "trace", "the regenerated index is set on the returned frame")
    if n_ri == 0:
        res.add("rangeindex.length", UNKNOWN, None, 0.0, "engine", "no path of pre_allocate builds a RangeIndex")
    else:
        ctx.vacuity["covers"] += n_ri
    # vacuity: the assumed contract of range() is satisfiable, and a wrong stop is refuted
    a, n, s, ln = z3.Ints("a n s ln")
    if solve([n >= 0, s != 0, range_len(a, a + n * s, s, ln)], 3000)[0] == REFUTED:
        ctx.vacuity["requires_sat"] += 1
    if solve([n >= 0, s != 0, range_len(a, a + n * s + 1, s, ln), ln != n], 3000)[0] == REFUTED:
        ctx.vacuity["must_fail_sat"] += 1
    else:
        ctx.engine_error("rangeindex: must-fail obligation (stop + 1) was not refuted")
    return res


# =================================================================================================
# frame check on the ast of methods that are used through their contracts only
# =================================================================================================
HELPERS = ("_get_index", "_columns_from_filters", "_read_partitions", "_dtypes", "check_categories", "read_row_group_file",
           "pre_allocate", "_column_filter", "row_group_filename", "count", "head", "to_pandas", "info", "__len__")


def run_frame(ctx, funcs):
    res = Results()
    bad = []
    for h in HELPERS:
        f = funcs.get("ParquetFile." + h)
        if f is None:
            continue
        for n in ast.walk(f.tree):
            if isinstance(n, ast.Attribute) and isinstance(n.ctx, (ast.Store, ast.Del)) and n.attr in ("row_groups", "fmd"):
                bad.append(f"{h} L{n.lineno}: {ast.unparse(n)}")
            if isinstance(n, ast.Call) and isinstance(n.func, ast.Attribute) and n.func.attr in MUTATORS and \
                    isinstance(n.func.value, ast.Attribute) and n.func.value.attr == "row_groups":
                bad.append(f"{h} L{n.lineno}: {ast.unparse(n.func)}")
    res.add("frame.helpers_do_not_assign_row_groups", PROVED if not bad else REFUTED, {"stores": bad} if bad else None, 0.0, "ast",
            "read-side methods never store to .row_groups / .fmd nor mutate a row_groups list")
    return res


# =================================================================================================
UNDER_CONTRACT = ("to_pandas", "head", "__getitem__", "__setstate__", "_set_attrs", "count", "__len__", "info", "pre_allocate")


def check(ctx, timeout):
    funcs, tree, src = parse_module("fastparquet/api.py")
    for m in UNDER_CONTRACT:
        f = funcs.get("ParquetFile." + m)
        if f is not None:
            ctx.function("api.ParquetFile." + m, f.sha, f.report)
    out = []

    def guarded(label, fn, *a):
        try:
            out.append(fn(*a))
        except Unsupported as ex:
            r = Results()
            r.add(label + ".out_of_reach", UNKNOWN, None, 0.0, "engine", "engine cannot lower this source: " + str(ex))
            out.append(r)
        except (ProofScriptError, KeyError, AttributeError, TypeError, IndexError, z3.Z3Exception) as ex:
            import os
            if os.environ.get("C06_DEBUG"):
                raise
            r = Results()
            r.add(label + ".out_of_reach", UNKNOWN, None, 0.0, "engine", f"proof script does not fit this source: {type(ex).__name__}: {ex}")
            out.append(r)
    guarded("prefix_sum", run_lemma, ctx, timeout)
    for mode in MODES:
        guarded(f"to_pandas[{mode}]", run_to_pandas, ctx, funcs, timeout, mode)
    guarded("head", run_head, ctx, funcs, timeout)
    for kind in ("int", "slice"):
        guarded(f"getitem[{kind}]", run_getitem, ctx, funcs, timeout, kind)
    guarded("set_attrs", run_set_attrs, ctx, funcs, timeout)
    guarded("count", run_counts, ctx, funcs, timeout)
    guarded("rangeindex", run_rangeindex, ctx, funcs, timeout)
    guarded("frame", run_frame, ctx, funcs)
    return out
