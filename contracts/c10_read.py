"""C10 / C12 - cencoding.read_thrift and read_list at the byte level (Thrift compact protocol), from the .pyx source.

read_thrift(data): the `while True` field loop is executed for ONE ARBITRARY iteration: the loop-carried state (`id`, `hasi32`,
`hasi64`, `i32`, the cursor, the dict built so far) is arbitrary under the invariant stated below, the input buffer holds, at the
cursor, one WELL-FORMED field of a given compact type (header byte with a short-form id delta 1..15, then the payload the
compact protocol prescribes - exactly the bytes `write_thrift.value_bytes[kind]` proves the writer emits).  Per compact type t:
   read_thrift.field_id[t]       exactly one item is stored, under key  id + delta
   read_thrift.value[t]          the stored value is the one the bytes encode: TRUE/FALSE; zigzag^-1(ULEB128) for i16/i32/i64; the
                                 signed byte for i8; PyBytes_FromStringAndSize(pointer at payload, declared length) for BINARY;
                                 read_list / read_thrift called at the cursor right after the header for LIST / STRUCT
   read_thrift.cursor[t]         the cursor is advanced by exactly header + payload (so the next field starts where this one ends)
   read_thrift.width_marker_step[t]   hasi32 / hasi64 / the i32 id list are updated exactly for t == 5 / t == 6 (invariant kept)
   read_thrift.input_not_written[t]
   safety (C12): every load lies inside the input buffer GIVEN the field is well-formed and lies inside the buffer
   read_thrift.stop             a 0x00 byte ends the loop with the cursor right after it
   read_thrift.width_marker_roundtrip   on exit, under the invariant: for every integer field f read with wire type 5 or 6, the
                                 marker stored in the result ("i32" / "i32list") makes write_thrift choose the SAME wire type again
                                 (the rule write_thrift.header[int] proves the writer applies)
The DOUBLE branch (t == 7) is not posed: no struct reachable from FileMetaData / PageHeader in parquet.thrift has a double field
(contracts/c10_tables.py checks the tables against the IDL); natively the branch converts ONE byte to double - recorded as a note.

read_list(data): header byte (size in the high nibble, 0xF = ULEB128 size follows; element type in the low nibble), then the element
loop for one arbitrary iteration:
   read_list.size[short|long]    the loop runs `size` times with size = high nibble / the ULEB128 that follows
   read_list.elem_value[int|str|struct] / read_list.elem_cursor[...]   as for struct fields
   read_list.result_is_elements  what is returned is the list the loop appended to, nothing else appended
write_list(data, output): header + per-element bytes for int / bytes / str / struct lists and the empty list:
   write_list.header[kind][short|long], write_list.elem_bytes[kind], write_list.elem_cursor[kind], write_list.frame[kind]
The lifting from per-field / per-element lemmas to whole structures (structural induction) is argued, not mechanised.
"""
import z3

from vc import backends
from vc.symexec import (Engine, Path, CI, Ptr, PyI, PyB, Ref, View, LoopSpec, Unsupported, NONE, NoneV, Opaque, Custom, Str, Tup)
from vlib.common import PROVED, REFUTED, UNKNOWN
from . import cy
from .kernels import KResults, post, mv, _h_memcpy
from .c10_thrift import uleb_bytes, uleb_len64, zigzag64, PyObj
from .util import solve

ASSUMED = [
    "PyBytes_FromStringAndSize(p, n) / PyUnicode_DecodeUTF8(p, n, 'ignore') read exactly the n bytes at p (CPython API contract)",
    "dict / list of CPython: `out[k] = v` stores one item, list.append adds one element at the end",
    "the field id delta is in short form (1..15): write_thrift.header proves the writer only emits that; long-form ids are not decoded "
    "by read_thrift at all (recorded as a limitation, parquet.thrift has no struct with a gap of more than 15 ids)",
]

Read5 = z3.Function("ReadAsI32", z3.IntSort(), z3.BoolSort())
Read6 = z3.Function("ReadAsI64", z3.IntSort(), z3.BoolSort())

RTYPES = {"true": 1, "false": 2, "i8": 3, "i16": 4, "i32": 5, "i64": 6, "binary": 8, "list": 9, "struct": 12}


class DictRec:
    """the dict being built: records the stores"""
    tracked = False

    def __init__(self):
        self.sets = []

    def setitem(self, eng, p, k, v, node=None):
        p.ghost.setdefault("dict_sets", [])
        p.ghost["dict_sets"] = p.ghost["dict_sets"] + [(k, v)]
        return [p]

    def isinstance(self, eng, p, tn):
        return z3.BoolVal("dict" in tn)

    def is_none(self, eng, p):
        return z3.BoolVal(False)


class IdList:
    """the `i32` list of field ids: membership as a predicate, versioned by append; may be None"""
    tracked = False
    n = 0

    def __init__(self, isnone, member):
        self.isnone, self.member = isnone, member

    def is_none(self, eng, p):
        return self.isnone

    def call_method(self, eng, p, name, args, kw, node):
        if name == "append":
            x = eng.as_int(args[0], p)
            old = self.member
            self.member = lambda f, old=old, x=x: z3.Or(old(f), f == x)
            p.ghost["i32_appends"] = p.ghost.get("i32_appends", []) + [x]
            return [(p, NONE)]
        raise Unsupported("list." + name)


class ListRec:
    """the result list of read_list"""
    tracked = False

    def call_method(self, eng, p, name, args, kw, node):
        if name == "append":
            p.ghost["appends"] = p.ghost.get("appends", []) + [args[0]]
            return [(p, NONE)]
        raise Unsupported("list." + name)

    def is_none(self, eng, p):
        return z3.BoolVal(False)


def havoc_assigned(eng, st, q, skip=()):
    """every local the loop body assigns (Name targets, incl. for-targets and augmented assignments) becomes arbitrary - by kind of
    its current value; locals named in `skip` are given their arbitrary value by the caller"""
    import ast as _ast
    names = set()
    for n in _ast.walk(_ast.Module(body=list(st.body), type_ignores=[])):
        if isinstance(n, (_ast.Assign, _ast.AugAssign, _ast.AnnAssign, _ast.For)):
            tg = n.targets if isinstance(n, _ast.Assign) else [n.target]
            stack = list(tg)
            while stack:
                t = stack.pop()
                if isinstance(t, _ast.Name):
                    names.add(t.id)
                elif isinstance(t, (_ast.Tuple, _ast.List)):
                    stack += list(t.elts)
                elif isinstance(t, _ast.Starred):
                    stack.append(t.value)          # attribute / subscript targets mutate an object: the caller havocs those
    for nm in sorted(names):
        if nm in skip or nm not in q.env:
            continue
        v = q.env[nm]
        if isinstance(v, (NoneV,)) or v is NONE:
            continue                # declared, not yet assigned before the loop: stays unassigned (a read would be reported by the engine)
        q.env[nm] = eng.havoc_like(v, nm + "_havoc", q)


def _same_int64(eng, p, v, v64):
    """the stored value equals the int64 v64: compared as bit-vectors when the code kept a 64-bit C integer (stable for z3; the
    BV2Int form of the same statement flips between 0.01 s and a timeout), else as integers"""
    if isinstance(v, CI) and v.bits == 64:
        return v.bv == v64
    return _sval(eng, p, v) == z3.BV2Int(v64, is_signed=True)


def _sval(eng, p, v):
    """signed integer value of whatever the code stored"""
    if isinstance(v, CI):
        return eng.ci_int(v)
    return eng.as_int(v, p)


def _mk_handlers(calls):
    def h_bytes(eng, p, args, kw, node):
        ptr, n = args[0], args[1]
        if not isinstance(ptr, Ptr):
            raise Unsupported("PyBytes_FromStringAndSize of non-pointer")
        nn = eng.as_int(n, p)
        # the API reads n bytes at ptr: they must lie inside the region (C12)
        eng.oblige(p, "read_thrift.bytes_inside_buffer", "safety", z3.And(nn >= 0, ptr.off >= 0, ptr.off + nn <= p.rsize[ptr.region]), node,
                   "PyBytes_FromStringAndSize / PyUnicode_DecodeUTF8 read [ptr, ptr+n) inside the input buffer")
        return [(p, Custom(PyObj("bytes", region=ptr.region, off=ptr.off, n=nn)))]

    def h_rec(name):
        def h(eng, p, args, kw, node):
            calls.append((name, cy.loc(p, "inp")))
            return [(p, Custom(PyObj("nested", what=name, at=cy.loc(p, "inp"))))]
        return h

    def h_list(eng, p, args, kw, node):
        if args:
            raise Unsupported("list(x)")
        return [(p, Custom(IdList(z3.BoolVal(False), lambda f: z3.BoolVal(False))))]

    def h_print(eng, p, args, kw, node):
        p.ghost["printed"] = True
        return [(p, NONE)]
    return {"read_unsigned_var_int": h_varint, "PyBytes_FromStringAndSize": h_bytes, "PyUnicode_DecodeUTF8": h_bytes, "read_list": h_rec("read_list"), "list": h_list,
            "print": h_print}


def varint_lemma(timeout):
    """read_unsigned_var_int on a buffer holding the minimal ULEB128 of X at the cursor returns X and advances by its length; posed per
    length (10 cases) on the real source - used as the callee contract (cut) inside read_thrift / read_list"""
    res = KResults()
    X = z3.BitVec("X", 64)
    for j in range(1, 11):
        eng = cy.engine(loops={("read_unsigned_var_int", 0): LoopSpec("unroll", 10)})
        p = Path()
        f = cy.new_io(p, "f")
        loc0, n, mem0 = cy.loc(p, "f"), cy.nbytes(p, "f"), p.mem["f"]
        p.pc += [uleb_len64(X) == j, uleb_bytes(mem0, loc0, X, z3.IntVal(j)), loc0 + j <= n]
        mf = lambda m: {"X": mv(m, X), "loc": mv(m, loc0), "nbytes": mv(m, n)}
        outs = eng.run("read_unsigned_var_int", p, [f])
        res.take_engine(eng, f"read_unsigned_var_int[len={j}].", timeout, mf)
        nret = 0
        for q in outs:
            if q.ctl[0] != "ret":
                continue
            nret += 1
            post(res, f"read_unsigned_var_int.decodes_uleb[len={j}]", q.pc, z3.And(q.ctl[1].bv == X, cy.loc(q, "f") == loc0 + j), timeout,
                 "buffer holds the minimal ULEB128 of X at the cursor => result == X and the cursor advances by its length", mf)
        if nret == 0:
            res.addk(f"read_unsigned_var_int.decodes_uleb[len={j}]", "functional", UNKNOWN, None, 0.0, "engine", "no returning path")
    return res


def h_varint(eng, p, args, kw, node):
    """read_unsigned_var_int by its contract (varint_lemma): requires the ghost fact `ULEB128 of X (L bytes) at the cursor`"""
    facts = p.ghost.get("uleb_facts", [])
    io = args[0]
    name = io.oid if isinstance(io, Ref) else "inp"
    cur = cy.loc(p, name)
    if not facts:
        raise Unsupported("read_unsigned_var_int: no ULEB fact registered (contract not applicable)")
    at, X, L = facts[0][:3]
    iv = facts[0][3] if len(facts[0]) > 3 else None
    p.ghost["uleb_facts"] = facts[1:]
    eng.oblige(p, "read_unsigned_var_int.called_at_the_varint", "pre", cur == at, node,
               "precondition of the callee contract: the cursor is at the first byte of the ULEB128")
    k = next(eng.counter)
    nl = CI.var(f"loc_after_varint!{k}", 32, False)
    p.heap[name] = dict(p.heap[name], loc=nl)
    p.pc += [nl.range_constraint(), nl.iv == at + L]
    return [(p, CI(X, 64, False, iv=iv, rng=(0, 2 ** 31 - 1)) if iv is not None else CI(X, 64, False))]


def field_pre(kind, mem, loc, nbytes, v64, blen, delta):
    """the buffer holds one well-formed field of this kind at loc: (constraints, payload length term)"""
    t = RTYPES[kind]
    hdr = z3.Int2BV(delta * 16 + t, 8)
    cs = [delta >= 1, delta <= 15, z3.Select(mem, loc) == hdr]
    facts = []
    if kind in ("true", "false", "list", "struct"):
        plen = z3.IntVal(0)
    elif kind == "i8":
        plen = z3.IntVal(1)
    elif kind in ("i16", "i32", "i64"):
        zz = zigzag64(v64)
        L = uleb_len64(zz)
        cs += [uleb_bytes(mem, loc + 1, zz, L)]
        facts.append((loc + 1, zz, L))
        bits = {"i16": 16, "i32": 32, "i64": 64}[kind]
        if bits < 64:
            cs += [v64 >= -(1 << (bits - 1)), v64 <= (1 << (bits - 1)) - 1]
        plen = L
    else:
        lb = z3.Int2BV(blen, 64)
        L = uleb_len64(lb)
        cs += [blen >= 0, blen < 2 ** 31, uleb_bytes(mem, loc + 1, lb, L)]
        facts.append((loc + 1, lb, L, blen))
        plen = L + blen
    cs += [loc + 1 + plen <= nbytes]
    return cs, plen, facts


def read_thrift_kind(kind, timeout):
    res = KResults()
    tag = f"[{kind}]"
    calls = []
    v64 = z3.BitVec("int_value", 64)
    blen = z3.Int("payload_len")
    delta = z3.Int("id_delta")
    fS = z3.Int("f_skolem")
    state = {}

    def hook(eng, st, p):
        q = p.fork()
        idv = cy.arg("prev_field_id", "char", q)
        q.env["id"] = idv
        h32, h64 = z3.Bool("hasi32_in"), z3.Bool("hasi64_in")
        q.env["hasi32"], q.env["hasi64"] = CI(z3.If(h32, z3.BitVecVal(1, 32), z3.BitVecVal(0, 32)), 32, True), \
            CI(z3.If(h64, z3.BitVecVal(1, 32), z3.BitVecVal(0, 32)), 32, True)
        isnone = z3.Bool("i32_is_none_in")
        InL = z3.Function("InI32List_in", z3.IntSort(), z3.BoolSort())
        lst = IdList(isnone, lambda f: InL(f))
        q.env["i32"] = Custom(lst)
        q.env["out"] = Custom(DictRec())
        havoc_assigned(eng, st, q, skip=("id", "hasi32", "hasi64", "i32", "out"))
        loc0, mem0 = cy.loc(q, "inp"), q.mem["inp"]
        inv = lambda f, h32=h32, h64=h64, isnone=isnone, InL=InL: z3.And(
            z3.Implies(Read5(f), z3.And(h32, InL(f))), z3.Implies(Read6(f), h64), z3.Implies(InL(f), Read5(f)),
            z3.Implies(isnone, z3.Not(InL(f))), z3.Implies(isnone, z3.Not(h32)),
            z3.Implies(z3.Or(Read5(f), Read6(f)), f <= idv.iv), z3.Not(z3.And(Read5(f), Read6(f))))
        state["inv_in"] = inv
        if kind == "stop":
            q.pc += [z3.Select(mem0, loc0) == 0, loc0 + 1 <= cy.nbytes(q, "inp")]
            plen = z3.IntVal(0)
        else:
            cs, plen, facts = field_pre(kind, mem0, loc0, cy.nbytes(q, "inp"), v64, blen, delta)
            q.pc += cs + [idv.iv >= 0, idv.iv + delta <= 127]
            q.ghost["uleb_facts"] = facts
        outs = eng.block(st.body, [q])
        state.setdefault("bodies", []).append(dict(id0=idv.iv, loc0=loc0, mem0=mem0, plen=plen, outs=outs, h32=h32, h64=h64, lst=lst,
                                                   InL=InL, isnone=isnone))
        # exit of the loop: arbitrary state under the invariant
        ex = p.fork()
        k = next(eng.counter)
        locx = CI.var(f"loc_at_exit!{k}", 32, False)
        ex.heap["inp"] = dict(ex.heap["inp"], loc=locx)
        ex.pc += [locx.range_constraint(), locx.iv <= cy.nbytes(ex, "inp")]
        xh32, xh64 = z3.Bool("hasi32_exit"), z3.Bool("hasi64_exit")
        ex.env["hasi32"] = CI(z3.If(xh32, z3.BitVecVal(1, 32), z3.BitVecVal(0, 32)), 32, True)
        ex.env["hasi64"] = CI(z3.If(xh64, z3.BitVecVal(1, 32), z3.BitVecVal(0, 32)), 32, True)
        xnone = z3.Bool("i32_is_none_exit")
        XInL = z3.Function("InI32List_exit", z3.IntSort(), z3.BoolSort())
        xl = IdList(xnone, lambda f: XInL(f))
        ex.env["i32"] = Custom(xl)
        ex.env["out"] = Custom(DictRec())
        ex.env["id"] = cy.arg("id_exit", "char", ex)
        ex.ghost["exit"] = dict(h32=xh32, h64=xh64, isnone=xnone, InL=XInL, lst=xl)
        return [ex]

    loops = {("read_thrift", 0): LoopSpec("hook", inv=hook)}
    eng = cy.engine(loops=loops, handlers=_mk_handlers(calls))
    real_run = eng.run

    def run(name, p, args, kwargs=None, closure=None):
        if name == "read_thrift" and eng.cur_func == "read_thrift":
            calls.append(("read_thrift", cy.loc(p, "inp")))
            p.ctl = ("ret", Custom(PyObj("nested", what="read_thrift", at=cy.loc(p, "inp"))))
            return [p]
        return real_run(name, p, args, kwargs, closure)
    eng.run = run
    p = Path()
    inp = cy.new_io(p, "inp")
    mf = lambda m: {"kind": kind, "prev_id": mv(m, state["bodies"][0]["id0"]) if state.get("bodies") else None,
                    "delta": mv(m, delta), "int_value": mv(m, v64),
                    "byte_after_header": mv(m, z3.Select(state["bodies"][0]["mem0"], state["bodies"][0]["loc0"] + 1)) if state.get("bodies") else None, "payload_len": mv(m, blen),
                    "loc": mv(m, state["bodies"][0]["loc0"]) if state.get("bodies") else None}
    try:
        outs = real_run("read_thrift", p, [inp])
    except Unsupported as ex:
        res.addk(f"read_thrift{tag}.out_of_reach", "functional", UNKNOWN, None, 0.0, "engine", str(ex))
        return res
    res.take_engine(eng, f"read_thrift{tag}.", timeout, mf)
    n_body = 0
    for B in state.get("bodies", []):
        id0, loc0, mem0, plen = B["id0"], B["loc0"], B["mem0"], B["plen"]
        for b in B["outs"]:
            if kind == "stop":
                if b.ctl != "break":
                    post(res, "read_thrift.stop", b.pc, z3.BoolVal(False), timeout, "a 0x00 byte must end the field loop" + " [this path ends with " + str(b.ctl) + ": it must be infeasible]", mf)
                    continue
                n_body += 1
                post(res, "read_thrift.stop", b.pc, z3.And(cy.loc(b, "inp") == loc0 + 1, z3.BoolVal(not b.ghost.get("dict_sets"))), timeout,
                     "a 0x00 byte ends the loop, cursor right after it, nothing stored", mf)
                continue
            if b.ctl not in (None, "continue"):
                post(res, f"read_thrift.field_id{tag}", b.pc, z3.BoolVal(False), timeout, "a well-formed field must not end the loop / raise" + " [this path ends with " + str(b.ctl) + ": it must be infeasible]", mf)
                continue
            n_body += 1
            b.pc = list(b.pc) + list(b.axioms)
            sets = b.ghost.get("dict_sets", [])
            one = len(sets) == 1 and not b.ghost.get("printed")
            key = eng.as_int(sets[0][0], b) if one else None
            post(res, f"read_thrift.field_id{tag}", b.pc, z3.And(z3.BoolVal(one), key == id0 + delta) if one else z3.BoolVal(False), timeout,
                 "exactly one item stored, under key id + delta (no 'corrupted data' print)", mf)
            if one:
                val = sets[0][1]
                goal = z3.BoolVal(False)
                try:
                    if kind in ("true", "false"):
                        goal = eng.truth(val, b) == z3.BoolVal(kind == "true") if not isinstance(val, PyB) else \
                            (val.z if hasattr(val, "z") else z3.BoolVal(bool(val.b))) == z3.BoolVal(kind == "true")
                    elif kind in ("i16", "i32", "i64"):
                        goal = _same_int64(eng, b, val, v64)
                    elif kind == "i8":
                        sb = z3.Select(mem0, loc0 + 1)
                        goal = _sval(eng, b, val) == z3.BV2Int(sb, is_signed=True)
                    elif kind == "binary":
                        h = getattr(val, "h", None)
                        L = uleb_len64(z3.Int2BV(blen, 64))
                        goal = z3.And(h.region == "inp", h.off == loc0 + 1 + L, h.n == blen) if isinstance(h, PyObj) and h.kind == "bytes" \
                            else z3.BoolVal(False)
                        if isinstance(h, PyObj) and h.kind == "bytes":
                            goal = z3.And(z3.BoolVal(h.region == "inp"), h.off == loc0 + 1 + L, h.n == blen)
                    else:
                        want = "read_list" if kind == "list" else "read_thrift"
                        h = getattr(val, "h", None)
                        ok = isinstance(h, PyObj) and h.kind == "nested" and h.what == want and len(calls) >= 1
                        goal = h.at == loc0 + 1 if ok else z3.BoolVal(False)
                except Unsupported as ex:
                    goal = z3.BoolVal(False)
                post(res, f"read_thrift.value{tag}", b.pc, goal, timeout, "the stored value is the one the bytes of this field encode", mf)
            if kind in ("list", "struct"):
                # cursor: the nested reader continues from right after the header; its own contract advances the cursor
                post(res, f"read_thrift.cursor{tag}", b.pc, cy.loc(b, "inp") == loc0 + 1, timeout,
                     "the nested reader starts right after the header byte and this iteration moves the cursor no further", mf)
            else:
                post(res, f"read_thrift.cursor{tag}", b.pc, cy.loc(b, "inp") == loc0 + 1 + plen, timeout,
                     "cursor advanced by exactly header + payload", mf)
            post(res, f"read_thrift.input_not_written{tag}", b.pc, b.mem["inp"] == mem0, timeout, "the input buffer is not written", mf)
            # width-marker invariant step
            h32o = eng.truth(b.env["hasi32"], b)
            h64o = eng.truth(b.env["hasi64"], b)
            lst = b.env["i32"].h if isinstance(b.env["i32"], Custom) else None
            if lst is None:
                res.addk(f"read_thrift.width_marker_step{tag}", "functional", UNKNOWN, None, 0.0, "engine", "i32 is not a list value")
                continue
            idn = id0 + delta
            r5 = lambda f: z3.If(f == idn, z3.BoolVal(kind == "i32"), Read5(f))
            r6 = lambda f: z3.If(f == idn, z3.BoolVal(kind == "i64"), Read6(f))
            inv_out = z3.And(z3.Implies(r5(fS), z3.And(h32o, lst.member(fS))), z3.Implies(r6(fS), h64o), z3.Implies(lst.member(fS), r5(fS)),
                             z3.Implies(lst.isnone, z3.Not(lst.member(fS))), z3.Implies(lst.isnone, z3.Not(h32o)),
                             z3.Implies(z3.Or(r5(fS), r6(fS)), fS <= idn), z3.Not(z3.And(r5(fS), r6(fS))))
            f2 = z3.Int("f_inst")
            hyp = [state["inv_in"](fS), state["inv_in"](idn)]
            post(res, f"read_thrift.width_marker_step{tag}", list(b.pc) + hyp, inv_out, timeout,
                 "hasi32 / hasi64 / the i32 id list record exactly the integer fields read with wire type 5 / 6 (loop invariant kept)", mf)
    if n_body == 0:
        res.addk(f"read_thrift.field_id{tag}" if kind != "stop" else "read_thrift.stop", "functional", UNKNOWN, None, 0.0, "engine",
                 "no path through the loop body")
    if kind == "stop":
        # exit: the marker stored in the result vs the widths read
        n_exit = 0
        for q in outs:
            if q.ctl[0] != "ret":
                continue
            X = q.ghost.get("exit")
            if X is None:
                continue
            n_exit += 1
            sets = q.ghost.get("dict_sets", [])
            has_i32 = has_list = z3.BoolVal(False)
            list_is_i32 = True
            for k_, v_ in sets:
                if isinstance(k_, Str) and k_.s == "i32":
                    has_i32 = z3.BoolVal(True)
                elif isinstance(k_, Str) and k_.s == "i32list":
                    has_list = z3.BoolVal(True)
                    list_is_i32 = isinstance(v_, Custom) and v_.h is X["lst"]
                else:
                    list_is_i32 = False
            inv = z3.And(z3.Implies(Read5(fS), z3.And(X["h32"], X["InL"](fS))), z3.Implies(Read6(fS), X["h64"]),
                         z3.Implies(X["InL"](fS), Read5(fS)), z3.Not(z3.And(Read5(fS), Read6(fS))))
            declared32 = z3.If(has_list, X["InL"](fS), has_i32)
            goal = z3.And(z3.BoolVal(bool(list_is_i32)), z3.Implies(z3.Or(Read5(fS), Read6(fS)), declared32 == Read5(fS)))
            post(res, "read_thrift.width_marker_roundtrip", list(q.pc) + [inv], goal, timeout,
                 "for every integer field read with wire type 5 / 6 the marker stored in the result ('i32' / 'i32list') makes "
                 "write_thrift choose the same wire type again; only those two marker keys are added after the loop", mf)
            rv = q.ctl[1]
            post(res, "read_thrift.returns_the_dict", q.pc, z3.BoolVal(isinstance(rv, Custom) and isinstance(rv.h, DictRec)), timeout,
                 "the dict built by the loop is what is returned", mf)
        if n_exit == 0:
            res.addk("read_thrift.width_marker_roundtrip", "functional", UNKNOWN, None, 0.0, "engine", "no returning path")
    return res


# =================================================================================================
# read_list
# =================================================================================================
def read_list_kind(kind, form, timeout):
    """kind in int5 | int6 | str | struct; form in short | long"""
    res = KResults()
    tag = f"[{kind}][{form}]"
    calls = []
    typ = {"int5": 5, "int6": 6, "str": 8, "struct": 12}[kind]
    v64 = z3.BitVec("elem_value", 64)
    blen = z3.Int("elem_len")
    n_el = z3.Int("list_size")
    state = {}

    def hook(eng, st, p):
        it = st.iter
        hi = eng.as_int(eng.ev1(it.args[0], p), p)
        state["trip"] = hi
        state["loc_loop"] = cy.loc(p, "inp")
        state["pc_loop"] = list(p.pc)
        q = p.fork()
        k = next(eng.counter)
        locq = CI.var(f"loc_iter!{k}", 32, False)
        q.heap["inp"] = dict(q.heap["inp"], loc=locq)
        q.pc += [locq.range_constraint(), locq.iv <= cy.nbytes(q, "inp"), hi >= 1]
        havoc_assigned(eng, st, q, skip=("out",))
        loc0, mem0 = locq.iv, q.mem["inp"]
        if kind in ("int5", "int6"):
            zz = zigzag64(v64)
            L = uleb_len64(zz)
            q.pc += [uleb_bytes(mem0, loc0, zz, L), loc0 + L <= cy.nbytes(q, "inp")]
            q.ghost["uleb_facts"] = [(loc0, zz, L)]
            plen = L
        elif kind == "str":
            lb = z3.Int2BV(blen, 64)
            L = uleb_len64(lb)
            q.pc += [blen >= 0, blen < 2 ** 31, uleb_bytes(mem0, loc0, lb, L), loc0 + L + blen <= cy.nbytes(q, "inp")]
            q.ghost["uleb_facts"] = [(loc0, lb, L, blen)]
            plen = L + blen
        else:
            plen = z3.IntVal(0)
        n0 = len(q.ghost.get("appends", []))
        outs = eng.block(st.body, [q])
        state.setdefault("bodies", []).append(dict(loc0=loc0, mem0=mem0, plen=plen, outs=outs, n0=n0))
        ex = p.fork()
        k = next(eng.counter)
        locx = CI.var(f"loc_at_exit!{k}", 32, False)
        ex.heap["inp"] = dict(ex.heap["inp"], loc=locx)
        ex.pc += [locx.range_constraint(), locx.iv <= cy.nbytes(ex, "inp")]
        return [ex]

    loops = {("read_list", i): LoopSpec("hook", inv=hook) for i in range(3)}
    hs = _mk_handlers(calls)

    def h_rt(eng, p, args, kw, node):
        calls.append(("read_thrift", cy.loc(p, "inp")))
        return [(p, Custom(PyObj("nested", what="read_thrift", at=cy.loc(p, "inp"))))]
    hs["read_thrift"] = h_rt
    eng = cy.engine(loops=loops, handlers=hs)

    class _L(Engine):
        pass
    # `out = []` must become the recording list
    orig_list = eng.e_List if hasattr(eng, "e_List") else None

    def e_List(node, p):
        if not node.elts:
            return [(p, Custom(ListRec()))]
        return orig_list(node, p)
    eng.e_List = e_List
    p = Path()
    inp = cy.new_io(p, "inp")
    loc0, mem0, nb = cy.loc(p, "inp"), p.mem["inp"], cy.nbytes(p, "inp")
    if form == "short":
        p.pc += [n_el >= 0, n_el <= 14, z3.Select(mem0, loc0) == z3.Int2BV(n_el * 16 + typ, 8), loc0 + 1 <= nb]
        hlen = z3.IntVal(1)
    else:
        lb = z3.Int2BV(n_el, 64)
        L = uleb_len64(lb)
        p.pc += [n_el >= 15, n_el < 2 ** 31, z3.Select(mem0, loc0) == z3.BitVecVal(0xF0 | typ, 8), uleb_bytes(mem0, loc0 + 1, lb, L),
                 loc0 + 1 + L <= nb]
        p.ghost["uleb_facts"] = [(loc0 + 1, lb, L, n_el)]
        hlen = 1 + L
    mf = lambda m: {"kind": kind, "form": form, "list_size": mv(m, n_el), "loc": mv(m, loc0), "elem_value": mv(m, v64), "elem_len": mv(m, blen)}
    try:
        outs = eng.run("read_list", p, [inp])
    except Unsupported as ex:
        res.addk(f"read_list{tag}.out_of_reach", "functional", UNKNOWN, None, 0.0, "engine", str(ex))
        return res
    res.take_engine(eng, f"read_list{tag}.", timeout, mf)
    if "trip" in state:
        post(res, f"read_list.size{tag}", state["pc_loop"], z3.And(state["trip"] == n_el, state["loc_loop"] == loc0 + hlen), timeout,
             "the element loop runs `size` times (high nibble, or the ULEB128 after a 0xF nibble) and starts right after the header", mf)
    else:
        res.addk(f"read_list.size{tag}", "functional", UNKNOWN, None, 0.0, "engine", "element loop not reached")
    nb_ = 0
    for B in state.get("bodies", []):
        for b in B["outs"]:
            if b.ctl not in (None, "continue"):
                post(res, f"read_list.elem_value{tag}", b.pc, z3.BoolVal(False), timeout, "a well-formed element must not raise" + " [this path ends with " + str(b.ctl) + ": it must be infeasible]", mf)
                continue
            nb_ += 1
            b.pc = list(b.pc) + list(b.axioms)
            app = b.ghost.get("appends", [])[B["n0"]:]
            one = len(app) == 1
            goal = z3.BoolVal(False)
            if one:
                val = app[0]
                if kind in ("int5", "int6"):
                    goal = _same_int64(eng, b, val, v64)
                elif kind == "str":
                    h = getattr(val, "h", None)
                    if isinstance(h, PyObj) and h.kind == "bytes":
                        goal = z3.And(z3.BoolVal(h.region == "inp"), h.off == B["loc0"] + uleb_len64(z3.Int2BV(blen, 64)), h.n == blen)
                else:
                    h = getattr(val, "h", None)
                    if isinstance(h, PyObj) and h.kind == "nested" and h.what == "read_thrift":
                        goal = h.at == B["loc0"]
            post(res, f"read_list.elem_value{tag}", b.pc, goal, timeout,
                 "exactly one element appended per iteration: the value the element's bytes encode", mf)
            if kind == "struct":
                post(res, f"read_list.elem_cursor{tag}", b.pc, cy.loc(b, "inp") == B["loc0"], timeout,
                     "the nested reader starts at the cursor; the iteration itself moves it no further", mf)
            else:
                post(res, f"read_list.elem_cursor{tag}", b.pc, cy.loc(b, "inp") == B["loc0"] + B["plen"], timeout,
                     "cursor advanced by exactly the element's bytes", mf)
            post(res, f"read_list.input_not_written{tag}", b.pc, b.mem["inp"] == B["mem0"], timeout, "the input buffer is not written", mf)
    if nb_ == 0:
        res.addk(f"read_list.elem_value{tag}", "functional", UNKNOWN, None, 0.0, "engine", "no path through the element loop body")
    n_ret = 0
    for q in outs:
        if q.ctl[0] != "ret":
            continue
        n_ret += 1
        rv = q.ctl[1]
        post(res, f"read_list.result_is_elements{tag}", q.pc,
             z3.BoolVal(isinstance(rv, Custom) and isinstance(rv.h, ListRec) and not q.ghost.get("appends")), timeout,
             "the list the loop appended to is returned; nothing is appended outside the loop", mf)
    if n_ret == 0:
        res.addk(f"read_list.result_is_elements{tag}", "functional", UNKNOWN, None, 0.0, "engine", "no returning path")
    return res


RKINDS = ["true", "false", "i8", "i16", "i32", "i64", "binary", "list", "struct", "stop"]
LKINDS = [(k, f) for k in ("int5", "int6", "str", "struct") for f in ("short", "long")]


# =================================================================================================
# write_list
# =================================================================================================
class ListArg:
    """the `data` list handed to write_list: n elements, all of one kind (what the IDL's list<T> gives)"""
    tracked = False

    def __init__(self, n, first):
        self.n, self.first = n, first

    def len(self, eng, p):
        return PyI(self.n)

    def truth(self, eng, p):
        return self.n != 0

    def getitem(self, eng, p, i, node=None):
        ii = eng.as_int(i, p)
        eng.oblige(p, "write_list.index_in_range", "safety", z3.And(ii >= 0, ii < self.n), node, "data[i] inside the list")
        return self.first

    def isinstance(self, eng, p, tn):
        return z3.BoolVal("list" in tn)

    def is_none(self, eng, p):
        return z3.BoolVal(False)


WL_TYP = {"int": 5, "bytes": 8, "str": 8, "thrift": 12, "dict": 12}


def write_list_kind(kind, form, timeout):
    """kind in int | bytes | str | thrift | dict | empty; form in short | long"""
    res = KResults()
    tag = f"[{kind}][{form}]" if kind != "empty" else "[empty]"
    calls = []
    n_el = z3.Int("list_size")
    blen = z3.Int("elem_len")
    e32 = cy.arg("elem_value", "int")
    state = {}
    if kind == "int":
        first = Custom(PyObj("int", bv=z3.BitVec("first_elem", 64)))
    elif kind == "bytes":
        first = Custom(PyObj("bytes", region="elbytes", n=z3.Int("first_len")))
    elif kind == "str":
        first = Custom(PyObj("str", utf8=PyObj("bytes", region="elbytes", n=z3.Int("first_len"))))
    elif kind == "empty":
        first = NONE
    else:
        first = Custom(PyObj(kind))
    data = Custom(ListArg(n_el, first))

    def elem():
        if kind == "int":
            return e32
        if kind == "bytes":
            return Custom(PyObj("bytes", region="elbytes", n=blen))
        if kind == "str":
            return Custom(PyObj("str", utf8=PyObj("bytes", region="elbytes", n=blen)))
        return Custom(PyObj(kind))

    def hook(eng, st, p):
        it = eng.ev1(st.iter, p)
        state["iter_is_data"] = it is data or (isinstance(it, Custom) and it.h is data.h)
        state["loc_loop"] = cy.loc(p, "out")
        state["pc_loop"] = list(p.pc)
        state["mem_loop"] = p.mem["out"]
        q = p.fork()
        k = next(eng.counter)
        locq = CI.var(f"loc_iter!{k}", 32, False)
        q.heap["out"] = dict(q.heap["out"], loc=locq)
        q.mem["out"] = z3.Const(f"outmem_iter!{k}", cy.MemSort)
        need = {"int": 10, "bytes": 5 + blen, "str": 5 + blen}.get(kind, 0)
        q.pc += [locq.range_constraint(), locq.iv + need <= cy.nbytes(q, "out"), n_el >= 1, blen >= 0, blen < 2 ** 31, e32.range_constraint()]
        havoc_assigned(eng, st, q)
        for r in eng.assign(st.target, elem(), q):
            q = r
        loc0, mem0 = locq.iv, q.mem["out"]
        if "bodies" not in state:
            # the arbitrary iteration does not depend on the header path: hypotheses = the initial precondition only (weaker = sound),
            # so it is executed once
            q.pc = list(state["pre"]) + q.pc[len(p.pc):]
            nc = len(calls)
            outs = eng.block(st.body, [q])
            state["bodies"] = [dict(loc0=loc0, mem0=mem0, outs=outs, ncalls=nc)]
        ex = p.fork()
        k = next(eng.counter)
        locx = CI.var(f"loc_at_exit!{k}", 32, False)
        ex.heap["out"] = dict(ex.heap["out"], loc=locx)
        ex.mem["out"] = z3.Const(f"outmem_exit!{k}", cy.MemSort)
        ex.pc += [locx.range_constraint(), locx.iv <= cy.nbytes(ex, "out")]
        return [ex]

    def h_size(eng, p, args, kw, node):
        o = args[0]
        if isinstance(o, Custom) and getattr(o.h, "kind", "") == "bytes":
            return [(p, PyI(o.h.n))]
        raise Unsupported("PyBytes_GET_SIZE of non-bytes")

    def h_wt(eng, p, args, kw, node):
        calls.append(("write_thrift", cy.loc(p, "out"), args[0]))
        return [(p, NONE)]
    loops = {("write_list", i): LoopSpec("hook", inv=hook) for i in range(4)}
    loops[("encode_unsigned_varint", 0)] = LoopSpec("unroll", 10)
    eng = cy.engine(loops=loops, handlers={"PyBytes_GET_SIZE": h_size, "memcpy": _h_memcpy, "write_thrift": h_wt})
    p = Path()
    out = cy.new_io(p, "out")
    p.mem["elbytes"] = z3.Const("elbytes_mem", cy.MemSort)
    p.rsize["elbytes"] = blen
    loc0, mem0, nb = cy.loc(p, "out"), p.mem["out"], cy.nbytes(p, "out")
    if kind == "empty":
        p.pc += [n_el == 0, loc0 + 1 <= nb]
    elif form == "short":
        p.pc += [n_el >= 1, n_el <= 14, loc0 + 1 <= nb]
    else:
        p.pc += [n_el >= 15, n_el < 2 ** 31, loc0 + 6 <= nb]
    mf = lambda m: {"kind": kind, "form": form, "list_size": mv(m, n_el), "out_loc": mv(m, loc0), "elem_value": mv(m, e32.iv), "elem_len": mv(m, blen)}
    state["pre"] = list(p.pc)
    try:
        outs = eng.run("write_list", p, [data, out])
    except Unsupported as ex:
        res.addk(f"write_list{tag}.out_of_reach", "functional", UNKNOWN, None, 0.0, "engine", str(ex))
        return res
    res.take_engine(eng, f"write_list{tag}.", timeout, mf)
    k = z3.Int("k_skolem")
    if kind == "empty":
        for q in outs:
            if q.ctl[0] != "ret":
                continue
            post(res, "write_list.header[empty]", q.pc, z3.And(z3.Select(q.mem["out"], loc0) == 0, cy.loc(q, "out") == loc0 + 1,
                                                                z3.Implies(k != loc0, z3.Select(q.mem["out"], k) == z3.Select(mem0, k))),
                 timeout, "an empty list is one 0x00 byte (size 0, which read_list reads back as [])", mf)
        return res
    typ = WL_TYP[kind]
    if "pc_loop" not in state:
        res.addk(f"write_list.header{tag}", "functional", UNKNOWN, None, 0.0, "engine", "element loop not reached")
        return res
    pcl, ml, ll = state["pc_loop"], state["mem_loop"], state["loc_loop"]
    if form == "short":
        hb = z3.Select(ml, loc0) == z3.Int2BV(n_el * 16 + typ, 8)
        hlen = z3.IntVal(1)
    else:
        lb = z3.Int2BV(n_el, 64)
        L = uleb_len64(lb)
        hb = z3.And(z3.Select(ml, loc0) == z3.BitVecVal(0xF0 | typ, 8), uleb_bytes(ml, loc0 + 1, lb, L))
        hlen = 1 + L
    post(res, f"write_list.header{tag}", pcl, z3.And(hb, ll == loc0 + hlen, z3.BoolVal(bool(state.get("iter_is_data")))), timeout,
         "header: size << 4 | elem type for size <= 14, else 0xF0 | elem type followed by ULEB128(size); then the loop over ALL elements of data "
         "starts right after it", mf)
    post(res, f"write_list.header_frame{tag}", list(pcl) + [z3.Or(k < loc0, k >= loc0 + hlen)], z3.Select(ml, k) == z3.Select(mem0, k), timeout,
         "the header modifies nothing but its own bytes", mf)
    nb_ = 0
    for B in state.get("bodies", []):
        for b in B["outs"]:
            if b.ctl not in (None, "continue"):
                post(res, f"write_list.elem_bytes{tag}", b.pc, z3.BoolVal(False), timeout, "an element must not end the loop" + " [this path ends with " + str(b.ctl) + ": it must be infeasible]", mf)
                continue
            nb_ += 1
            b.pc = list(b.pc) + list(b.axioms)
            m1, l0 = b.mem["out"], B["loc0"]
            if kind == "int":
                zz = zigzag64(z3.SignExt(32, e32.bv))
                L = uleb_len64(zz)
                plen = L
                vb = uleb_bytes(m1, l0, zz, L)
            elif kind in ("bytes", "str"):
                lb = z3.Int2BV(blen, 64)
                L = uleb_len64(lb)
                plen = L + blen
                vb = z3.And(uleb_bytes(m1, l0, lb, L),
                            z3.Implies(z3.And(0 <= k, k < blen), z3.Select(m1, l0 + L + k) == z3.Select(p.mem["elbytes"], k)))
            else:
                plen = z3.IntVal(0)
                mine = calls[B["ncalls"]:]
                ok = len(mine) >= 1 and mine[-1][0] == "write_thrift"
                vb = mine[-1][1] == l0 if ok else z3.BoolVal(False)
            post(res, f"write_list.elem_bytes{tag}", b.pc, vb, timeout,
                 "int: ULEB128(zigzag(v)); bytes/str: ULEB128(len) ++ raw bytes; struct: write_thrift called at the cursor", mf)
            post(res, f"write_list.elem_cursor{tag}", b.pc, cy.loc(b, "out") == l0 + plen, timeout, "cursor advanced by exactly the element's bytes", mf)
            post(res, f"write_list.elem_frame{tag}", list(b.pc) + [z3.Or(k < l0, k >= l0 + plen)], z3.Select(m1, k) == z3.Select(B["mem0"], k), timeout,
                 "nothing outside the element's bytes is modified", mf)
    if nb_ == 0:
        res.addk(f"write_list.elem_bytes{tag}", "functional", UNKNOWN, None, 0.0, "engine", "no path through the element loop body")
    return res


WLKINDS = [("empty", "short")] + [(k, f) for k in ("int", "bytes", "str", "thrift", "dict") for f in ("short", "long")]
