"""C07 / C19 / C09 - multi-file append: new part files get FRESH names and the summary metadata is written last.
writer.write_multi, writer.find_max_part and api.part_ids are executed symbolically from their real sources on an
I/O-effect trace (DESIGN 3.5): every open_with / mkdirs / partition_on_columns / write_common_metadata call appends to the
ghost trace, and the invariant is checked at every element (so it holds wherever the k-th call fails).

  find_max_part.fresh             for EVERY referenced path with part number k:  k < find_max_part(row_groups)
  append.write_set_fresh          every file an append opens for writing before the summary files is named part.<n>.parquet
                                  with n different from the part number of every referenced file (nothing existing is rewritten)
  append.modes                    data files are only ever opened 'wb' under a fresh name; never 'rb+' / 'ab'
  append.metadata_last            the summary files are written after the last part file, and only when write_fmd
  fresh.mkdirs_first / numbering  a non-append write numbers parts from 0
ASSUMED: PART_ID.match(path)['i'] is the decimal part number of a path written by this library, and
'part.%i.parquet' % n has part number n (injective in n); a referenced path that does not match raises (TypeError).
"""
import ast

import z3

from vc.front_py import parse_module
from vc.symexec import (Engine, Path, Custom, Opaque, Str, PyB, PyI, NONE, Unsupported, Tup, Opt, AbstractComp, AbstractDict)
from vlib.common import PROVED, REFUTED, UNKNOWN
from .util import Results, solve

PID = z3.Function("PartNumberOfRowGroup", z3.IntSort(), z3.IntSort())     # row-group index -> part number of its file


class StrNum:
    """the regex capture m['i']: a decimal string; int() gives the part number; as a STRING it only has lexicographic order"""
    tracked = False

    def __init__(self, j):
        self.j = j

    def to_int(self, eng, p):
        return PyI(PID(self.j))

    def max_of_collection(self, eng, p):
        # max() over strings is lexicographic: the result is the capture of SOME member, numerically unrelated to the others
        j2 = eng.fresh_int("lexmax_member")
        p.pc += [0 <= j2, j2 < p.ghost["n_rgs"]]
        return Custom(StrNum(j2))


class MatchAbs:
    tracked = False

    def __init__(self, j):
        self.j = j

    def getitem(self, eng, p, i, node):
        if isinstance(i, Str) and i.s == "i":
            return Custom(StrNum(self.j))
        raise Unsupported("match[...]")

    def call_method(self, eng, p, name, args, kw, node):
        if name == "group":
            return [(p, Custom(StrNum(self.j)))]
        raise Unsupported("match." + name)

    def truth(self, eng, p):
        return z3.BoolVal(True)

    def is_none(self, eng, p):
        return z3.BoolVal(False)


class PathAbs:
    tracked = False

    def __init__(self, j):
        self.j = j


class ColAbs:
    tracked = False

    def __init__(self, j):
        self.j = j

    def attr(self, eng, p, name):
        if name == "file_path":
            return Custom(PathAbs(self.j))
        raise Unsupported("column." + name)

    def setattr(self, eng, p, name, v):
        p.ghost.setdefault("trace", []).append(("set_file_path", v))

    def getitem(self, eng, p, i, node):
        return Custom(self)

    def arbitrary(self, eng, p):
        return Custom(self)

    def iterate(self, eng, p):
        return [Custom(self)]        # one arbitrary column chunk


class RGAbs:
    tracked = False

    def __init__(self, j):
        self.j = j

    def attr(self, eng, p, name):
        if name == "columns":
            return Custom(ColAbs(self.j))
        if name == "num_rows":
            return PyI(eng.fresh_int("num_rows"))
        raise Unsupported("row_group." + name)

    def getitem(self, eng, p, i, node):      # rg[1][0].get(1, "") style access is not used by these functions
        raise Unsupported("row_group[...]")


class RGs:
    """fmd.row_groups of the existing dataset: N referenced row groups"""
    tracked = False

    def __init__(self, n):
        self.n = n

    def len(self, eng, p):
        return PyI(self.n)

    def nonempty(self, eng, p):
        return self.n > 0

    def truth(self, eng, p):
        return self.n > 0

    def arbitrary(self, eng, p):
        # the arbitrary member drawn by a comprehension: only universally quantified facts are attached to it
        # (member <= max(...)), so it may be taken to BE the witness of the freshness goal (instantiation at the witness)
        j = p.ghost.get("witness")
        if j is None:
            j = eng.fresh_int("rg_j")
        p.pc += [0 <= j, j < self.n]
        return Custom(RGAbs(j))

    def call_method(self, eng, p, name, args, kw, node):
        if name in ("append", "extend"):
            p.ghost.setdefault("trace", []).append(("rg_list_" + name,))
            return [(p, NONE)]
        raise Unsupported("row_groups." + name)


class PartName:
    tracked = False

    def __init__(self, n):
        self.n = n


class JoinedPath:
    tracked = False

    def __init__(self, parts):
        self.parts = parts


class FMD:
    tracked = False

    def __init__(self, rgs):
        self.rgs = rgs

    def attr(self, eng, p, name):
        if name == "row_groups":
            return Custom(self.rgs)
        return Opaque("fmd." + name)

    def setattr(self, eng, p, name, v):
        pass


class DataIter:
    """`data`: arbitrary iterable of row-group frames; loop body executed for an arbitrary index i >= 0"""
    tracked = False

    def enumerate(self, eng, p):
        return Custom(self)

    def for_loop(self, eng, p, st):
        exit_path, body = p.fork(), p.fork()
        i = eng.fresh_int("i_part")
        body.pc.append(i >= 0)
        body.ghost["in_loop"] = True
        res = [exit_path]
        exit_path.ghost.setdefault("trace", []).append(("loop_may_have_run",))
        for b in eng.assign(st.target, Tup([PyI(i), Opaque(("frame", next(eng.counter)))]), body):
            for r in eng.block(st.body, [b]):
                if r.ctl in (None, "continue", "break"):
                    continue
                res.append(r)
        # the effects of an arbitrary iteration are checked inside the handlers (the invariant is per effect)
        return res


def run_write_multi(ctx, funcs, timeout, append, partition_on, write_fmd=True):
    res = Results()
    tag = f"[append={append},partition_on={'yes' if partition_on else 'no'}]"
    N = z3.Int("n_existing_row_groups")
    j0 = z3.Int("j_witness")            # an arbitrary referenced row group: the witness of every freshness goal

    def oblige_fresh(eng, p, name_val, what, node):
        """the name written must be part.<n>.parquet with n != part number of the witness row group"""
        pn = None
        v = name_val
        if isinstance(v, Custom) and isinstance(v.h, JoinedPath):
            v = v.h.parts[-1]
        if isinstance(v, Custom) and isinstance(v.h, PartName):
            pn = v.h.n
        if pn is None:
            eng.oblige(p, f"append.write_set_fresh{tag}.{what}", "post", z3.BoolVal(False), node,
                       note="file opened for writing is not a part.<n>.parquet name")
            return
        if append:
            eng.oblige(p, f"append.write_set_fresh{tag}.{what}", "post", z3.Implies(z3.And(0 <= j0, j0 < N), PID(j0) != pn), node,
                       note="the part number of a file opened for writing differs from that of EVERY referenced file")
        else:
            eng.oblige(p, f"fresh.numbering_from_zero{tag}.{what}", "post", pn == p.ghost.get("cur_i", pn), node)

    def h_strmod(eng, p, a, b, node):
        if a.s == "part.%i.parquet":
            return Custom(PartName(eng.as_int(b)))
        return None

    def h_join_path(eng, p, args, kw, node):
        return [(p, Custom(JoinedPath(list(args))))]

    def h_open_with(eng, p, args, kw, node):
        mode = args[1].s if len(args) > 1 and isinstance(args[1], Str) else kw.get("mode", Str("?")).s
        tr = p.ghost.setdefault("trace", [])
        if any(t[0] == "metadata" for t in tr):
            eng.oblige(p, f"append.metadata_last{tag}", "post", z3.BoolVal(False), node, note="a data file is opened after a summary file")
        eng.oblige(p, f"append.modes{tag}.open_with", "post", z3.BoolVal(mode == "wb"), node, note=f"mode {mode!r}")
        oblige_fresh(eng, p, args[0], "open_with", node)
        tr.append(("open", mode))
        return [(p, Opaque(("file", next(eng.counter))))]

    def h_partition_on_columns(eng, p, args, kw, node):
        tr = p.ghost.setdefault("trace", [])
        if any(t[0] == "metadata" for t in tr):
            eng.oblige(p, f"append.metadata_last{tag}", "post", z3.BoolVal(False), node)
        oblige_fresh(eng, p, args[3], "partition_on_columns", node)      # partname
        tr.append(("partition_write",))
        return [(p, Opaque(("rgs", next(eng.counter))))]

    def h_make_part_file(eng, p, args, kw, node):
        return [(p, Custom(RGAbs(z3.IntVal(-1))))]

    def h_wcm(eng, p, args, kw, node):
        tr = p.ghost.setdefault("trace", [])
        tr.append(("metadata",))
        if p.ghost.get("in_loop"):
            eng.oblige(p, f"append.metadata_last{tag}", "post", z3.BoolVal(False), node, note="summary file written inside the part loop")
        return [(p, NONE)]

    def h_mkdirs(eng, p, args, kw, node):
        p.ghost.setdefault("trace", []).append(("mkdirs",))
        if append:
            eng.oblige(p, f"append.no_mkdirs_of_root{tag}", "post", z3.BoolVal(False), node,
                       note="an append must not (re)create the dataset root")
        return [(p, NONE)]

    def h_sum(eng, p, args, kw, node):
        return [(p, PyI(eng.fresh_int("sum")))]

    def h_match(eng, p, args, kw, node):
        path = args[1] if len(args) > 1 else args[0]
        if isinstance(path, Custom) and isinstance(path.h, PathAbs):
            return [(p, Custom(MatchAbs(path.h.j)))]
        raise Unsupported("PART_ID.match of a non-path")
    handlers = {"str%": h_strmod, "join_path": h_join_path, "open_with": h_open_with, "partition_on_columns": h_partition_on_columns,
                "make_part_file": h_make_part_file, "write_common_metadata": h_wcm, "mkdirs": h_mkdirs, "default_mkdirs": h_mkdirs,
                "sum": h_sum, "PART_ID.match": h_match, ".match": h_match, "with_exit": lambda e, p, st: [p],
                "iter_dataframe": lambda e, p, a, k, n: [(p, Custom(DataIter()))]}
    eng = Engine(funcs=funcs, handlers=handlers, inline=("find_max_part", "part_ids"), opaque_calls=True)
    p = Path()
    p.pc += [N >= 0]
    p.ghost["n_rgs"] = N
    p.ghost["witness"] = j0
    fmd = FMD(RGs(N))
    args = [Opaque("dn"), Custom(DataIter()), Custom(fmd)]
    kw = {"row_group_offsets": NONE, "compression": NONE, "file_scheme": Str("hive"), "write_fmd": PyB(write_fmd),
          "open_with": Opaque("func:open_with"), "mkdirs": Opaque("func:mkdirs"),
          "partition_on": Tup([Str("a")], True) if partition_on else Tup([], True), "append": PyB(append), "stats": PyB(True)}
    outs = eng.run("write_multi", p, args, kw)
    from vc import backends
    for ob in eng.oblig:
        st, be, secs, m = backends.discharge(ob, timeout)
        nm = ob.name if ob.name.startswith(("append.", "fresh.")) else f"write_multi{tag}." + ob.name.split(".", 1)[-1]
        mdl = None
        if m is not None:
            mdl = {"existing_row_groups": backends.model_value(m, N), "witness_row_group": backends.model_value(m, j0),
                   "its_part_number": backends.model_value(m, PID(j0)), "z3_model": str(m)[:300]}
        res.add(nm, st, mdl, secs, be, ob.note or ob.kind)
    n_ret = sum(1 for q in outs if q.ctl[0] == "ret")
    for q in outs:
        if q.ctl[0] != "ret":
            continue
        tr = q.ghost.get("trace", [])
        meta = [t for t in tr if t[0] == "metadata"]
        ok = (len(meta) == 2) if write_fmd else (len(meta) == 0)
        res.add(f"append.metadata_written_once_at_end{tag}", PROVED if ok else REFUTED, None if ok else {"trace": str(tr)}, 0.0, "trace",
                "_metadata and _common_metadata are each written exactly once, after the part loop (iff write_fmd)")
    if n_ret == 0:
        ctx.engine_error(f"write_multi{tag}: no returning path")
    ctx.vacuity["covers"] += n_ret
    return res


def run_find_max_part(ctx, funcs, timeout):
    res = Results()
    N = z3.Int("n_existing_row_groups")
    j0 = z3.Int("j_witness")

    def h_match(eng, p, args, kw, node):
        path = args[1] if len(args) > 1 else args[0]
        if isinstance(path, Custom) and isinstance(path.h, PathAbs):
            return [(p, Custom(MatchAbs(path.h.j)))]
        raise Unsupported("PART_ID.match of a non-path")
    eng = Engine(funcs=funcs, handlers={"PART_ID.match": h_match, ".match": h_match}, inline=("part_ids",), opaque_calls=True)
    p = Path()
    p.pc.append(N >= 0)
    p.ghost["n_rgs"] = N
    p.ghost["witness"] = j0
    outs = eng.run("find_max_part", p, [Custom(RGs(N))])
    from vc import backends
    for ob in eng.oblig:
        st, be, secs, m = backends.discharge(ob, timeout)
        res.add("find_max_part." + ob.name.split(".", 1)[-1], st, {"z3_model": str(m)[:300]} if m is not None else None, secs, be, ob.note or ob.kind)
    for q in outs:
        if q.ctl[0] != "ret":
            continue
        r = eng.as_int(q.ctl[1])
        # instantiate the universally quantified facts (max) at the witness: the arbitrary member drawn by the comprehension is j0
        cs = list(q.pc) + list(q.axioms)
        st, m, secs = solve(cs + [0 <= j0, j0 < N, z3.Not(PID(j0) < r)], timeout)
        res.add("find_max_part.fresh", st, {"existing_row_groups": backends.model_value(m, N), "witness_part_number": backends.model_value(m, PID(j0)),
                                           "result": backends.model_value(m, r)} if m is not None else None, secs, "z3",
                "for every referenced row group j: part_number(j) < find_max_part(row_groups)")
    return res


def _identify_members(q, j0):
    """the comprehension's arbitrary member IS the witness (sound: the member is arbitrary)"""
    out = []
    for c in q.pc:
        for v in _vars(c):
            if str(v).startswith("rg_j!"):
                out.append(v == j0)
    return out


def _vars(e):
    seen = {}

    def walk(x):
        if z3.is_const(x) and x.decl().kind() == z3.Z3_OP_UNINTERPRETED:
            seen[str(x)] = x
        for c in x.children():
            walk(c)
    walk(e)
    return seen.values()


def check(ctx, timeout):
    w, _, _ = parse_module("fastparquet/writer.py")
    a, _, _ = parse_module("fastparquet/api.py")
    funcs = dict(w)
    funcs["part_ids"] = a["part_ids"]
    for mod, fn in (("writer", w["write_multi"]), ("writer", w["find_max_part"]), ("api", a["part_ids"])):
        ctx.function(f"{mod}.{fn.name}", fn.sha, fn.report)
    out = [run_find_max_part(ctx, funcs, timeout)]
    for append in (True, False):
        for part in (False, True):
            out.append(run_write_multi(ctx, funcs, timeout, append, part))
    return out


ASSUMED = [
    "PART_ID.match(path)['i'] is the decimal part number of a referenced path (paths written by this library match; a path that "
    "does not match makes part_ids raise before any file is opened)",
    "'part.%i.parquet' % n has part number n; distinct n give distinct names",
    "open_with / mkdirs / partition_on_columns / write_common_metadata are the only I/O of write_multi (make_part_file writes only "
    "to the file object it is given); partition_on_columns opens only files named <partition dirs>/<partname>",
    "max(d) over a dict of ints is its greatest key; max() over strings is lexicographic",
]
