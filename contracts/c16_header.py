"""C16 / C06 / C14 - `api.ParquetFile._parse_header(self, f, verify)` on the byte-file model (contracts/filemodel.py), executed from its
real source: which bytes of the file are handed to the thrift reader.

  data file:      content == 'PAR1' ++ body ++ F ++ le32(|F|) ++ 'PAR1'      (self.fn does not end with '_metadata')
  metadata file:  content == 'PAR1' ++ F ++ le32(|F|) ++ 'PAR1'              (self.fn ends with '_metadata': parsed as content[4:-8])
for ALL bodies and ALL footers with 0 <= |F| < 2**32 (in particular every length around any read-ahead window such as 64 KiB), verify on / off:
  parse_header[<file kind>,verify=..].parses_exactly_footer        the bytes given to from_buffer are exactly F (posed at a Skolem index)
  parse_header[...].head_size_is_footer_length                    self._head_size == |F|
  parse_header[...].parsed_as_FileMetaData / sets_fmd_and_attrs   from_buffer(..., "FileMetaData"); self.fmd = that object; self._set_attrs()
  + safety: seek positions non-negative, struct.unpack gets 4 bytes, the `assert`s of verify=True hold on a well-formed file (no
    spurious ParquetException)
The loop over fmd[4] (file_path decoding) is not part of this contract: the parsed object is a stub without row groups.
"""
import ast

import z3

from vc import backends
from vc.front_py import parse_module
from vc.symexec import Engine, Path, Custom, Opaque, Str, PyB, PyI, BytesV, NONE, NoneV, Unsupported, Tup
from vlib.common import PROVED, REFUTED, UNKNOWN
from .filemodel import FileH, Bts, concat, le32, le_value, eq_goal, h_struct_unpack, install_byte_constants, FILE_ASSUMED
from .util import Results, solve

ASSUMED = [
    "_parse_header: the file object behaves as contracts/filemodel.py states; bytes slicing b[i:j] is Python's (negative indexes count from "
    "the end, out-of-range bounds are clamped); struct.unpack('<I', 4 bytes) is their little-endian value",
    "a well-formed data file is 'PAR1' ++ body ++ F ++ le32(|F|) ++ 'PAR1', a summary file 'PAR1' ++ F ++ le32(|F|) ++ 'PAR1' (format)",
] + FILE_ASSUMED

MAGIC = Bts.const(b"PAR1")


class BytesEngine(Engine):
    """Engine + Python slicing and == on byte strings of the file model"""

    def slice(self, o, sl, p, node):
        if isinstance(o, BytesV):
            if sl.step is not None:
                raise Unsupported("bytes slice with a step")
            b, n = o.seq, o.seq.n

            def norm(e, default):
                if e is None:
                    return default
                v = self.ev1(e, p)
                if isinstance(v, NoneV):
                    return default
                x = self.as_int(v, p, node)
                return z3.If(x < 0, z3.If(n + x < 0, 0, n + x), z3.If(x > n, n, x))
            start, stop = z3.simplify(norm(sl.lower, z3.IntVal(0))), z3.simplify(norm(sl.upper, n))
            length = z3.simplify(z3.If(stop > start, stop - start, 0))
            return [(p, BytesV(b.sub(start, length)))]
        return super().slice(o, sl, p, node)

    def equal(self, a, b, p, node):
        if isinstance(a, BytesV) and isinstance(b, BytesV):
            x, y = a.seq, b.seq
            for c, o in ((x, y), (y, x)):
                k = z3.simplify(c.n)
                if z3.is_int_value(k) and k.as_long() <= 16:
                    return z3.And(x.n == y.n, *[c.at(z3.IntVal(i)) == o.at(z3.IntVal(i)) for i in range(k.as_long())])
            raise Unsupported("== of two byte strings of unknown length")
        return super().equal(a, b, p, node)


class FnText:
    tracked = False

    def __init__(self, is_meta):
        self.is_meta = is_meta

    def truth(self, eng, p):
        return z3.BoolVal(True)

    def is_none(self, eng, p):
        return z3.BoolVal(False)

    def call_method(self, eng, p, name, args, kw, node):
        if name == "endswith" and len(args) == 1 and isinstance(args[0], Str) and args[0].s == "_metadata":
            return [(p, PyB(self.is_meta))]
        raise Unsupported("fn." + name)


class FmdStub:
    """the parsed FileMetaData: only its identity matters here; fmd[4] (row groups) is an empty list"""
    tracked = False

    def getitem(self, eng, p, i, node):
        return Tup([], True)

    def attr(self, eng, p, name):
        return Opaque(("fmd", name))


class SelfObj:
    tracked = False

    def __init__(self, is_meta):
        self.fn = FnText(is_meta)

    def attr(self, eng, p, name):
        if name == "fn":
            return Custom(self.fn)
        st = p.ghost.get("self_attrs", {})
        if name in st:
            return st[name]
        raise Unsupported("self." + name)

    def setattr(self, eng, p, name, v):
        p.ghost["self_attrs"] = dict(p.ghost.get("self_attrs", {}), **{name: v})

    def call_method(self, eng, p, name, args, kw, node):
        p.ghost["self_calls"] = list(p.ghost.get("self_calls", [])) + [(name, "fmd" in p.ghost.get("self_attrs", {}))]
        return [(p, NONE)]


def run_header(funcs, timeout, kind, verify):
    res = Results()
    tag = f"{kind},verify={verify}"
    body, F, lenfield = Bts.sym("body"), Bts.sym("footer"), Bts.sym("len_field")
    if kind == "data file":
        content = concat(MAGIC, body, F, Bts(4, lenfield.at), MAGIC)
    else:
        content = concat(MAGIC, F, Bts(4, lenfield.at), MAGIC)
    fh = FileH()
    stub = FmdStub()

    def h_from_buffer(eng, p, args, kw, node):
        d = args[0]
        if not isinstance(d, BytesV):
            raise Unsupported("from_buffer of " + type(d).__name__)
        p.ghost["parsed"] = d.seq
        p.ghost["parsed_as"] = args[1].s if len(args) > 1 and isinstance(args[1], Str) else None
        return [(p, Custom(stub))]
    eng = BytesEngine(funcs=funcs, handlers={"from_buffer": h_from_buffer, "struct.unpack": h_struct_unpack}, opaque_calls=True)
    install_byte_constants(eng)
    p = Path()
    p.pc += [body.n >= 0, F.n >= 0, F.n < 2 ** 32, F.n == le_value(Bts(4, lenfield.at))]
    fh.init(p, content, 0)
    is_meta = z3.BoolVal(kind != "data file")
    outs = eng.run("ParquetFile._parse_header", p, [Custom(SelfObj(is_meta)), Custom(fh), PyB(verify)])
    mfn = lambda m: {"footer_len": backends.model_value(m, F.n), "body_len": backends.model_value(m, body.n), "file_len": backends.model_value(m, content.n)}
    for ob in eng.oblig:
        st, be, secs, m = backends.discharge(ob, timeout)
        res.add(f"parse_header[{tag}]." + ob.name.rsplit(".", 1)[-1], st, mfn(m) if m is not None else None, secs, be, ob.note or ob.kind)
    eng.oblig = []
    k = z3.Int("k_skolem")
    n_ret = 0
    for q in outs:
        if q.ctl[0] != "ret":
            st, m, secs = solve(list(q.pc), timeout)          # a raising path must be infeasible on a well-formed file
            res.add(f"parse_header[{tag}].well_formed_file_is_accepted", PROVED if st == PROVED else REFUTED if st == REFUTED else UNKNOWN,
                    dict(mfn(m), raises=q.ctl[1]) if m is not None else None, secs, "z3",
                    "no exception (ParquetException 'File parse failed' / 'Metadata parse failed') for a well-formed file")
            continue
        n_ret += 1
        parsed = q.ghost.get("parsed", Bts(0, lambda i: z3.BitVecVal(0, 8)))
        st, m, secs = solve([*q.pc, z3.Not(eq_goal(parsed, F, k))], timeout)
        res.add(f"parse_header[{tag}].parses_exactly_footer", st,
                dict(mfn(m), parsed_len=backends.model_value(m, parsed.n), differs_at=backends.model_value(m, k)) if m is not None else None, secs, "z3",
                "the bytes given to from_buffer are exactly the footer F - for every footer length 0 <= |F| < 2**32 and every body")
        hs = q.ghost.get("self_attrs", {}).get("_head_size")
        if isinstance(hs, PyI):
            st, m, secs = solve([*q.pc, hs.z != F.n], timeout)
            res.add(f"parse_header[{tag}].head_size_is_footer_length", st, dict(mfn(m), head_size=backends.model_value(m, hs.z)) if m is not None else None,
                    secs, "z3", "self._head_size == |F|")
        else:
            res.add(f"parse_header[{tag}].head_size_is_footer_length", UNKNOWN, None, 0.0, "engine", "self._head_size is not set to an integer: out of reach")
        ok = q.ghost.get("parsed_as") == "FileMetaData"
        st, m, secs = solve([*q.pc, z3.BoolVal(not ok)], timeout)
        res.add(f"parse_header[{tag}].parsed_as_FileMetaData", st, None, secs, "z3", "from_buffer(data, 'FileMetaData')")
        fm = q.ghost.get("self_attrs", {}).get("fmd")
        ok = isinstance(fm, Custom) and fm.h is stub and ("_set_attrs", True) in q.ghost.get("self_calls", [])
        st, m, secs = solve([*q.pc, z3.BoolVal(not ok)], timeout)
        res.add(f"parse_header[{tag}].sets_fmd_and_attrs", st, None, secs, "z3", "self.fmd = the parsed object, then self._set_attrs()")
    vac = {"requires_sat": int(solve(list(p.pc) + [F.n == 65530, body.n == 100000], 3000)[0] == REFUTED), "must_fail_sat": 0}
    for q in outs:
        if q.ctl[0] == "ret":        # must-fail: "the whole file is handed to the reader" is refuted
            parsed = q.ghost.get("parsed", Bts(0, lambda i: z3.BitVecVal(0, 8)))
            if solve([*q.pc, z3.Not(parsed.n == content.n)], 3000)[0] == REFUTED:
                vac["must_fail_sat"] = 1
    return res, n_ret, vac


def check(ctx, timeout):
    """-> list of (name, model, detail) refuted"""
    funcs, _, _ = parse_module("fastparquet/api.py")
    f = funcs["ParquetFile._parse_header"]
    ctx.function("api.ParquetFile._parse_header", f.sha, f.report)
    out = []
    for kind in ("data file", "_metadata file"):
        for verify in (True, False):
            tag = f"{kind},verify={verify}"
            try:
                res, n_ret, vac = run_header(funcs, timeout, kind, verify)
            except Unsupported as ex:
                ctx.obligation(f"parse_header[{tag}].out_of_reach", "api.ParquetFile._parse_header", UNKNOWN, "engine", 0.0, detail=str(ex), sample=True)
                continue
            except Exception as ex:       # the proof script failed on this source: undecided, never a violation
                ctx.obligation(f"parse_header[{tag}].out_of_reach", "api.ParquetFile._parse_header", UNKNOWN, "engine", 0.0,
                               detail=f"{type(ex).__name__}: {ex}", sample=True)
                continue
            ctx.vacuity["covers"] += n_ret
            for k_, v_ in vac.items():
                ctx.vacuity[k_] += v_
            if n_ret == 0 or not all(vac.values()):
                ctx.engine_error(f"_parse_header[{tag}]: returning paths {n_ret}, vacuity {vac}")
            for name in res.order:
                st = res.status(name)
                e = next((x for x in res.d[name] if x[0] == st), res.d[name][0])
                ctx.obligation(name, "api.ParquetFile._parse_header", st, e[3], sum(x[2] for x in res.d[name]), detail=e[4],
                               model=e[1] if st == REFUTED else None, sample=(st != PROVED or "parses_exactly" in name))
                if st == REFUTED:
                    out.append((name, e[1], e[4]))
    return out
