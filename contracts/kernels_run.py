"""Run every kernel contract (contracts/kernels.py) in a process pool; results are plain data (picklable)."""
import concurrent.futures as cf
import multiprocessing as mp
import os
import time

from . import kernels as K

SIMPLE = ["k_zigzag", "k_mask", "k_width_from_max_int", "k_read_varint", "k_encode_varint", "k_numpyio", "k_read_rle",
          "k_read_bitpacked1"]
FUNCS_UNDER_CONTRACT = ["zigzag_long", "long_zigzag", "zigzag_int", "_mask_for_bits", "width_from_max_int", "read_unsigned_var_int",
                        "encode_unsigned_varint", "NumpyIO.get_pointer", "NumpyIO.read", "NumpyIO.read_byte", "NumpyIO.read_int",
                        "NumpyIO.read_long", "NumpyIO.write", "NumpyIO.write_byte", "NumpyIO.write_int", "NumpyIO.write_long",
                        "NumpyIO.seek", "NumpyIO.tell", "NumpyIO.so_far", "read_rle", "read_bitpacked1", "read_bitpacked", "delta_read_bitpacked"]


def _task(t):
    kind, arg, timeout = t
    t0 = time.time()
    try:
        if kind == "simple":
            res = getattr(K, arg)(timeout)
        elif kind == "bp":
            res = K.read_bitpacked_closure(arg[0], arg[1], timeout)
        elif kind == "bp0":
            res = K.read_bitpacked_closure(arg[0], arg[1], timeout, zero_groups=True)
        elif kind == "delta":
            res = K.delta_bitpacked_closure(arg[0], arg[1], timeout)
        else:
            raise ValueError(kind)
        return (kind, arg, res.order, res.d, res.kind, None, time.time() - t0)
    except K.Unsupported as ex:   # the kernel's current source is outside the engine's subset: out of reach, undecided
        return (kind, arg, ["%s%s.out_of_reach" % (arg if kind == "simple" else kind, "" if kind == "simple" else list(arg))],
                {"%s%s.out_of_reach" % (arg if kind == "simple" else kind, "" if kind == "simple" else list(arg)):
                 [("unknown", None, 0.0, "engine", str(ex))]}, {}, None, time.time() - t0)
    except Exception as ex:       # engine failure inside one kernel: reported as such by the caller
        import traceback
        return (kind, arg, [], {}, {}, traceback.format_exc()[-1500:], time.time() - t0)


def run_all(tier="quick"):
    timeout = 10000 if tier == "quick" else 60000
    tasks = [("simple", n, timeout) for n in SIMPLE]
    for w in range(0, 33):
        for s in (4, 1):
            if s == 1 and w > 8:
                continue            # callers pass itemsize 1 only with a uint8 output (width <= 8): precondition
            tasks.append(("bp", (w, s), timeout))
    tasks += [("bp0", (w, 4), timeout) for w in (1, 8, 24)]
    tasks += [("delta", (w, lv), timeout) for w in range(1, 65) for lv in (0, 1)]
    ctx = mp.get_context("fork")
    with cf.ProcessPoolExecutor(max_workers=min(16, os.cpu_count() or 4), mp_context=ctx) as ex:
        return list(ex.map(_task, tasks))
