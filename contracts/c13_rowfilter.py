"""C13 - row-level filtering returns exactly the rows that satisfy the predicate.

Functions under contract (real source of /repo/fastparquet/api.py, extracted by ast on every run; the operator table
`ops` is read from /repo/fastparquet/util.py):

  ParquetFile._column_filter(df, filters)        predicate evaluation on the frame of the filter columns
  ParquetFile._columns_from_filters(filters)     which columns that frame must hold
  ParquetFile.to_pandas(..., row_filter=mask | True | False)   cutting the selection into per-row-group pieces,
                                                 the wrong-length check, the allocated size, what each row-group read gets
  ParquetFile.count(filters, row_filter=True)    evaluates the same selection as to_pandas
  ParquetFile.read_row_group_file(rg, ..)        stand-alone branch (assign=None; row_filter=[filter list] | False) and the
                                                 pass-through branch used by to_pandas

MODEL
  _column_filter.  A boolean numpy array is a proof-script OBJECT holding its value at ONE witness row r0
  (0 <= r0 < len(df)) as a z3 Bool (per path, keyed by object: `|=`, `&=`, `^=` mutate the object and are seen through every
  name bound to it) and its length; `~`, `|`, `&` give new objects; np.zeros / np.ones give False / True.  Atomic conditions
  are library terms at r0 (assumed pandas contracts, see ASSUMED):
      df[c].isin(v).values[r]                        = ISIN(c, v, r)
      operator.<f>(df[c] | df[c].values, v)[r]       = CMP(c, f, v, r)            f in eq ne gt ge lt le
      (~df[c].values)[r]                             = not CELL_TRUE(c, r)
  and the meaning of an atom (c, op, v) comes from the property text / the documented grammar:
      in -> ISIN, not in -> not ISIN, == = != > >= < <= -> CMP with eq eq ne gt ge lt le, '~' (undocumented extension)
      -> not CELL_TRUE; an operator outside that set is satisfied by NO row; an atom on a partition column is
      PART_SAT(c, op, v, r0) (the row's directory value satisfies it).
  `filters` is an ABSTRACT list: of AND groups (shape "nested") or of atoms (shape "flat"), of unknown length >= 1; every
  group holds >= 1 atom (an empty group raises IndexError natively and is outside the C05/C13 grammar).  A loop over an
  abstract list is executed for ONE arbitrary member with every variable the loop body assigns havoc'd first; the body is
  run once per operator class (each grammar operator, every other string literal the function mentions or util.ops
  defines, and "some other string").  What is PROVED are the FOLD STEPS:
      (i)   column_filter.out_starts_false            the returned accumulator is all-False before the loop over OR groups
            column_filter.returns_or_accumulator      and it is that accumulator which is returned (not one re-created per group)
      (ii)  column_filter.or_step                     one outer iteration for group g:  out' == out OR E_g,  E_g = value of
                                                      the group's accumulator when the loop over its atoms ends
      (iii) column_filter.and_fold_starts_true_each_group   that accumulator is all-True when the loop over the atoms of g
                                                      STARTS (checked inside the arbitrary outer iteration: state carried over
                                                      from an earlier group is arbitrary)
            column_filter.and_step[op=..]             one inner iteration for a data-column atom a: acc' == acc AND sat(a)(r0)
            column_filter.partition_atoms_honoured[shape]   the same for an atom on a partition column (REFUTED on this tree: known
                                                      finding C13-P-partition-atoms-dropped, region `name in self.cats`)
            column_filter.unknown_operator_never_true[shape]  the same for an operator outside the grammar, sat = False (REFUTED on
                                                      this tree: the atom counts as True; known finding C13-P-unknown-operator-true)
      (iv)  column_filter.flat_is_and[...]            flat list: [fold over the list starts all-True], [step,op=..] (the same two
                                                      lemmas for the loop over the flat list after `filters = [filters]`) and
                                                      [result is the AND over the whole list]: result == AND over ALL atoms
      (v)   column_filter.result_length_is_frame_length / frame_has_column / mask_operands_same_length / index_in_range and
            ops_table.symbol_denotes_its_operator (util.ops maps each symbol to the operator the grammar says).
      (vi)  column_filter.bare_atom_or_step[op=..]    shape "mixed" (a list of groups that also holds bare atoms; outside the grammar,
                                                      reachable through read_row_group_file(row_filter=[...]) only): out' == out OR sat(a)
  CONTAINER TYPES.  The grammar says a condition is a 3-SEQUENCE (column, op, value) and a group a sequence of conditions; it
  does not say which Python container: tuples and lists are both in use (the project's tests and JSON / YAML loaded filters
  write lists).  `isinstance(condition, tuple)` is a FREE Boolean per condition object (`list` its negation, `(list, tuple)` /
  Sequence true, str / dict / ndarray .. false), likewise per AND group; the outer `filters` is a list; `isinstance(cond[0],
  str)` is true and `isinstance(group[0], str)` false.  A counter-model says how the conditions the path asked about are
  written (`written_as`).  A flat-list test on the container type therefore takes BOTH outcomes: the unwrapped flat list is
  then iterated as if it were the list of OR groups and column_filter.flat_is_and[..] is refuted (seed C13-m10).
  HELPERS.  A call from a function under contract to a function DEFINED IN api.py (module-level, or a method of ParquetFile
  that is not one of the recorded calls _columns_from_filters / to_pandas / _column_filter / pre_allocate /
  read_row_group_file / open / _get_index; filter_row_groups stays the abstract `kept row groups`) is EXECUTED from its real
  source on a fork of the path (RFEngine.inline_helper); a boolean array handed to such a helper inside a loop counts as
  assigned by the loop body (in-place `acc &= ..`).  A helper that cannot be executed (Unsupported inside) is rolled back and
  stays an opaque call; a boolean array of the model flowing into an opaque call is `out_of_reach` (never silently unchanged).
  THE INDUCTION from the fold steps to  result[r] == OR_g AND_{a in g} sat(a)(r)  IS ARGUED, NOT MECHANISED: (iii) gives
  E_g == AND_{a in g} sat(a)(r0) by induction over the atoms of g, (i)+(ii) give result == OR_g E_g by induction over the
  groups, and r0 is arbitrary.  Inside the run the first induction is used as a cut: after the loop over the atoms of g the
  accumulator is replaced by the uninterpreted AND_G(g) - only when (iii) was proved in that very run; otherwise it is
  havoc'd and what depends on it is reported `unknown` (never proved - and never refuted - from a failed lemma).  AND_G(g)
  ranges over the data-column atoms with grammar operators; the two known findings above are exactly the atoms it leaves out.

  to_pandas.  `rgs` is an abstract list of N row groups with num_rows(k) >= 0; ROWS_BEFORE(k) is an uninterpreted prefix
  sum used through the instances ROWS_BEFORE(0) == 0, ROWS_BEFORE(k+1) == ROWS_BEFORE(k) + num_rows(k); the selection is a
  mask object with a length and COUNT_TRUE(lo, hi); SEL_BEFORE(k) is the prefix sum of COUNT_TRUE over the pieces.  Loop 1
  (cutting) and loop 2 (reading) are run for one arbitrary k from a havoc'd state constrained by an invariant that is
  proved on entry and after the body (integer loop variables are invariant candidates `v == prefix sum`; a candidate that
  is not preserved and is not the cursor used in the slice is dropped and the body re-run - no claim is made about it).
  Three runs: [mask] caller-supplied mask, [filters] row_filter=True, [none] row_filter=False:
      to_pandas.mask_cursor_is_rows_before_row_group        start == ROWS_BEFORE(k)
      to_pandas.mask_piece_is_row_group_rows                the k-th piece appended is sel[ROWS_BEFORE(k) : ROWS_BEFORE(k+1)]
                                                            (one append per row group, of the selection itself): the pieces tile
                                                            [0, ROWS_BEFORE(N)) in order
      to_pandas.wrong_length_mask_raises_before_any_read    caller-supplied mask: len(mask) != ROWS_BEFORE(N) -> ValueError with no
                                                            allocation / open / read before it; otherwise len(mask) == total
      to_pandas.selection_is_column_filter_on_filter_columns_frame   row_filter=True: sel = _column_filter(to_pandas(columns=
                                                            _columns_from_filters(filters), filters, row_filter=False, index=False), filters)
      to_pandas.selection_length_is_total_rows              ... and has one entry per row of the kept row groups
      to_pandas.allocated_size_is_selection_count           pre_allocate gets sel.sum() (all rows of the kept row groups when unfiltered)
      to_pandas.allocates_before_reading
      to_pandas.one_mask_piece_per_row_group                zip(rgs, selected) does not truncate
      to_pandas.read_uses_row_group_mask_piece              read_row_group_file(rg_k, row_filter = piece k, or None when every row of k is selected)
      to_pandas.read_output_slice_is_selected_count         output views cut at [SEL_BEFORE(k), SEL_BEFORE(k) + COUNT_TRUE(piece k))
      to_pandas.output_cursor_is_selected_rows_before       start == SEL_BEFORE(k)
      to_pandas.row_group_skipped_only_if_nothing_selected
  count.  count.same_selection_as_to_pandas (same three calls, same arguments after binding to parameter names) and
  count.returns_selection_count.
  read_row_group_file (same abstract objects: row group k with num_rows(k), the selection a Mask with COUNT_TRUE, calls on
  self recorded after binding to the real signatures; core.read_row_group recorded the same way from core.py's signature).
  [filters] assign=None, row_filter = a non-empty filter list (the documented per-row-group mode), [none] assign=None,
  row_filter=False, [assigned] assign = views, row_filter = a mask piece | None (what to_pandas hands over):
      read_row_group_file.standalone.selection_is_column_filter_on_filter_columns_frame   mask = _column_filter(read_row_group_file(rg,
                                                            _columns_from_filters(row_filter), index=False, row_filter=False, assign=None), filters=row_filter)
      read_row_group_file.standalone.selection_length_is_row_group_rows
      read_row_group_file.standalone.allocated_size_is_selection_count[..]   pre_allocate gets COUNT_TRUE(mask); rg.num_rows without a filter list
      read_row_group_file.standalone.allocates_the_requested_columns[..]
      read_row_group_file.standalone.mask_dropped_only_if_every_row_selected  the read is unfiltered only where COUNT_TRUE(mask) == num_rows
      read_row_group_file.standalone.read_gets_the_mask[..]                   core.read_row_group(row_filter = the mask | False once dropped)
      read_row_group_file.standalone.read_fills_the_allocated_frame[..]       one read, of THIS row group, after the allocation, assign = its views
      read_row_group_file.standalone.returns_the_allocated_frame[..]
      read_row_group_file.assigned.{no_selection_evaluated, no_allocation, read_fills_the_views_handed_over, read_gets_the_mask, returns_nothing}
  (the recorded stand-alone unfiltered call used inside [filters] returns a frame of num_rows(k) rows: that is [none]'s result.)
  columns_from_filters.exactly_nonpartition_filter_columns: a name is in the result iff it is the column of an atom of
  `filters` and not a partition column (comprehension semantics instantiated at the witness atom).

Out of reach here (bounded layer only): the mask plumbing inside core.read_col / read_data_page_v2, null semantics of the
numpy comparisons, that pandas really evaluates the library terms as assumed, read_row_group_file's own row_filter=list path.
"""
import ast
import os
import time

import z3

from vc.front_py import parse_module
from vc.symexec import (Engine, Path, Custom, Opaque, Str, PyB, PyI, NONE, NoneV, Unsupported, Tup, Opt, AbstractComp,
                        AbstractDict)
from vlib.common import PROVED, REFUTED, UNKNOWN, REPO
from .util import Results, solve

FID_PARTITION = "C13-P-partition-atoms-dropped"
FID_PARTITION_B = "C13-partition-atoms-dropped"           # the same defect as recorded by the bounded layer
FID_UNKNOWN_OP = "C13-P-unknown-operator-true"

# ---- the documented grammar (to_pandas docstring) + the undocumented '~' -----------------------------------------------
SPEC_CMP = {"==": "eq", "=": "eq", "!=": "ne", ">": "gt", ">=": "ge", "<": "lt", "<=": "le"}
GRAMMAR = list(SPEC_CMP) + ["in", "not in", "~"]
PYOPS = ["eq", "ne", "gt", "ge", "lt", "le"]

ColS = z3.DeclareSort("C13Column")
ValS = z3.DeclareSort("C13Const")
ISIN = z3.Function("ISIN", ColS, ValS, z3.IntSort(), z3.BoolSort())
CMP = z3.Function("CMP", ColS, z3.IntSort(), ValS, z3.IntSort(), z3.BoolSort())
CELL_TRUE = z3.Function("CELL_TRUE", ColS, z3.IntSort(), z3.BoolSort())
PART_SAT = z3.Function("PART_SAT", ColS, z3.IntSort(), ValS, z3.IntSort(), z3.BoolSort())   # (col, op class index, val, row)
IsPart = z3.Function("IsPartitionColumn", ColS, z3.BoolSort())
AND_G = z3.Function("AND_G", z3.IntSort(), z3.BoolSort())      # group id -> AND over its (data-column, grammar) atoms at r0
R0 = z3.Int("r0_witness_row")
NROWS = z3.Int("len_df")

ASSUMED = [
    "pandas: df[c].isin(v).values[r] is ISIN(c, v, r) - 'cell r of column c is one of v'; the condition (c, 'not in', v) means "
    "its negation (cells of filter columns are non-null; null semantics: bounded finding C13-negative-operator-on-null)",
    "pandas/numpy: operator.<f>(df[c], v).values[r] and operator.<f>(df[c].values, v)[r] are both CMP(c, f, v, r) = 'cell r <f> v' "
    "for f in eq ne gt ge lt le; the grammar symbols == = != > >= < <= mean eq eq ne gt ge lt le",
    "'~' (undocumented extension of the grammar): (c, '~', _) is satisfied by row r iff the boolean cell is False; "
    "(~df[c].values)[r] is not CELL_TRUE(c, r)",
    "numpy: |=, &=, ^= and ~ on boolean arrays of equal length act element-wise; np.zeros(n, dtype=bool) is all False, "
    "np.ones(n, dtype=bool) all True, both of length n",
    "an operator string is only ever tested by == against a literal and by membership in / lookup from util.ops: every string "
    "that equals none of the literals takes the path explored with the representative 'some other string'",
    "an operator outside the grammar is satisfied by no row (or the call raises); an atom on a partition column is satisfied "
    "by row r iff the partition value of r's row group satisfies it (PART_SAT)",
    "the frame handed to _column_filter holds exactly the columns _columns_from_filters returns (call-site obligations of "
    "to_pandas / count) and len(df) rows; `filters` is a non-empty flat list of atoms or a non-empty list of non-empty groups "
    "(mixed lists and empty groups raise in filter_row_groups / _column_filter: outside the grammar)",
    "a condition is a 3-sequence written as a tuple or as a list, an AND group a list or a tuple of conditions (both free per "
    "object); the outer `filters` is a list; no other container types (numpy rows, namedtuples count as tuples) are modelled",
    "INDUCTION ARGUED, NOT MECHANISED: from the fold steps (start value + one arbitrary iteration from a havoc'd state) to "
    "result[r] == OR_g AND_a sat(a)(r); inside the run AND_G(g) replaces the group accumulator after its loop only when the "
    "AND-fold steps of that run were proved",
    "a list comprehension [e for x in xs if c] holds e(x) exactly for the members x with c(x); sum(list_of_lists, []) is their "
    "concatenation; set() keeps membership; sum(rg.num_rows for rg in rgs) is ROWS_BEFORE(len(rgs))",
    "row-group num_rows >= 0 (format); filter_row_groups(self, filters) is a function of its arguments (the recursive "
    "to_pandas call and the outer call see the same kept row groups); to_pandas(row_filter=False) returns a frame with as many "
    "rows as it allocates (pre_allocate contract; proved here: that size is the total of the kept row groups)",
    "numpy: mask[a:b] for 0 <= a <= b <= len(mask) is that segment; piece.sum() is COUNT_TRUE(a, b); COUNT_TRUE is additive over "
    "a tiling (sum of the piece counts == mask.sum()); COUNT_TRUE(a, b) == b - a iff the segment is all True",
    "pre_allocate / read_row_group_file / open / check_column_names are the only effects of to_pandas on the way to the reads",
    "read_row_group_file: mask.all() is COUNT_TRUE(mask) == len(mask), mask.any() is COUNT_TRUE(mask) > 0, 0 <= COUNT_TRUE(mask) <= len(mask); "
    "pre_allocate(size, ..) returns (frame of `size` rows, its views); core.read_row_group(.., assign=views, row_filter=mask | False) fills "
    "the views with the rows of the row group that the mask selects (all rows for False / None): C13's page-level contract (props/_pagemask) "
    "and the bounded layer; the recorded stand-alone unfiltered read returns a frame of rg.num_rows rows (its own [none] obligations)",
]


# =========================================================================================================================
# engine extensions (the house rules forbid editing vc/symexec.py)
# =========================================================================================================================
def _typenames(tn):
    """type names of the second argument of isinstance (source text): 'tuple', '(list, tuple)', 'list | tuple', 'np.ndarray',
    'collections.abc.Sequence' -> list of (last) names; None when it is not a plain name / tuple / union of names"""
    try:
        node = ast.parse(tn, mode="eval").body
    except SyntaxError:
        return None
    out = []

    def walk(n):
        if isinstance(n, ast.Tuple):
            return all(walk(x) for x in n.elts)
        if isinstance(n, ast.BinOp) and isinstance(n.op, ast.BitOr):
            return walk(n.left) and walk(n.right)
        if isinstance(n, ast.Name):
            out.append(n.id)
            return True
        if isinstance(n, ast.Attribute):
            out.append(n.attr)
            return True
        return False
    return out if walk(node) else None


SEQ_SUPERTYPES = {"Sequence", "Iterable", "Collection", "Sized", "Container", "Reversible", "object"}
NOT_A_SEQUENCE_OF_CONDITIONS = {"str", "bytes", "bytearray", "dict", "set", "frozenset", "int", "float", "bool", "complex", "ndarray", "Series",
                                "DataFrame", "Index", "Mapping", "MutableMapping", "Set", "Number", "Integral", "Real", "NoneType", "range",
                                "generic", "integer", "floating", "bool_", "str_", "datetime64", "Timestamp"}
TYPE_BOOLS = {}          # name of a container-type Boolean -> what it says (for the counter-models)


def _container_bool(prefix, label):
    _container_bool.n += 1
    b = z3.Bool(f"{prefix}_written_as_tuple!{_container_bool.n}")
    TYPE_BOOLS[str(b)] = label
    return b


_container_bool.n = 0


def _seq_isinstance(eng, obj, is_tuple, tn):
    """isinstance(<condition or group>, tn): the grammar says 3-SEQUENCE (column, op, value) / sequence of conditions - the Python
    container type is NOT fixed by it (tuples and lists are both in use: the project's tests and JSON-loaded filters write
    lists): `tuple` is a free Boolean per object, `list` its negation; `is_tuple` None = a list (the outer list)"""
    names = _typenames(tn)
    if names is None:
        return eng.fresh("isinstance_of_computed_type", z3.BoolSort())
    terms = []
    for n in names:
        if n in SEQ_SUPERTYPES:
            return z3.BoolVal(True)
        if n == "tuple":
            terms.append(is_tuple if is_tuple is not None else z3.BoolVal(False))
        elif n in ("list", "MutableSequence"):
            terms.append(z3.Not(is_tuple) if is_tuple is not None else z3.BoolVal(True))
        elif n in NOT_A_SEQUENCE_OF_CONDITIONS:
            continue
        else:
            # a name this contract does not know (a local holding a type, a user class): undecided, the same answer each time
            memo = obj.__dict__.setdefault("_isinst_memo", {})
            if n not in memo:
                memo[n] = eng.fresh("isinstance_" + n, z3.BoolSort())
            terms.append(memo[n])
    return z3.simplify(z3.Or(*terms)) if terms else z3.BoolVal(False)


def _consts_of(e, acc, seen):
    if e.get_id() in seen:
        return
    seen.add(e.get_id())
    if z3.is_const(e) and e.decl().kind() == z3.Z3_OP_UNINTERPRETED:
        acc.add(str(e))
    for c in e.children():
        _consts_of(c, acc, seen)


def _written_as(m, pc):
    """which container types the counter-model picked for the conditions / groups the path asked about"""
    names, seen = set(), set()
    for c in pc:
        if z3.is_expr(c):
            _consts_of(c, names, seen)
    out = {}
    for n in sorted(names & set(TYPE_BOOLS)):
        v = m.eval(z3.Bool(n), model_completion=True)
        out[TYPE_BOOLS[n]] = "tuple" if z3.is_true(v) else "list"
    return out


class RFEngine(Engine):
    """+ `~x` on proof-script objects, calls of subscripted callables (`ops[op](...)`), `is` between a proof-script object and
    a bool, `[None] * n`; calls of helper functions DEFINED IN api.py ITSELF (module-level functions, methods of ParquetFile)
    are executed from their real source (`inline_helper`); a helper that cannot be executed is an opaque call as before."""

    res = None
    or_loops = None
    all_inlined = set()           # helpers executed from source in this check (registered in the evidence)

    def __init__(self, *a, **kw):
        super().__init__(*a, **kw)
        self.inline_stack = []
        self.not_inlined = {}         # helper -> why it stayed opaque

    # ---- helpers of api.py: executed, not havoc'd -------------------------------------------------------------------------
    def call_named(self, name, selfobj, e, p):
        if name in self.handlers or name not in self.funcs:
            return super().call_named(name, selfobj, e, p)
        out = []
        for q, (args, kw) in self.ev_args(e, p):
            if selfobj is not None:
                args = [selfobj] + args
            r = self.inline_helper(name, q, args, kw, e)
            if r is None:
                self.check_untracked(args, kw, name, e)
                r = [(q, Opaque(("call", name, next(self.counter))))]
            out += r
        return out

    def inline_helper(self, name, p, args, kw, node):
        """run the real source of funcs[name] on a fork of p -> [(path, value)]; None when it is out of reach (Unsupported inside,
        recursion): everything the attempt recorded is rolled back and the caller treats the call as opaque"""
        if name not in self.funcs or name in self.inline_stack or len(self.inline_stack) >= 4:
            return None
        res = self.res
        snap = (len(self.oblig), dict(self.loop_ord), self.cur_func, len(self.or_loops) if self.or_loops is not None else 0,
                ({k: len(v) for k, v in res.d.items()}, len(res.order)) if res is not None else None)
        self.inline_stack.append(name)
        try:
            outs = self.run(name, p.fork(), args, kw)
        except Exception as ex:         # Unsupported, or an engine limitation met inside the helper (z3 cast, ..): out of reach
            del self.oblig[snap[0]:]
            self.loop_ord, self.cur_func = snap[1], snap[2]
            if self.or_loops is not None:
                del self.or_loops[snap[3]:]
            if res is not None:
                lens, n = snap[4]
                for k in res.order[n:]:
                    res.d.pop(k, None)
                del res.order[n:]
                for k, ln in lens.items():
                    del res.d[k][ln:]
            self.not_inlined[name] = f"{type(ex).__name__}: {ex}"
            return None
        finally:
            self.inline_stack.pop()
        self.loop_ord.update({k: v for k, v in snap[1].items() if k != name})
        self.inlined.add(name)
        RFEngine.all_inlined.add(name)
        out = []
        for r in outs:
            if r.ctl[0] == "ret":
                v = r.ctl[1]
                r.ctl = None
                out.append((r, v))
            else:
                out.append((r, Opaque("raised")))         # the path keeps ctl = ('raise', ..): a finished path of the caller
        return out

    def s_For(self, st, p):
        """the iterable is evaluated first: a path on which that evaluation RAISED (inside an executed helper) is finished"""
        it = st.iter
        if isinstance(it, ast.Name) or (isinstance(it, ast.Call) and isinstance(it.func, ast.Name) and it.func.id == "range"):
            return super().s_For(st, p)
        outs = []
        for q, coll in self.ev(it, p):
            if q.ctl is not None:
                outs.append(q)
                continue
            tmp = f"__iterable{next(self.counter)}"
            q.env[tmp] = coll
            st2 = ast.copy_location(ast.For(target=st.target, iter=ast.copy_location(ast.Name(id=tmp, ctx=ast.Load()), it),
                                            body=st.body, orelse=st.orelse), st)
            outs += super().s_For(st2, q)
        return outs

    def e_UnaryOp(self, e, p):
        if isinstance(e.op, ast.Invert):
            out = []
            for q, v in self.ev(e.operand, p):
                if isinstance(v, Custom):
                    if not hasattr(v.h, "invert"):
                        raise Unsupported(f"~ on {type(v.h).__name__}")
                    out.append((q, v.h.invert(self, q, e)))
                elif isinstance(v, PyI):
                    out.append((q, PyI(-v.z - 1)))
                elif isinstance(v, Opaque):
                    out.append((q, Opaque(("invert", v.tag))))
                else:
                    raise Unsupported("invert of " + type(v).__name__)
            return out
        return super().e_UnaryOp(e, p)

    def e_Call(self, e, p):
        if isinstance(e.func, ast.Subscript):
            out = []
            for q, f in self.ev(e.func, p):
                for r, (args, kw) in self.ev_args(e, q):
                    if isinstance(f, Custom) and hasattr(f.h, "call"):
                        out += f.h.call(self, r, args, kw, e)
                    elif isinstance(f, Opaque) and self.opaque_calls:
                        self.check_untracked(args, kw, ast.unparse(e.func), e)
                        out.append((r, Opaque(("call", ast.unparse(e.func), next(self.counter)))))
                    else:
                        raise Unsupported("call of subscript " + ast.unparse(e.func))
            return out
        return super().e_Call(e, p)

    def identical(self, a, b, p):
        for x, y in ((a, b), (b, a)):
            if isinstance(x, Custom) and isinstance(y, PyB):
                return z3.BoolVal(False)        # an array / list object is neither True nor False
            if isinstance(x, Custom) and isinstance(y, NoneV) and not hasattr(x.h, "is_none"):
                return z3.BoolVal(False)
        if isinstance(a, PyB) and isinstance(b, NoneV) or isinstance(b, PyB) and isinstance(a, NoneV):
            return z3.BoolVal(False)
        return super().identical(a, b, p)

    def s_AugAssign(self, st, p):
        # numpy's |=, &=, ^= MUTATE the array object: every name bound to it sees the change
        if isinstance(st.target, ast.Name):
            cur = p.env.get(st.target.id)
            if isinstance(cur, Custom) and hasattr(cur.h, "inplace"):
                out = []
                for r, b in self.ev(st.value, p):
                    cur.h.inplace(self, r, st.op, b, st)
                    out.append(r)
                return out
        return super().s_AugAssign(st, p)

    def binop(self, op, a, b, p, node):
        if isinstance(op, ast.Mult) and isinstance(a, Tup) and a.is_list and len(a.items) == 1 and isinstance(b, (PyI,)):
            return Custom(ConstList(a.items[0], b.z))
        return super().binop(op, a, b, p, node)


class H:
    tracked = False

    def attr(self, eng, p, name):
        raise Unsupported(f"{type(self).__name__}.{name}")

    def call_method(self, eng, p, name, args, kw, node):
        raise Unsupported(f"{type(self).__name__}.{name}()")

    def isinstance(self, eng, p, tn):
        return z3.BoolVal(False)


def _assigned_names(st):
    names = {n.id for n in ast.walk(st.target) if isinstance(n, ast.Name)}
    for n in ast.walk(ast.Module(body=st.body, type_ignores=[])):
        tg = []
        if isinstance(n, ast.Assign):
            tg = n.targets
        elif isinstance(n, (ast.AugAssign, ast.AnnAssign, ast.For)):
            tg = [n.target]
        elif isinstance(n, ast.NamedExpr):
            tg = [n.target]
        elif isinstance(n, ast.With):
            tg = [i.optional_vars for i in n.items if i.optional_vars is not None]
        elif isinstance(n, ast.comprehension):
            tg = [n.target]
        for t in tg:
            names |= {x.id for x in ast.walk(t) if isinstance(x, ast.Name)}
    return sorted(names)


def _helper_array_args(st, eng, p):
    """boolean arrays of the model that the loop body hands to a helper of api.py: the helper may update them in place (`acc &= ..`
    inside it mutates the caller's array) - they count as assigned by the loop body"""
    out = set()
    for n in ast.walk(ast.Module(body=st.body, type_ignores=[])):
        if not isinstance(n, ast.Call):
            continue
        f = n.func
        callee = f.id if isinstance(f, ast.Name) else "ParquetFile." + f.attr if isinstance(f, ast.Attribute) else None
        if callee not in eng.funcs or callee in eng.handlers:
            continue
        for a in list(n.args) + [k.value for k in n.keywords]:
            if isinstance(a, ast.Name) and isinstance(p.env.get(a.id), Custom) and isinstance(p.env[a.id].h, BoolArr):
                out.add(a.id)
    return out


def _pose(eng, p, name, goal, detail, model_fn=None, extra=()):
    """solve now (the conditional cuts need the status), record in eng.res"""
    st, m, secs = solve([*p.pc, *p.axioms, *extra, z3.Not(goal)], eng.timeout)
    mdl = None
    if m is not None:
        try:
            mdl = model_fn(m) if model_fn else {"z3_model": str(m)[:400]}
        except Exception:           # a model printer must never turn a verdict into a crash
            mdl = {"z3_model": str(m)[:400]}
        try:
            wa = _written_as(m, p.pc)
            if wa and isinstance(mdl, dict):
                mdl["written_as"] = wa
        except Exception:
            pass
    eng.res.add(name, st, mdl, secs, "z3", detail)
    return st


def _mv(m, t):
    from vc import backends
    return backends.model_value(m, t)


# =========================================================================================================================
# PART 1 - _column_filter
# =========================================================================================================================
class BoolArr(H):
    """numpy boolean array OBJECT: value at the witness row (per path: p.ghost[('arr', id)], so that the in-place operators
    are seen through every name bound to the object), length"""
    _ids = [0]
    tracked = True          # mutated in place by |=, &=: never silently passed through a call this contract cannot execute

    def __init__(self, val, n, origin=""):
        self.init, self.n, self.origin = val, n, origin
        BoolArr._ids[0] += 1
        self.aid = BoolArr._ids[0]

    def get(self, p):
        return p.ghost.get(("arr", self.aid), self.init)

    def _combine(self, eng, p, op, b, node):
        if isinstance(b, Custom) and isinstance(b.h, BoolSeries):
            raise Unsupported("numpy array combined with a pandas Series (alignment semantics not modelled)")
        if not (isinstance(b, Custom) and isinstance(b.h, BoolArr)):
            raise Unsupported("boolean array combined with " + type(getattr(b, "h", b)).__name__)
        eng.oblige(p, "column_filter.mask_operands_same_length", "safety", self.n == b.h.n, node,
                   note="both operands of |=, &= have len(df) elements")
        x, y = self.get(p), b.h.get(p)
        if isinstance(op, ast.BitOr):
            return z3.Or(x, y)
        if isinstance(op, ast.BitAnd):
            return z3.And(x, y)
        if isinstance(op, ast.BitXor):
            return z3.Xor(x, y)
        raise Unsupported("boolean array operator " + type(op).__name__)

    def binop(self, eng, p, op, b, node):
        return Custom(BoolArr(self._combine(eng, p, op, b, node), self.n))

    def inplace(self, eng, p, op, b, node):
        p.ghost[("arr", self.aid)] = self._combine(eng, p, op, b, node)

    def invert(self, eng, p, node):
        return Custom(BoolArr(z3.Not(self.get(p)), self.n))

    def len(self, eng, p):
        return PyI(self.n)

    def call_method(self, eng, p, name, args, kw, node):
        if name == "copy":
            return [(p, Custom(BoolArr(self.get(p), self.n)))]
        raise Unsupported("ndarray." + name)

    def isinstance(self, eng, p, tn):
        return z3.BoolVal("ndarray" in tn)


class BoolSeries(H):
    """pandas boolean Series (result of isin / a comparison on a Series)"""

    def __init__(self, val, n):
        self.val, self.n = val, n

    def attr(self, eng, p, name):
        if name == "values":
            return Custom(BoolArr(self.val, self.n))
        raise Unsupported("Series." + name)

    def invert(self, eng, p, node):
        return Custom(BoolSeries(z3.Not(self.val), self.n))

    def call_method(self, eng, p, name, args, kw, node):
        if name == "to_numpy" and not args:
            return [(p, Custom(BoolArr(self.val, self.n)))]
        raise Unsupported("Series." + name)


class ColName(H):
    def __init__(self, c):
        self.c = c

    def eq(self, eng, p, other):
        if isinstance(other, Custom) and isinstance(other.h, ColName):
            return self.c == other.h.c
        return eng.fresh("name_eq", z3.BoolSort())

    def isinstance(self, eng, p, tn):
        return z3.BoolVal("str" in tn)

    def truth(self, eng, p):
        return z3.BoolVal(True)


class ValSym(H):
    def __init__(self, z):
        self.z = z

    def isinstance(self, eng, p, tn):
        return eng.fresh("isinst_val", z3.BoolSort())


class OtherOp(H):
    """an operator string that equals none of the literals the function mentions and is no key of util.ops"""

    def eq(self, eng, p, other):
        if isinstance(other, Str):
            return z3.BoolVal(False)
        raise Unsupported("operator compared with a non-literal")

    def isinstance(self, eng, p, tn):
        return z3.BoolVal("str" in tn)

    def truth(self, eng, p):
        return z3.BoolVal(True)


class AnyOp(H):
    """operator of an atom drawn only for a shape test (its value must not matter)"""

    def eq(self, eng, p, other):
        raise Unsupported("operator of the shape-test atom inspected")

    def isinstance(self, eng, p, tn):
        return z3.BoolVal("str" in tn)


class OpFn(H):
    """util.ops[sym] = operator.<f>"""

    def __init__(self, f):
        self.f = f

    def call(self, eng, p, args, kw, node):
        n = NROWS
        if len(args) == 2 and not kw and isinstance(args[0], Custom) and isinstance(args[0].h, (Column, ColValues)) \
                and isinstance(args[1], Custom) and isinstance(args[1].h, ValSym) and self.f in PYOPS:
            t = CMP(args[0].h.c, PYOPS.index(self.f), args[1].h.z, R0)
            if isinstance(args[0].h, Column):
                return [(p, Custom(BoolSeries(t, n)))]
            return [(p, Custom(BoolArr(t, n)))]
        # anything else (operands swapped, another callable): a boolean array this contract knows nothing about
        return [(p, Custom(BoolArr(eng.fresh("unmodelled_comparison", z3.BoolSort()), n)))]


class OpsTable(H):
    def __init__(self, table):
        self.table = table            # symbol -> operator function name, from the real util.py

    def contains(self, eng, p, item):
        if isinstance(item, Str):
            return z3.BoolVal(item.s in self.table)
        if isinstance(item, Custom) and isinstance(item.h, OtherOp):
            return z3.BoolVal(False)
        raise Unsupported("`in ops` on " + type(getattr(item, "h", item)).__name__)

    def getitem(self, eng, p, i, node):
        if isinstance(i, Str) and i.s in self.table:
            return Custom(OpFn(self.table[i.s]))
        eng.oblige(p, "column_filter.ops_lookup_defined", "safety", z3.BoolVal(False), node, note="ops[op] with op not a key")
        return Custom(OpFn("?"))


class Column(H):
    """df[c]: pandas Series"""

    def __init__(self, c):
        self.c = c

    def attr(self, eng, p, name):
        if name == "values":
            return Custom(ColValues(self.c))
        raise Unsupported("Series." + name)

    def call_method(self, eng, p, name, args, kw, node):
        if name == "isin" and len(args) == 1 and not kw:
            if isinstance(args[0], Custom) and isinstance(args[0].h, ValSym):
                return [(p, Custom(BoolSeries(ISIN(self.c, args[0].h.z, R0), NROWS)))]
            return [(p, Custom(BoolSeries(eng.fresh("unmodelled_isin", z3.BoolSort()), NROWS)))]
        if name == "to_numpy" and not args:
            return [(p, Custom(ColValues(self.c)))]
        raise Unsupported("Series." + name)

    def invert(self, eng, p, node):
        return Custom(BoolSeries(z3.Not(CELL_TRUE(self.c, R0)), NROWS))


class ColValues(H):
    """df[c].values: numpy array of the cells"""

    def __init__(self, c):
        self.c = c

    def invert(self, eng, p, node):
        return Custom(BoolArr(z3.Not(CELL_TRUE(self.c, R0)), NROWS))

    def len(self, eng, p):
        return PyI(NROWS)


class Frame(H):
    def len(self, eng, p):
        return PyI(NROWS)

    def getitem(self, eng, p, i, node):
        if isinstance(i, Custom) and isinstance(i.h, ColName):
            eng.oblige(p, "column_filter.frame_has_column", "safety", z3.Not(IsPart(i.h.c)), node,
                       note="df holds the non-partition filter columns only: df[name] for a partition column is a KeyError")
            return Custom(Column(i.h.c))
        raise Unsupported("df[...] with something that is not an atom's column name")

    def attr(self, eng, p, name):
        if name == "shape":
            return Tup([PyI(NROWS), Opaque("ncols")])
        if name == "index":
            return Opaque("df.index")
        raise Unsupported("DataFrame." + name)


class Cats(H):
    def contains(self, eng, p, item):
        if isinstance(item, Custom) and isinstance(item.h, ColName):
            return IsPart(item.h.c)
        raise Unsupported("`in self.cats` on something that is not a column name")

    def truth(self, eng, p):
        return eng.fresh("has_partitions", z3.BoolSort())

    def arbitrary(self, eng, p):
        return Opaque(("partition_name", next(eng.counter)))


class PFSelf(H):
    def attr(self, eng, p, name):
        if name == "cats":
            return Custom(Cats())
        return Opaque("pf." + name)

    def call_method(self, eng, p, name, args, kw, node):
        # a helper METHOD of ParquetFile: executed from its real source
        r = eng.inline_helper("ParquetFile." + name, p, [Custom(self)] + list(args), kw, node) if hasattr(eng, "inline_helper") else None
        if r is None:
            raise Unsupported(f"self.{name}(): " + getattr(eng, "not_inlined", {}).get("ParquetFile." + name, "not a method of ParquetFile in api.py"))
        return r


class Atom(H):
    """a condition: a 3-sequence (column, op, value).  Whether it is written as a tuple or as a list is NOT fixed (free Boolean)"""

    def __init__(self, col, op, val, opclass=None, label="a condition"):
        self.col, self.op, self.val, self.opclass = col, op, val, opclass
        self.is_tuple = _container_bool("condition", label)

    def parts(self):
        return [Custom(ColName(self.col)), self.op, Custom(ValSym(self.val))]

    def getitem(self, eng, p, i, node):
        k = z3.simplify(eng.as_int(i))
        if not z3.is_int_value(k) or not -3 <= k.as_long() < 3:
            eng.oblige(p, "column_filter.index_in_range", "safety", z3.BoolVal(False), node, note="atom[...] outside 0..2")
            return Opaque("oob")
        return self.parts()[k.as_long()]

    def unpack(self, eng, p, n):
        if n != 3:
            raise Unsupported("atom unpacked into %d names" % n)
        return self.parts()

    def truth(self, eng, p):
        return z3.BoolVal(True)

    def len(self, eng, p):
        return PyI(3)

    def isinstance(self, eng, p, tn):
        return _seq_isinstance(eng, self, self.is_tuple, tn)


def _havoc(eng, q, names):
    """every variable the loop body may assign is arbitrary at the start of the arbitrary iteration. -> {name: z3 Bool} for the
    boolean arrays among them"""
    pre = {}
    arrs = [id(q.env[v].h) for v in names if isinstance(q.env.get(v), Custom) and isinstance(q.env[v].h, BoolArr)]
    if len(arrs) != len(set(arrs)):
        raise Unsupported("two loop variables are bound to the same array object (aliasing across iterations is not modelled)")
    for v in names:
        cur = q.env.get(v)
        if isinstance(cur, Custom) and isinstance(cur.h, BoolArr):
            b = eng.fresh(v + "_carried", z3.BoolSort())
            q.env[v] = Custom(BoolArr(b, cur.h.n))
            pre[v] = b
        elif isinstance(cur, PyI):
            q.env[v] = PyI(eng.fresh_int(v + "_carried"))
        elif isinstance(cur, PyB):
            q.env[v] = PyB(eng.fresh(v + "_carried", z3.BoolSort()))
        else:
            q.env[v] = Opaque((v, "carried", next(eng.counter)))
    return pre


class AtomList(H):
    """abstract list of atoms: an AND group (or the flat list)"""

    def __init__(self, eng, gid, label):
        self.gid, self.label = gid, label
        self.n = eng.fresh_int("n_atoms")
        self.items = {}
        # an AND group is a list or a tuple of conditions (free); the outer `filters` is a list (property text, docstrings)
        self.is_tuple = _container_bool("group", "an AND group") if label == "group" else None

    def len(self, eng, p):
        return PyI(self.n)

    def truth(self, eng, p):
        return self.n > 0

    def isinstance(self, eng, p, tn):
        return _seq_isinstance(eng, self, self.is_tuple, tn)

    def getitem(self, eng, p, i, node):
        k = z3.simplify(eng.as_int(i))
        eng.oblige(p, "column_filter.index_in_range", "safety", z3.And(k < self.n, k >= -self.n), node,
                   note="group[k]: the group holds more than k atoms")
        key = str(k)
        if key not in self.items:
            j = next(eng.counter)
            self.items[key] = Custom(Atom(z3.Const(f"shape_col!{j}", ColS), Custom(AnyOp()), z3.Const(f"shape_val!{j}", ValS),
                                          label=("filters" if self.label == "flat" else "group") + f"[{key}]"))
        return self.items[key]

    def arbitrary(self, eng, p):
        w = p.ghost.get("witness_atom")
        if w is None:
            j = next(eng.counter)
            w = Atom(z3.Const(f"acol!{j}", ColS), Custom(AnyOp()), z3.Const(f"aval!{j}", ValS))
        p.ghost.setdefault("drawn", []).append(("atom", self, w))
        return Custom(w)

    # ---- the loop over the atoms --------------------------------------------------------------------------------------
    def for_loop(self, eng, p, st):
        tag = eng.shape
        assigned = sorted(set(_assigned_names(st)) | _helper_array_args(st, eng, p))
        accs = [v for v in assigned if isinstance(p.env.get(v), Custom) and isinstance(p.env[v].h, BoolArr)]
        ok = True
        if not accs:
            raise Unsupported("the loop over the atoms of a group updates no boolean array of the model that exists when it starts")
        for v in accs:
            s = _pose(eng, p, NAMES[tag]["start"], p.env[v].h.get(p) == z3.BoolVal(True),
                      "the accumulator of an AND group is all-True when the loop over the group's atoms starts (for EVERY group: "
                      "the enclosing iteration starts from a havoc'd state)",
                      lambda m, v=v: {"accumulator": v, "value_at_witness_row_when_group_starts": _mv(m, p.env[v].h.get(p)),
                                      "note": "state carried from an earlier group / wrong start value"})
            ok = ok and s == PROVED
        outs = []
        for k, (cls, opv) in enumerate(eng.opclasses):
            body = p.fork()
            pre = _havoc(eng, body, assigned)
            j = next(eng.counter)
            atom = Atom(z3.Const(f"col!{j}", ColS), opv, z3.Const(f"val!{j}", ValS), cls, label="the condition of this iteration")
            body.ghost["cur_atom"] = atom
            for b in eng.assign(st.target, Custom(atom), body):
                for r in eng.block(st.body, [b]):
                    if r.ctl == "break":
                        eng.res.add(NAMES[tag]["step"].format(cls), REFUTED, {"note": "`break` leaves the group's loop early"},
                                    0.0, "engine")
                        ok = False
                        continue
                    if r.ctl not in (None, "continue"):
                        outs.append(r)          # return / raise inside the loop: a finished path of the function
                        continue
                    for v in accs:
                        post = r.env.get(v)
                        if not (isinstance(post, Custom) and isinstance(post.h, BoolArr)):
                            eng.res.add(NAMES[tag]["step"].format(cls), REFUTED, {"note": f"{v} is no longer a boolean array"},
                                        0.0, "engine")
                            ok = False
                            continue
                        s = self._step(eng, r, tag, cls, k, atom, v, pre[v], post.h.get(r))
                        ok = ok and s
        # exit: the accumulators hold the fold over ALL atoms of the group - by the argued induction, used only if proved
        ex = p.fork()
        _havoc(eng, ex, assigned)
        e_val = AND_G(self.gid) if ok else eng.fresh("unproved_fold", z3.BoolSort())
        for v in accs:
            ex.env[v] = Custom(BoolArr(e_val, p.env[v].h.n, origin=("and_exit", v)))
        ex.ghost["and_exit"] = (self, e_val, ok)
        if not ok:
            ex.ghost["lemma_failed"] = NAMES[tag]["start"] + " / " + NAMES[tag]["step"].format("*")
        return [ex] + outs

    def _step(self, eng, r, tag, cls, k, atom, v, pre, post):
        """obligations of one arbitrary iteration; -> True iff the lemma part (data column, grammar operator) is proved"""
        part = IsPart(atom.col)
        on_part = solve([*r.pc, z3.Not(part)], eng.timeout)[0] == PROVED          # the path condition implies `name in self.cats`

        def mdl(sat_term, what):
            return lambda m: {"operator": cls, "accumulator": v, "before": _mv(m, pre), "after": _mv(m, post),
                              what: _mv(m, sat_term), "atom_on_partition_column": _mv(m, part)}
        if on_part:
            sat = PART_SAT(atom.col, k, atom.val, R0)
            _pose(eng, r, f"column_filter.partition_atoms_honoured[{tag}]", post == z3.And(pre, sat),
                  "an atom on a partition column: accumulator' == accumulator AND (the row's partition value satisfies the atom)",
                  mdl(sat, "row_partition_value_satisfies_atom"))
            return True       # outside the lemma: AND_G ranges over the data-column atoms (known finding when refuted)
        if solve([*r.pc, part], eng.timeout)[0] != PROVED:
            # the path does not separate partition columns from data columns: the partition side of the claim is posed as well
            sat = PART_SAT(atom.col, k, atom.val, R0)
            _pose(eng, r, f"column_filter.partition_atoms_honoured[{tag}]", post == z3.And(pre, sat),
                  "an atom on a partition column: accumulator' == accumulator AND (the row's partition value satisfies the atom)",
                  mdl(sat, "row_partition_value_satisfies_atom"), extra=[part])
        if cls in GRAMMAR:
            sat = sat_spec(atom.col, cls, atom.val)
            s = _pose(eng, r, NAMES[tag]["step"].format(cls), post == z3.And(pre, sat),
                      f"one iteration for a data-column atom (c, '{cls}', v): accumulator' == accumulator AND sat(atom)(r0)",
                      mdl(sat, "row_satisfies_atom"), extra=[z3.Not(part)])
            return s == PROVED
        _pose(eng, r, f"column_filter.unknown_operator_never_true[{tag}]", post == z3.BoolVal(False),
              "an atom whose operator is outside the grammar is satisfied by no row: accumulator' == accumulator AND False "
              "(or the call raises) - it must not silently count as True",
              lambda m: {"operator": cls, "accumulator": v, "before": _mv(m, pre), "after": _mv(m, post)}, extra=[z3.Not(part)])
        return True           # outside the lemma: AND_G ranges over grammar operators (known finding when refuted)


NAMES = {
    "nested": {"start": "column_filter.and_fold_starts_true_each_group", "step": "column_filter.and_step[op={}]"},
    "flat": {"start": "column_filter.flat_is_and[fold over the list starts all-True]", "step": "column_filter.flat_is_and[step,op={}]"},
}
NAMES["mixed"] = NAMES["nested"]          # (the group iteration of the mixed run repeats the nested one; its results are dropped)


def sat_spec(c, op, v):
    """meaning of a data-column atom at the witness row, from the documented grammar"""
    if op == "in":
        return ISIN(c, v, R0)
    if op == "not in":
        return z3.Not(ISIN(c, v, R0))
    if op in SPEC_CMP:
        return CMP(c, PYOPS.index(SPEC_CMP[op]), v, R0)
    if op == "~":
        return z3.Not(CELL_TRUE(c, R0))
    return z3.BoolVal(False)


class GroupList(H):
    """abstract list of AND groups (filters in its nested shape)"""

    def __init__(self, eng):
        self.n = eng.fresh_int("n_groups")
        self.items = {}
        self.eng_counter = eng.counter

    def new_group(self, eng):
        g = AtomList(eng, eng.fresh_int("gid"), "group")
        return g

    def len(self, eng, p):
        return PyI(self.n)

    def truth(self, eng, p):
        return self.n > 0

    def isinstance(self, eng, p, tn):
        return _seq_isinstance(eng, self, None, tn)

    def getitem(self, eng, p, i, node):
        k = z3.simplify(eng.as_int(i))
        eng.oblige(p, "column_filter.index_in_range", "safety", z3.And(k < self.n, k >= -self.n), node, note="filters[k] exists")
        key = str(k)
        if key not in self.items:
            g = self.new_group(eng)
            TYPE_BOOLS[str(g.is_tuple)] = f"filters[{key}] (an AND group)"
            self.items[key] = Custom(g)
        p.pc.append(self.items[key].h.n >= 1)
        return self.items[key]

    def arbitrary(self, eng, p):
        g = p.ghost.get("witness_group")
        if g is None:
            g = self.new_group(eng)
        p.pc.append(g.n >= 1)
        p.ghost.setdefault("drawn", []).append(("group", self, g))
        return Custom(g)

    def for_loop(self, eng, p, st):
        tag = eng.shape
        assigned = sorted(set(_assigned_names(st)) | _helper_array_args(st, eng, p))
        accs = [v for v in assigned if isinstance(p.env.get(v), Custom) and isinstance(p.env[v].h, BoolArr)]
        rec = {"entry": {v: (p.env[v].h.get(p), list(p.pc), list(p.axioms)) for v in accs}, "steps": [], "exit": {}, "late": {}}
        eng.or_loops.append(rec)
        outs = []
        if tag == "mixed":
            # shape outside the C05 grammar (reachable through read_row_group_file(row_filter=[...]) only): a list of groups
            # that also holds BARE atoms; the arbitrary member is a bare atom, once per operator class
            for k, (cls, opv) in enumerate(eng.opclasses):
                body = p.fork()
                pre = _havoc(eng, body, assigned)
                j = next(eng.counter)
                atom = Atom(z3.Const(f"col!{j}", ColS), opv, z3.Const(f"val!{j}", ValS), cls, label="the bare condition of this iteration")
                for b in eng.assign(st.target, Custom(atom), body):
                    for r in eng.block(st.body, [b]):
                        if r.ctl in (None, "continue"):
                            rec["steps"].append(("atom", r, pre, (atom, cls, k)))
                        elif r.ctl == "break":
                            rec["steps"].append(("break", r, None, None))
                        else:
                            outs.append(r)
        body = p.fork()
        pre = _havoc(eng, body, assigned)
        g = self.new_group(eng)
        body.pc.append(g.n >= 1)
        for b in eng.assign(st.target, Custom(g), body):
            for r in eng.block(st.body, [b]):
                if r.ctl == "break":
                    rec["steps"].append(("break", r, None, None))
                    continue
                if r.ctl not in (None, "continue"):
                    outs.append(r)
                    continue
                rec["steps"].append(("step", r, pre, g))
                for v in assigned:
                    if v not in accs and isinstance(r.env.get(v), Custom) and isinstance(r.env[v].h, BoolArr) and v not in rec["late"]:
                        rec["late"][v] = r.env[v].h.n
        ex = p.fork()
        _havoc(eng, ex, assigned)
        for v, n in rec["late"].items():
            # a boolean array (re)created inside the loop: after the loop it holds what the LAST iteration left
            e = eng.fresh("left_by_last_group_" + v, z3.BoolSort())
            ex.env[v] = Custom(BoolArr(e, n, origin=("late", v)))
            rec["exit"][v] = e
        for v in accs:
            e = eng.fresh("OR_over_all_groups_" + v, z3.BoolSort())
            ex.env[v] = Custom(BoolArr(e, p.env[v].h.n, origin=("or_exit", v)))
            rec["exit"][v] = e
        return [ex] + outs


def _h_np_fill(value):
    def h(eng, p, args, kw, node):
        dt = kw.get("dtype", args[1] if len(args) > 1 else None)
        if not ((isinstance(dt, Opaque) and dt.tag in ("global:bool", ("global:np", "bool_"))) or (isinstance(dt, Str) and dt.s in ("bool", "?"))):
            raise Unsupported("np.zeros / np.ones without dtype=bool")
        return [(p, Custom(BoolArr(z3.BoolVal(value), eng.as_int(args[0], p, node), origin="np." + ("ones" if value else "zeros"))))]
    return h


def _h_np_fill_like(value):
    def h(eng, p, args, kw, node):
        if len(args) == 1 and not kw and isinstance(args[0], Custom) and isinstance(args[0].h, BoolArr):
            return [(p, Custom(BoolArr(z3.BoolVal(value), args[0].h.n)))]
        raise Unsupported("np.zeros_like / np.ones_like of something that is not a boolean array")
    return h


def load_ops_table():
    """symbol -> operator function name, from the real fastparquet/util.py"""
    tree = ast.parse(open(os.path.join(REPO, "fastparquet/util.py")).read())
    for n in tree.body:
        if isinstance(n, ast.Assign) and len(n.targets) == 1 and isinstance(n.targets[0], ast.Name) and n.targets[0].id == "ops" \
                and isinstance(n.value, ast.Dict):
            out = {}
            for k, v in zip(n.value.keys, n.value.values):
                if not (isinstance(k, ast.Constant) and isinstance(k.value, str)):
                    raise Unsupported("util.ops: key that is not a string literal")
                src = ast.unparse(v)
                out[k.value] = src[len("operator."):] if src.startswith("operator.") else src
            return out, n
    raise Unsupported("util.ops not found as a module-level dict literal")


def _opclasses(fn, table):
    """grammar operators + every other string literal the function mentions or util.ops defines + 'some other string'"""
    lits = set()
    doc = ast.get_docstring(fn.tree)
    for n in ast.walk(fn.tree):
        if isinstance(n, ast.Constant) and isinstance(n.value, str) and n.value != doc:
            lits.add(n.value)
    classes = [(s, Str(s)) for s in GRAMMAR]
    classes += [(s, Str(s)) for s in sorted((lits | set(table)) - set(GRAMMAR))]
    classes.append(("<other>", Custom(OtherOp())))
    return classes


def run_column_filter(ctx, funcs, timeout, shape):
    res = Results()
    fn = funcs["ParquetFile._column_filter"]
    table, _ = load_ops_table()
    eng = RFEngine(funcs=funcs, handlers={"np.zeros": _h_np_fill(False), "np.ones": _h_np_fill(True), "np.zeros_like": _h_np_fill_like(False),
                             "np.ones_like": _h_np_fill_like(True)},
                   consts={"ops": Custom(OpsTable(table))}, opaque_calls=True)
    eng.res, eng.timeout, eng.shape, eng.or_loops = res, timeout, shape, []
    eng.opclasses = _opclasses(fn, table)
    p = Path()
    p.pc += [NROWS >= 1, R0 >= 0, R0 < NROWS]
    if shape in ("nested", "mixed"):
        filters = GroupList(eng)
    else:
        filters = AtomList(eng, z3.IntVal(-7), "flat")
    p.pc.append(filters.n >= 1)
    if solve(list(p.pc), timeout)[0] == REFUTED:
        ctx.vacuity["requires_sat"] += 1
    else:
        ctx.engine_error(f"_column_filter[{shape}]: precondition unsatisfiable")
    outs = eng.run("ParquetFile._column_filter", p, [Custom(PFSelf()), Custom(Frame()), Custom(filters)])
    if shape == "mixed":
        keep = Results()
        for q in outs:
            if q.ctl[0] == "ret" and isinstance(q.ctl[1], Custom) and isinstance(q.ctl[1].h, BoolArr):
                _mixed_post(eng, keep, q, q.ctl[1].h.get(q), timeout)
        if not keep.order:
            keep.add("column_filter.bare_atom_or_step.out_of_reach", UNKNOWN, None, 0.0, "engine", "no bare-atom iteration reached the end of the loop body")
        return keep
    # engine-emitted safety obligations + the ones the model objects emitted
    from vc import backends
    for ob in eng.oblig:
        st, be, secs, m = backends.discharge(ob, timeout)
        nm = ob.name if ob.name.startswith("column_filter.") else "column_filter." + ob.name.split("._column_filter.", 1)[-1].split("@")[0]
        res.add(f"{nm}[{shape}]", st, {"z3_model": str(m)[:300], "line": ob.lineno} if m is not None else None, secs, be, ob.note or ob.kind)
    rets = [q for q in outs if q.ctl[0] == "ret"]
    for q in outs:
        if q.ctl[0] == "raise":
            s, m, secs = solve([*q.pc, *q.axioms], timeout)
            res.add(f"column_filter.no_raise_within_grammar[{shape}]", PROVED if s == PROVED else REFUTED,
                    {"raises": q.ctl[1], "z3_model": str(m)[:300]} if m is not None else None, secs, "z3",
                    "no exception for a frame holding the filter columns and filters within the grammar")
    if not rets:
        ctx.engine_error(f"_column_filter[{shape}]: no returning path")
    ctx.vacuity["covers"] += len(rets)
    for q in rets:
        v = q.ctl[1]
        if not (isinstance(v, Custom) and isinstance(v.h, BoolArr)):
            res.add(f"column_filter.returns_or_accumulator[{shape}]", UNKNOWN if isinstance(v, Opaque) else REFUTED,
                    {"note": "the result is not a boolean array of the model: " + type(getattr(v, "h", v)).__name__}, 0.0, "engine",
                    "the result is the accumulator of the OR over the groups")
            continue
        val = v.h.get(q)
        st, m, secs = solve([*q.pc, *q.axioms, v.h.n != NROWS], timeout)
        res.add(f"column_filter.result_length_is_frame_length[{shape}]", st, {"z3_model": str(m)[:200]} if m is not None else None, secs, "z3",
                "len(result) == len(df)")
        if shape == "flat":
            goal = val == AND_G(filters.gid)
            nm = "column_filter.flat_is_and[result is the AND over the whole list]"
            det = "flat list of atoms: result[r0] == AND over ALL atoms of the list (the list is ONE AND group)"
            if q.ghost.get("lemma_failed"):
                res.add(nm, UNKNOWN, None, 0.0, "engine", det + " - not decided: depends on " + q.ghost["lemma_failed"] + ", not proved in this run")
                continue
            st, m, secs = solve([*q.pc, *q.axioms, z3.Not(goal)], timeout)
            res.add(nm, st, {"result_at_witness_row": _mv(m, val), "AND_over_all_atoms_of_the_flat_list": _mv(m, AND_G(filters.gid))} if m is not None else None,
                    secs, "z3", det)
            # must-fail guard: the result is not constant
            if solve([*q.pc, *q.axioms, val], timeout)[0] == REFUTED and solve([*q.pc, *q.axioms, z3.Not(val)], timeout)[0] == REFUTED:
                ctx.vacuity["must_fail_sat"] += 1
            else:
                ctx.engine_error("_column_filter[flat]: the modelled result is constant (vacuous model)")
        else:
            _nested_post(eng, res, q, v, val, timeout)
    if shape == "nested" and not eng.or_loops:
        res.add("column_filter.or_step", REFUTED, {"note": "no loop over the OR groups was executed"}, 0.0, "engine")
    return res


def _nested_post(eng, res, q, v, rv, timeout):
    """(i) out starts False, (ii) out' == out OR E_g, and the function returns that accumulator"""
    loop = var = None
    for rec in eng.or_loops:
        for name, e in rec["exit"].items():
            if z3.eq(z3.simplify(rv), e) or z3.eq(rv, e):
                loop, var = rec, name
    if loop is None:
        st, m, secs = solve([*q.pc, *q.axioms], timeout)
        res.add("column_filter.returns_or_accumulator", REFUTED if st == REFUTED else UNKNOWN,
                {"returned_value_at_witness_row": str(z3.simplify(rv))[:200]}, secs, "z3",
                "the result is exactly the boolean array that the loop over the OR groups accumulates into")
        return
    det_r = "the result is exactly the boolean array that the loop over the OR groups accumulates into (it exists, all-False, before the loop)"
    if var in loop["late"]:
        res.add("column_filter.returns_or_accumulator", REFUTED,
                {"returned": var, "note": "the returned array is (re)created inside the loop over the OR groups: it holds only what the last group left - "
                                          "the earlier groups are lost"}, 0.0, "engine", det_r)
        return
    res.add("column_filter.returns_or_accumulator", PROVED, None, 0.0, "syntactic", det_r)
    val, pc, ax = loop["entry"][var]
    st, m, secs = solve([*pc, *ax, z3.Not(val == z3.BoolVal(False))], timeout)
    res.add("column_filter.out_starts_false", st, {"accumulator": var, "value_at_witness_row_before_first_group": _mv(m, val)} if m is not None else None,
            secs, "z3", "the OR accumulator is all-False before the first group")
    n_steps = 0
    for kind, r, pre, g in loop["steps"]:
        name = "column_filter.or_step"
        if kind == "break":
            res.add(name, REFUTED, {"note": "`break` leaves the loop over the OR groups early"}, 0.0, "engine")
            continue
        n_steps += 1
        post = r.env.get(var)
        ae = r.ghost.get("and_exit")
        if not (isinstance(post, Custom) and isinstance(post.h, BoolArr)):
            res.add(name, REFUTED, {"note": f"{var} is no longer a boolean array"}, 0.0, "engine")
            continue
        if ae is None or ae[0] is not g:
            res.add(name, REFUTED, {"note": "the iteration for a group did not fold the atoms of THAT group"}, 0.0, "engine",
                    "one iteration for group g: out' == out OR E_g")
            continue
        goal = post.h.get(r) == z3.Or(pre[var], ae[1])
        st, m, secs = solve([*r.pc, *r.axioms, z3.Not(goal)], timeout)
        res.add(name, st, {"accumulator": var, "before": _mv(m, pre[var]), "group_value_E_g": _mv(m, ae[1]), "after": _mv(m, post.h.get(r))} if m is not None else None,
                secs, "z3", "one arbitrary iteration for group g from a havoc'd state: out' == out OR E_g (E_g: the group's accumulator "
                "when the loop over its atoms ends; == AND_G(g) when the AND-fold steps are proved)")
    if n_steps == 0:
        res.add("column_filter.or_step", REFUTED, {"note": "no iteration of the loop over the OR groups completes"}, 0.0, "engine")


def _mixed_post(eng, res, q, rv, timeout):
    """a bare atom inside a list of groups is a one-atom group: out' == out OR sat(atom)"""
    for rec in eng.or_loops:
        for var, e in rec["exit"].items():
            if not (z3.eq(z3.simplify(rv), e) or z3.eq(rv, e)) or var in rec["late"]:
                continue
            for kind, r, pre, info in rec["steps"]:
                if kind != "atom":
                    continue
                atom, cls, k = info
                post = r.env.get(var)
                if not (isinstance(post, Custom) and isinstance(post.h, BoolArr)):
                    continue
                part = IsPart(atom.col)
                pv = post.h.get(r)
                mdl = lambda m, pv=pv, pre=pre: {"operator": cls, "accumulator": var, "before": _mv(m, pre[var]), "after": _mv(m, pv),
                                                 "atom_on_partition_column": _mv(m, part)}
                if solve([*r.pc, z3.Not(part)], timeout)[0] == PROVED:
                    goal, name = pv == z3.Or(pre[var], PART_SAT(atom.col, k, atom.val, R0)), "column_filter.partition_atoms_honoured[mixed]"
                    det = "a bare atom on a partition column: out' == out OR (the row's partition value satisfies the atom)"
                    extra = []
                else:
                    goal, name = pv == z3.Or(pre[var], sat_spec(atom.col, cls, atom.val)), f"column_filter.bare_atom_or_step[op={cls}]"
                    det = "list of groups that also holds a bare atom (outside the grammar; reachable through read_row_group_file(row_filter=[...])): " \
                          "one iteration for a bare data-column atom: out' == out OR sat(atom)(r0); an unknown operator contributes nothing"
                    extra = [z3.Not(part)]
                st, m, secs = solve([*r.pc, *r.axioms, *extra, z3.Not(goal)], timeout)
                res.add(name, st, mdl(m) if m is not None else None, secs, "z3", det)


def check_ops_table(ctx, res):
    """util.ops maps each comparison symbol of the grammar to the operator it denotes, and nothing else"""
    table, node = load_ops_table()
    bad = {k: v for k, v in table.items() if SPEC_CMP.get(k) != v}
    missing = [k for k in SPEC_CMP if k not in table]
    ok = not bad and not missing
    res.add("ops_table.symbol_denotes_its_operator", PROVED if ok else REFUTED, None if ok else {"wrong_or_extra": bad, "missing": missing},
            0.0, "ast", "util.ops == {'==': eq, '=': eq, '!=': ne, '>': gt, '>=': ge, '<': lt, '<=': le} (operator module functions)")


# =========================================================================================================================
# PART 2 - _columns_from_filters
# =========================================================================================================================
def _h_sum(eng, p, args, kw, node):
    """sum(list_of_lists, []) = concatenation;  sum(rg.num_rows for rg in rgs) = ROWS_BEFORE(len(rgs))"""
    v = args[0]
    if len(args) == 2 and isinstance(args[1], Tup) and not args[1].items and isinstance(v, Custom) and isinstance(v.h, AbstractComp):
        e = v.h.elt
        if isinstance(e, Tup) and e.is_list and len(e.items) == 1:
            return [(p, Custom(AbstractComp(e.items[0], v.h.guard, v.h.coll)))]
        if isinstance(e, Custom) and isinstance(e.h, AbstractComp):
            return [(p, Custom(AbstractComp(e.h.elt, z3.And(v.h.guard, e.h.guard), v.h.coll)))]
        raise Unsupported("sum(..., []) over something that is not a list of one-element lists / of comprehensions")
    if len(args) == 1 and isinstance(v, Custom) and isinstance(v.h, AbstractComp) and isinstance(v.h.coll, Custom) \
            and isinstance(v.h.coll.h, RGList) and isinstance(v.h.elt, PyI):
        rgl, e = v.h.coll.h, v.h.elt.z
        if z3.is_true(z3.simplify(v.h.guard)) and z3.is_app(e) and e.decl().eq(rgl.NR):
            p.axioms += rgl.total_facts()
            return [(p, PyI(rgl.PS(rgl.N)))]
        return [(p, PyI(eng.fresh_int("sum_of_something_else")))]
    if isinstance(v, (Opaque, Custom)):
        return [(p, Opaque(("sum", next(eng.counter))))]
    raise Unsupported("sum")


def _h_set(eng, p, args, kw, node):
    if len(args) == 1 and isinstance(args[0], Custom) and isinstance(args[0].h, AbstractComp):
        return [(p, args[0])]           # same members
    raise Unsupported("set() of " + type(getattr(args[0], "h", args[0])).__name__ if args else "set()")


def run_columns_from_filters(ctx, funcs, timeout, shape):
    res = Results()
    eng = RFEngine(funcs=funcs, handlers={"sum": _h_sum, "set": _h_set}, opaque_calls=True)
    eng.res, eng.timeout, eng.shape = res, timeout, shape
    p = Path()
    c0, v0 = z3.Const("witness_atom_column", ColS), z3.Const("witness_atom_value", ValS)
    a0 = Atom(c0, Custom(AnyOp()), v0)
    p.ghost["witness_atom"] = a0
    if shape == "nested":
        filters = GroupList(eng)
        g0 = filters.new_group(eng)
        p.ghost["witness_group"] = g0
    else:
        filters = AtomList(eng, z3.IntVal(-7), "flat")
    p.pc.append(filters.n >= 1)
    outs = eng.run("ParquetFile._columns_from_filters", p, [Custom(PFSelf()), Custom(filters)])
    from vc import backends
    for ob in eng.oblig:
        st, be, secs, m = backends.discharge(ob, timeout)
        nm = "columns_from_filters." + ob.name.split(".")[-1].split("@")[0]
        res.add(f"{nm}[{shape}]", st, {"z3_model": str(m)[:300]} if m is not None else None, secs, be, ob.note or ob.kind)
    name = f"columns_from_filters.exactly_nonpartition_filter_columns[{shape}]"
    detail = ("for the witness atom (arbitrary atom of an arbitrary group of `filters`): its column name is a member of the result "
              "iff it is not a partition column, and every member is such a name")
    n = 0
    for q in outs:
        if q.ctl[0] != "ret":
            res.add(name, REFUTED, {"raises": q.ctl[1]}, 0.0, "engine", detail)
            continue
        n += 1
        v = q.ctl[1]
        drawn = [d for d in q.ghost.get("drawn", []) if d[0] == "atom" and d[2] is a0]
        from_filters = bool(drawn) and (shape == "flat" and drawn[0][1] is filters or
                                        shape == "nested" and any(d[0] == "group" and d[1] is filters for d in q.ghost.get("drawn", [])))
        if not (isinstance(v, Custom) and isinstance(v.h, AbstractComp) and isinstance(v.h.elt, Custom) and isinstance(v.h.elt.h, ColName)
                and from_filters):
            res.add(name, REFUTED, {"note": "the result is not a comprehension of column names over the atoms of `filters`"}, 0.0, "engine", detail)
            continue
        goal = z3.And(v.h.elt.h.c == c0, v.h.guard == z3.Not(IsPart(c0)))
        st, m, secs = solve([*q.pc, *q.axioms, z3.Not(goal)], timeout)
        res.add(name, st, {"witness_column_is_partition_column": _mv(m, IsPart(c0)), "included_in_result": _mv(m, v.h.guard),
                           "member_is_the_atoms_column": _mv(m, v.h.elt.h.c == c0)} if m is not None else None, secs, "z3", detail)
    ctx.vacuity["covers"] += n
    if n == 0:
        ctx.engine_error(f"_columns_from_filters[{shape}]: no returning path")
    return res


# =========================================================================================================================
# PART 3 - to_pandas (selection cut into per-row-group pieces) and count
# =========================================================================================================================
class ConstList(H):
    """[x] * n"""

    def __init__(self, item, n):
        self.item, self.n = item, n

    def len(self, eng, p):
        return PyI(self.n)

    def getitem(self, eng, p, i, node):
        return self.item


class RGAbs(H):
    def __init__(self, rgl, k):
        self.rgl, self.k = rgl, k

    def attr(self, eng, p, name):
        if name == "num_rows":
            return PyI(self.rgl.NR(self.k))
        return Opaque(("rg." + name, str(self.k)))

    def desc(self):
        return ("row_group", self.rgl.tag, str(z3.simplify(self.k)))


def _append_targets(st):
    out = set()
    for n in ast.walk(ast.Module(body=st.body, type_ignores=[])):
        if isinstance(n, ast.Call) and isinstance(n.func, ast.Attribute) and n.func.attr in ("append", "extend", "insert") \
                and isinstance(n.func.value, ast.Name):
            out.add(n.func.value.id)
    return sorted(out)


class RGList(H):
    """abstract list of row groups: N, num_rows(k) >= 0, ROWS_BEFORE = prefix sum (used through instances only)"""

    def __init__(self, tag):
        self.tag = tag
        self.N = z3.Int(f"n_row_groups_{tag}")
        self.NR = z3.Function(f"num_rows_{tag}", z3.IntSort(), z3.IntSort())
        self.PS = z3.Function(f"ROWS_BEFORE_{tag}", z3.IntSort(), z3.IntSort())

    def facts(self, k):
        return [self.PS(0) == 0, self.PS(k + 1) == self.PS(k) + self.NR(k), self.NR(k) >= 0, self.N >= 0]

    def total_facts(self):
        return [self.PS(0) == 0, self.N >= 0]

    def len(self, eng, p):
        p.pc.append(self.N >= 0)
        return PyI(self.N)

    def truth(self, eng, p):
        p.pc.append(self.N >= 0)
        return self.N > 0

    def slice(self, eng, p, lo, hi, node):
        if lo is None and hi is None:
            return Custom(self)                  # rgs[:] - a copy with the same members
        raise Unsupported("slice of the row-group list")

    def arbitrary(self, eng, p):
        k = eng.fresh_int("k_member")
        p.pc += [0 <= k, k < self.N]
        p.axioms += self.facts(k)
        return Custom(RGAbs(self, k))

    def isinstance(self, eng, p, tn):
        return z3.BoolVal("list" in tn)

    def desc(self):
        return ("row_groups", self.tag)

    # ---- loop 1: `for rg in rgs[:]: selected.append(sel[start:start+rg.num_rows]); start += rg.num_rows` -----------------
    def for_loop(self, eng, p, st):
        name_c = f"to_pandas.mask_cursor_is_rows_before_row_group[{eng.mode}]"
        name_p = f"to_pandas.mask_piece_is_row_group_rows[{eng.mode}]"
        assigned = _assigned_names(st)
        lists = [v for v in _append_targets(st) if v in p.env]
        ints = [v for v in assigned if isinstance(p.env.get(v), PyI)]
        sel_mask = eng.selection(p)
        if sel_mask is None:
            raise Unsupported("loop over the row groups with no selection mask in scope")
        p.axioms += self.total_facts()
        entry_ok = {}
        for v in ints:
            st0, _, _ = solve([*p.pc, *p.axioms, p.env[v].z != self.PS(0)], eng.timeout)
            entry_ok[v] = st0 == PROVED
        for v in lists:
            cur = p.env[v]
            if not (isinstance(cur, Tup) and cur.is_list and not cur.items):
                raise Unsupported(f"list {v} is not empty when the loop over the row groups starts")
        cands = [v for v in ints if entry_ok[v]]
        for _round in range(4):
            k = eng.fresh_int("k_row_group")
            body = p.fork()
            body.pc += [0 <= k, k < self.N]
            body.axioms += self.facts(k)
            pre = {}
            for v in assigned:
                if v in ints:
                    s = eng.fresh_int(v + "_carried")
                    body.env[v] = PyI(s)
                    pre[v] = s
                    if v in cands:
                        body.pc.append(s == self.PS(k))
                elif v not in lists:
                    body.env[v] = Opaque((v, "carried", next(eng.counter)))
            sls = {}
            for v in lists:
                sls[v] = SelList(k, None, False)
                body.env[v] = Custom(sls[v])
            ends, outs = [], []
            for b in eng.assign(st.target, Custom(RGAbs(self, k)), body):
                for r in eng.block(st.body, [b]):
                    if r.ctl in (None, "continue"):
                        ends.append(r)
                    elif r.ctl == "break":
                        eng.res.add(name_p, REFUTED, {"note": "`break`: later row groups get no piece"}, 0.0, "engine")
                    else:
                        outs.append(r)
            failed = []
            for r in ends:
                for v in cands:
                    post = r.env.get(v)
                    ok = isinstance(post, PyI) and solve([*r.pc, *r.axioms, post.z != self.PS(k + 1)], eng.timeout)[0] == PROVED
                    if not ok and v not in failed:
                        failed.append(v)
            # the cursor(s): integer loop variables that occur in the bounds of an appended piece
            cursors = set()
            for r in ends:
                for v in lists:
                    for item in r.ghost.get(("appends", id(sls[v])), []):
                        if isinstance(item, Custom) and isinstance(item.h, MaskPiece):
                            for w, s in pre.items():
                                if _occurs(s, item.h.lo) or _occurs(s, item.h.hi):
                                    cursors.add(w)
            drop = [v for v in failed if v not in cursors]
            if not drop:
                break
            cands = [v for v in cands if v not in drop]       # not a row cursor: no invariant is claimed for it
        # ---- obligations of the arbitrary iteration --------------------------------------------------------------------
        det_c = "loop invariant: the cursor into the selection == number of rows of the row groups before this one " \
                "(0 on entry; ROWS_BEFORE(k+1) after the body for row group k)"
        for v in sorted(cursors):
            eng.res.add(name_c, PROVED if entry_ok[v] else REFUTED, None if entry_ok[v] else {"cursor": v, "note": "not 0 before the first row group"},
                        0.0, "z3", det_c)
        pieces_ok = bool(lists) and bool(ends)
        for r in ends:
            for v in sorted(cursors):
                if v in cands:
                    post = r.env.get(v)
                    if isinstance(post, PyI):
                        s = _pose(eng, r, name_c, post.z == self.PS(k + 1), det_c,
                                  lambda m, v=v, post=post: {"cursor": v, "k": _mv(m, k), "rows_before_k": _mv(m, self.PS(k)), "num_rows_k": _mv(m, self.NR(k)),
                                                             "cursor_after_body": _mv(m, post.z)})
                    else:
                        eng.res.add(name_c, REFUTED, {"cursor": v, "note": "no longer an integer"}, 0.0, "engine", det_c)
            for v in lists:
                apps = r.ghost.get(("appends", id(sls[v])), [])
                det = "exactly one piece is appended per row group k, and it is selection[ROWS_BEFORE(k) : ROWS_BEFORE(k+1)] - " \
                      "in list order the pieces tile [0, total rows) "
                if len(apps) != 1 or not (isinstance(apps[0], Custom) and isinstance(apps[0].h, MaskPiece) and apps[0].h.mask is sel_mask):
                    eng.res.add(name_p, REFUTED, {"list": v, "appended_in_one_iteration": len(apps),
                                                  "note": "not exactly one slice of the selection"}, 0.0, "engine", det)
                    pieces_ok = False
                    continue
                pc = apps[0].h
                loose = [w for w, sv in pre.items() if (_occurs(sv, pc.lo) or _occurs(sv, pc.hi)) and w not in cands]
                if loose:
                    eng.res.add(name_p, UNKNOWN, None, 0.0, "engine", det + f"- not decided: depends on the cursor invariant of {loose}, not established in this run")
                    pieces_ok = False
                    continue
                s = _pose(eng, r, name_p, z3.And(pc.lo == self.PS(k), pc.hi == self.PS(k + 1)), det,
                          lambda m, pc=pc: {"k": _mv(m, k), "rows_before_k": _mv(m, self.PS(k)), "num_rows_k": _mv(m, self.NR(k)),
                                            "piece_from": _mv(m, pc.lo), "piece_to": _mv(m, pc.hi)})
                pieces_ok = pieces_ok and s == PROVED
        if not lists:
            eng.res.add(name_p, REFUTED, {"note": "the loop over the row groups appends to no list"}, 0.0, "engine")
        # ---- exit ----------------------------------------------------------------------------------------------------------
        ex = p.fork()
        for v in assigned:
            if v in ints:
                proved = v in cands and v not in failed
                ex.env[v] = PyI(self.PS(self.N)) if proved else PyI(eng.fresh_int(v + "_after_loop"))
            elif v not in lists:
                ex.env[v] = Opaque((v, "after_loop", next(eng.counter)))
        for v in lists:
            ex.env[v] = Custom(SelList(self.N, (sel_mask, self) if pieces_ok else None, pieces_ok))
        return [ex] + outs


def _occurs(const, term):
    if z3.eq(const, term):
        return True
    return any(_occurs(const, c) for c in term.children())


class Mask(H):
    """boolean selection over all rows of the kept row groups"""

    def __init__(self, L, label, origin=None):
        self.L, self.label, self.origin = L, label, origin
        self.CT = z3.Function("COUNT_TRUE_" + label, z3.IntSort(), z3.IntSort(), z3.IntSort())

    def len(self, eng, p):
        return PyI(self.L)

    def slice(self, eng, p, lo, hi, node):
        a = eng.as_int(lo, p, node) if lo is not None else z3.IntVal(0)
        b = eng.as_int(hi, p, node) if hi is not None else self.L
        return Custom(MaskPiece(self, a, b))

    def call_method(self, eng, p, name, args, kw, node):
        if name == "sum" and not args and not kw:
            return [(p, PyI(self.CT(0, self.L)))]
        if name == "all" and not args and not kw:         # COUNT_TRUE(a, b) == b - a iff the segment is all True
            return [(p, PyB(self.CT(0, self.L) == self.L))]
        if name == "any" and not args and not kw:
            return [(p, PyB(self.CT(0, self.L) > 0))]
        raise Unsupported("mask." + name)

    def isinstance(self, eng, p, tn):
        return z3.BoolVal("ndarray" in tn)

    def invert(self, eng, p, node):
        return Custom(Mask(self.L, "negated_" + self.label, origin=("negation_of", self.desc())))

    def desc(self):
        return self.origin if self.origin is not None else ("mask", self.label)


class MaskPiece(H):
    def __init__(self, mask, lo, hi):
        self.mask, self.lo, self.hi = mask, lo, hi

    def call_method(self, eng, p, name, args, kw, node):
        if name == "sum" and not args and not kw:
            return [(p, PyI(self.mask.CT(self.lo, self.hi)))]
        if name == "all" and not args and not kw:
            return [(p, PyB(self.mask.CT(self.lo, self.hi) == self.hi - self.lo))]
        if name == "any" and not args and not kw:
            return [(p, PyB(self.mask.CT(self.lo, self.hi) > 0))]
        raise Unsupported("mask piece." + name)

    def is_none(self, eng, p):
        return z3.BoolVal(False)

    def len(self, eng, p):
        return PyI(self.hi - self.lo)


class SelList(H):
    """the list `selected`: inside loop 1 an arbitrary prefix (count pieces), after it N pieces - piece j being
    selection[ROWS_BEFORE(j) : ROWS_BEFORE(j+1)] when that was proved"""

    def __init__(self, count, pieces, proved):
        self.count, self.pieces, self.proved = count, pieces, proved

    def len(self, eng, p):
        return PyI(self.count)

    def call_method(self, eng, p, name, args, kw, node):
        if name == "append" and len(args) == 1:
            p.ghost.setdefault(("appends", id(self)), []).append(args[0])
            return [(p, NONE)]
        raise Unsupported("selected." + name)

    def item(self, eng, k):
        if self.pieces is None:
            return Opaque(("unproved_piece", next(eng.counter)))
        mask, rgl = self.pieces
        return Custom(MaskPiece(mask, rgl.PS(k), rgl.PS(k + 1)))


class ViewName(H):
    def call_method(self, eng, p, name, args, kw, node):
        if name == "endswith" and len(args) == 1 and isinstance(args[0], Str):
            key = ("view_endswith", args[0].s)
            if key not in p.ghost:
                p.ghost[key] = eng.fresh("view_name_endswith_" + args[0].s.strip("-"), z3.BoolSort())
            return [(p, PyB(p.ghost[key]))]
        raise Unsupported("view name." + name)

    def isinstance(self, eng, p, tn):
        return z3.BoolVal("str" in tn)


class ViewArr(H):
    def slice(self, eng, p, lo, hi, node):
        a = eng.as_int(lo, p, node) if lo is not None else z3.IntVal(0)
        b = eng.as_int(hi, p, node) if hi is not None else eng.fresh_int("view_len")
        return Custom(ViewSlice(a, b))


class ViewSlice(H):
    def __init__(self, lo, hi):
        self.lo, self.hi = lo, hi


class ViewItems(H):
    def arbitrary(self, eng, p):
        return Tup([Custom(ViewName()), Custom(ViewArr())])

    def nonempty(self, eng, p):
        return eng.fresh("has_views", z3.BoolSort())


class Views(H):
    def call_method(self, eng, p, name, args, kw, node):
        if name == "items" and not args:
            return [(p, Custom(ViewItems()))]
        raise Unsupported("views." + name)

    def arbitrary(self, eng, p):
        return Custom(ViewName())


class FiltersObj(H):
    def __init__(self, t):
        self.t = t

    def truth(self, eng, p):
        return self.t

    def desc(self):
        return "FILTERS"

    def isinstance(self, eng, p, tn):
        return z3.BoolVal("list" in tn)


class CallResult(H):
    """value returned by a recorded method call (columns list, frame)"""

    def __init__(self, d, n=None):
        self.d, self.n = d, n

    def desc(self):
        return self.d

    def len(self, eng, p):
        if self.n is None:
            raise Unsupported("len of an unmodelled call result")
        return PyI(self.n)


def desc(v):
    if isinstance(v, PyB):
        return ("bool", str(z3.simplify(v.z)))
    if isinstance(v, PyI):
        return ("int", str(z3.simplify(v.z)))
    if isinstance(v, NoneV):
        return "None"
    if isinstance(v, Str):
        return ("str", v.s)
    if isinstance(v, Tup):
        return ("list" if v.is_list else "tuple",) + tuple(desc(x) for x in v.items)
    if isinstance(v, Custom):
        return v.h.desc() if hasattr(v.h, "desc") else ("object", type(v.h).__name__)
    if isinstance(v, Opaque):
        return ("opaque", str(v.tag))
    return ("value", type(v).__name__)


def _is_false(v):
    return isinstance(v, PyB) and z3.is_false(z3.simplify(v.z))


def _bind(funcs, method, args, kw, qual="ParquetFile.", skip=1):
    """arguments bound to the parameter names of the REAL signature -> {param: descriptor-ready value}"""
    f = funcs[qual + method]
    a = f.tree.args
    names = [x.arg for x in a.args][skip:]
    defaults = dict(zip([x.arg for x in a.args][len(a.args) - len(a.defaults):], a.defaults))
    out = {}
    for i, n in enumerate(names):
        if i < len(args):
            out[n] = args[i]
        elif n in kw:
            out[n] = kw[n]
        elif n in defaults:
            d = defaults[n]
            if isinstance(d, ast.Constant):
                out[n] = NONE if d.value is None else PyB(d.value) if isinstance(d.value, bool) else PyI(d.value) if isinstance(d.value, int) \
                    else Str(d.value) if isinstance(d.value, str) else Opaque(("default", ast.unparse(d)))
            else:
                out[n] = Opaque(("default", ast.unparse(d)))
        else:
            raise Unsupported(f"call of {method} without argument {n}")
    for n in kw:
        if n not in names:
            raise Unsupported(f"call of {method} with unknown keyword {n}")
    return out


class PF2(H):
    """`self` of to_pandas / count: methods are recorded in the effect trace p.ghost['trace']"""

    def __init__(self, funcs, rg_all, rg_kept, filters):
        self.funcs, self.rg_all, self.rg_kept, self.filters = funcs, rg_all, rg_kept, filters

    def attr(self, eng, p, name):
        if name == "row_groups":
            return Custom(self.rg_all)
        if name == "cats":
            return Custom(Cats())
        return Opaque("pf." + name)

    def kept(self, fv):
        """row groups a call with filters=fv works on: filter_row_groups(self, fv) if fv else self.row_groups"""
        if isinstance(fv, Custom) and fv.h is self.filters:
            return [(self.filters.t, self.rg_kept), (z3.Not(self.filters.t), self.rg_all)]
        return None

    def call_method(self, eng, p, name, args, kw, node):
        tr = p.ghost.setdefault("trace", [])
        if name == "_get_index":
            return [(p, Opaque("index_columns"))]
        if name in ("_columns_from_filters", "to_pandas", "_column_filter", "pre_allocate", "read_row_group_file"):
            b = _bind(self.funcs, name, args, kw)
            d = ("result_of", name, tuple(sorted((k, desc(v)) for k, v in b.items())))
            if name == "_columns_from_filters":
                r = Custom(CallResult(d))
            elif name == "to_pandas":
                n = None
                rf = b["row_filter"]
                ks = self.kept(b["filters"])
                if isinstance(rf, PyB) and z3.is_false(z3.simplify(rf.z)) and ks is not None:
                    # contract of the unfiltered read (its size is proved below: to_pandas.allocated_size_is_selection_count[none])
                    n = eng.fresh_int("len_filter_frame")
                    for c, rgl in ks:
                        p.axioms += rgl.total_facts()
                        p.axioms.append(z3.Implies(c, n == rgl.PS(rgl.N)))
                r = Custom(CallResult(d, n))
            elif name == "_column_filter":
                df = b["df"]
                L = df.h.n if isinstance(df, Custom) and isinstance(df.h, CallResult) and df.h.n is not None else eng.fresh_int("len_selection")
                r = Custom(Mask(L, "column_filter_result", origin=d))
            elif name == "pre_allocate":
                r = Tup([Opaque("out_frame"), Custom(Views())])
            else:
                r = NONE
                if isinstance(b["assign"], NoneV):
                    # stand-alone read (assign=None) returns the frame it allocates; unfiltered: one row per row of the row group
                    # (contract proved by read_row_group_file.standalone.*[none])
                    n = None
                    if isinstance(b["rg"], Custom) and isinstance(b["rg"].h, RGAbs) and _is_false(b["row_filter"]):
                        n = b["rg"].h.rgl.NR(b["rg"].h.k)
                    r = Custom(CallResult(d, n))
                p.ghost.setdefault("reads", []).append(b)
            tr.append((name, b, r))
            return [(p, r)]
        if name == "open":
            tr.append(("open", {}, None))
            return [(p, Opaque("infile"))]
        # any other method of ParquetFile (a helper the function was refactored into): executed from its real source; the calls
        # IT makes are recorded.  Out of reach -> an opaque call, as before
        r = eng.inline_helper("ParquetFile." + name, p, [Custom(self)] + list(args), kw, node)
        if r is not None:
            return r
        eng.check_untracked(args, kw, "self." + name, node)
        tr.append((name, {}, None))
        return [(p, Opaque(("pf." + name + "()", next(eng.counter))))]


class ZipRS(H):
    """zip(rgs, selected) - loop 2 of to_pandas"""

    def __init__(self, rgl, sl):
        self.rgl, self.sl = rgl, sl

    def for_loop(self, eng, p, st):
        rgl, sl = self.rgl, self.sl
        mode = eng.mode
        n_cur, n_read, n_out, n_skip = (f"to_pandas.output_cursor_is_selected_rows_before[{mode}]", f"to_pandas.read_uses_row_group_mask_piece[{mode}]",
                                        f"to_pandas.read_output_slice_is_selected_count[{mode}]", f"to_pandas.row_group_skipped_only_if_nothing_selected[{mode}]")
        _pose(eng, p, f"to_pandas.one_mask_piece_per_row_group[{mode}]", eng.as_int(sl.len(eng, p)) == rgl.N,
              "len(selected) == len(rgs): zip(rgs, selected) drops no row group", None, extra=rgl.total_facts())
        assigned = _assigned_names(st)
        if isinstance(sl, SelList) and sl.pieces is None:
            # the pieces are not what loop 1 was claimed to produce: nothing about the reads can be decided from here
            for nm in (n_cur, n_read, n_out, n_skip):
                eng.res.add(nm, UNKNOWN, None, 0.0, "engine", f"not decided: depends on to_pandas.mask_piece_is_row_group_rows[{mode}], not proved in this run")
            ex = p.fork()
            for v in assigned:
                ex.env[v] = PyI(eng.fresh_int(v + "_after_loop")) if isinstance(p.env.get(v), PyI) else Opaque((v, "after_loop", next(eng.counter)))
            return [ex]
        ints = [v for v in assigned if isinstance(p.env.get(v), PyI)]
        k = eng.fresh_int("k_row_group")
        if isinstance(sl, SelList):
            item = sl.item(eng, k)
            TL = item.h.mask.CT(item.h.lo, item.h.hi) if isinstance(item, Custom) and isinstance(item.h, MaskPiece) else eng.fresh_int("unknown_count")
        elif isinstance(sl, ConstList) and isinstance(sl.item, NoneV):
            item, TL = NONE, rgl.NR(k)
        else:
            raise Unsupported("second element of zip is not the list of selection pieces")
        OPS = z3.Function("SEL_BEFORE", z3.IntSort(), z3.IntSort())
        facts = [0 <= k, k < rgl.N, OPS(0) == 0, OPS(k + 1) == OPS(k) + TL, 0 <= TL, TL <= rgl.NR(k)] + rgl.facts(k)
        entry_ok = {v: solve([*p.pc, *p.axioms, p.env[v].z != 0], eng.timeout)[0] == PROVED for v in ints}
        cands = [v for v in ints if entry_ok[v]]
        for _round in range(4):
            body = p.fork()
            body.pc += facts
            body.ghost["reads"] = []
            pre = {}
            for v in assigned:
                if v in ints:
                    s = eng.fresh_int(v + "_carried")
                    body.env[v] = PyI(s)
                    pre[v] = s
                    if v in cands:
                        body.pc.append(s == OPS(k))
                else:
                    body.env[v] = Opaque((v, "carried", next(eng.counter)))
            ends, outs = [], []
            for b in eng.assign(st.target, Tup([Custom(RGAbs(rgl, k)), item]), body):
                for r in eng.block(st.body, [b]):
                    if r.ctl in (None, "continue"):
                        ends.append(r)
                    elif r.ctl == "break":
                        eng.res.add(n_skip, REFUTED, {"note": "`break`: later row groups are not read"}, 0.0, "engine")
                    else:
                        outs.append(r)
            failed, cursors = [], set()
            for r in ends:
                for v in cands:
                    post = r.env.get(v)
                    if not (isinstance(post, PyI) and solve([*r.pc, *r.axioms, post.z != OPS(k + 1)], eng.timeout)[0] == PROVED) and v not in failed:
                        failed.append(v)
                for rd in r.ghost.get("reads", []):
                    a = rd.get("assign")
                    if isinstance(a, Custom) and isinstance(a.h, AbstractDict) and isinstance(a.h.val, Custom) and isinstance(a.h.val.h, ViewSlice):
                        for w, s in pre.items():
                            if _occurs(s, a.h.val.h.lo) or _occurs(s, a.h.val.h.hi):
                                cursors.add(w)
            drop = [v for v in failed if v not in cursors]
            if not drop:
                break
            cands = [v for v in cands if v not in drop]
        det_c = "loop invariant: the cursor into the output == number of SELECTED rows of the row groups before this one"
        for v in sorted(cursors):
            eng.res.add(n_cur, PROVED if entry_ok[v] else REFUTED, None if entry_ok[v] else {"cursor": v, "note": "not 0 before the first row group"},
                        0.0, "z3", det_c)
        for r in ends:
            for v in sorted(cursors):
                post = r.env.get(v)
                if v in cands and isinstance(post, PyI):
                    _pose(eng, r, n_cur, post.z == OPS(k + 1), det_c,
                          lambda m, v=v, post=post: {"cursor": v, "selected_before_k": _mv(m, OPS(k)), "selected_in_k": _mv(m, TL),
                                                     "cursor_after_body": _mv(m, post.z)})
            reads = r.ghost.get("reads", [])
            if not reads:
                _pose(eng, r, n_skip, TL == 0, "a row group is passed over without a read only when none of its rows is selected",
                      lambda m: {"selected_in_k": _mv(m, TL), "num_rows_k": _mv(m, rgl.NR(k))})
                continue
            if len(reads) > 1:
                eng.res.add(n_read, REFUTED, {"note": "more than one read of a row group in one iteration"}, 0.0, "engine")
                continue
            rd = reads[0]
            rg, rf, asg = rd["rg"], rd["row_filter"], rd["assign"]
            det_r = "read_row_group_file gets row group k and, as row_filter, piece k of the selection (None only when every row of k is selected)"
            if not (isinstance(rg, Custom) and isinstance(rg.h, RGAbs) and rg.h.rgl is rgl and z3.eq(rg.h.k, k)):
                eng.res.add(n_read, REFUTED, {"note": "the row group read is not the one of this iteration"}, 0.0, "engine", det_r)
            elif isinstance(rf, NoneV):
                _pose(eng, r, n_read, TL == rgl.NR(k), det_r, lambda m: {"row_filter": None, "selected_in_k": _mv(m, TL), "num_rows_k": _mv(m, rgl.NR(k))})
            elif isinstance(rf, Custom) and isinstance(rf.h, MaskPiece) and isinstance(item, Custom) and rf.h.mask is item.h.mask:
                _pose(eng, r, n_read, z3.And(rf.h.lo == rgl.PS(k), rf.h.hi == rgl.PS(k + 1)), det_r,
                      lambda m, rf=rf: {"piece_from": _mv(m, rf.h.lo), "piece_to": _mv(m, rf.h.hi), "rows_before_k": _mv(m, rgl.PS(k)),
                                        "num_rows_k": _mv(m, rgl.NR(k))})
            else:
                eng.res.add(n_read, REFUTED if not isinstance(rf, Opaque) else UNKNOWN, {"row_filter": str(desc(rf))[:200]}, 0.0, "engine", det_r)
            det_o = "each output view (except '-catdef' dictionaries) is cut at [selected rows before k, + selected rows of k)"
            if isinstance(asg, Custom) and isinstance(asg.h, AbstractDict):
                val = asg.h.val
                loose = [w for w, sv in pre.items() if isinstance(val, Custom) and isinstance(val.h, ViewSlice)
                         and (_occurs(sv, val.h.lo) or _occurs(sv, val.h.hi)) and w not in cands]
                if loose:
                    eng.res.add(n_out, UNKNOWN, None, 0.0, "engine", det_o + f" - not decided: depends on the cursor invariant of {loose}, not established in this run")
                elif isinstance(val, Custom) and isinstance(val.h, ViewSlice):
                    _pose(eng, r, n_out, z3.And(val.h.lo == OPS(k), val.h.hi == OPS(k) + TL), det_o,
                          lambda m, val=val: {"slice_from": _mv(m, val.h.lo), "slice_to": _mv(m, val.h.hi), "selected_before_k": _mv(m, OPS(k)),
                                              "selected_in_k": _mv(m, TL)})
                elif isinstance(val, Custom) and isinstance(val.h, ViewArr):
                    cd = r.ghost.get(("view_endswith", "-catdef"))
                    _pose(eng, r, n_out, cd if cd is not None else z3.BoolVal(False), det_o + " (whole view only for a -catdef name)", None)
                else:
                    eng.res.add(n_out, REFUTED, {"note": "output view is neither the view nor a slice of it"}, 0.0, "engine", det_o)
            else:
                eng.res.add(n_out, UNKNOWN, {"note": "assign= is not a dict comprehension over the views"}, 0.0, "engine", det_o)
        ex = p.fork()
        for v in assigned:
            if v in ints:
                ex.env[v] = PyI(OPS(rgl.N)) if (v in cands and v not in failed) else PyI(eng.fresh_int(v + "_after_loop"))
            else:
                ex.env[v] = Opaque((v, "after_loop", next(eng.counter)))
        return [ex] + outs


def _h_zip(eng, p, args, kw, node):
    if len(args) == 2 and isinstance(args[0], Custom) and isinstance(args[0].h, RGList) and isinstance(args[1], Custom) \
            and isinstance(args[1].h, (SelList, ConstList)):
        return [(p, Custom(ZipRS(args[0].h, args[1].h)))]
    raise Unsupported("zip of something other than (row groups, selection pieces)")


EXPECT_CALLS = ("_columns_from_filters", "to_pandas", "_column_filter")


def _selection_calls(trace):
    return [t for t in trace if t[0] in EXPECT_CALLS]


def _spec_selection(funcs):
    """the selection the property prescribes for row_filter=True, as a descriptor:
    _column_filter(df=to_pandas(columns=_columns_from_filters(filters), filters=filters, row_filter=False, index=False), filters=filters)"""
    cs = ("result_of", "_columns_from_filters", (("filters", "FILTERS"),))
    b = _bind(funcs, "to_pandas", [], {"columns": Custom(CallResult(cs)), "filters": Custom(FiltersObj(None)), "row_filter": PyB(False),
                                       "index": PyB(False)})
    df = ("result_of", "to_pandas", tuple(sorted((k, desc(v)) for k, v in b.items())))
    return ("result_of", "_column_filter", tuple(sorted({"df": df, "filters": "FILTERS"}.items())))


def run_to_pandas(ctx, funcs, timeout, mode):
    res = Results()
    rg_all, rg_kept = RGList("all"), RGList("kept")
    ft = z3.BoolVal(True) if mode == "filters" else z3.Bool("filters_nonempty")
    filters = FiltersObj(ft)
    pf = PF2(funcs, rg_all, rg_kept, filters)

    def h_frg(eng, p, args, kw, node):
        if len(args) >= 2 and isinstance(args[0], Custom) and args[0].h is pf and isinstance(args[1], Custom) and args[1].h is filters and len(args) == 2 and not kw:
            return [(p, Custom(rg_kept))]
        raise Unsupported("filter_row_groups called with other arguments than (self, filters)")
    eng = RFEngine(funcs=funcs, handlers={"sum": _h_sum, "zip": _h_zip, "filter_row_groups": h_frg}, opaque_calls=True)
    eng.res, eng.timeout, eng.mode = res, timeout, mode
    arg_mask = Mask(z3.Int("len_row_filter"), "row_filter_argument", origin="ROW_FILTER_ARGUMENT")

    def selection(p):
        if mode == "mask":
            return arg_mask
        ms = [t[2].h for t in p.ghost.get("trace", []) if t[0] == "_column_filter"]
        return ms[-1] if ms else None
    eng.selection = selection
    p = Path()
    p.pc += [arg_mask.L >= 0]
    row_filter = Custom(arg_mask) if mode == "mask" else PyB(mode == "filters")
    kwargs = {"columns": Opaque("columns_arg"), "categories": Opaque("categories_arg"), "filters": Custom(filters),
              "index": Opaque("index_arg"), "row_filter": row_filter, "dtypes": Opaque("dtypes_arg")}
    outs = eng.run("ParquetFile.to_pandas", p, [Custom(pf)], kwargs)
    from vc import backends
    for ob in eng.oblig:
        st, be, secs, m = backends.discharge(ob, timeout)
        res.add(f"to_pandas.{ob.name.split('.')[-1].split('@')[0]}[{mode}]", st, {"z3_model": str(m)[:300], "line": ob.lineno} if m is not None else None,
                secs, be, ob.note or ob.kind)
    eng.oblig = []
    rets = [q for q in outs if q.ctl[0] == "ret"]
    ctx.vacuity["covers"] += len(rets)
    if not rets:
        ctx.engine_error(f"to_pandas[{mode}]: no returning path")
    EFFECTS = ("pre_allocate", "open", "read_row_group_file")
    # ---- wrong-length mask ------------------------------------------------------------------------------------------------
    if mode == "mask":
        nm = "to_pandas.wrong_length_mask_raises_before_any_read[mask]"
        det = "caller-supplied mask: len(mask) != total rows of the kept row groups raises ValueError before any allocation / open / read; " \
              "every other path has len(mask) == total"
        n_raise = 0
        for q in outs:
            rgl_tot = z3.If(ft, rg_kept.PS(rg_kept.N), rg_all.PS(rg_all.N))
            if q.ctl[0] == "raise":
                eff = [t[0] for t in q.ghost.get("trace", []) if t[0] in EFFECTS]
                ok = q.ctl[1] == "ValueError" and not eff
                st, m, secs = solve([*q.pc, *q.axioms, arg_mask.L == rgl_tot], timeout)     # raises only when the lengths differ
                res.add(nm, st if ok else REFUTED, {"raises": q.ctl[1], "effects_before": eff, "z3_model": str(m)[:200] if m is not None else None}
                        if (not ok or m is not None) else None, secs, "z3", det)
                n_raise += 1
            else:
                st, m, secs = solve([*q.pc, *q.axioms, arg_mask.L != rgl_tot], timeout)
                res.add(nm, st, {"len_mask": _mv(m, arg_mask.L), "total_rows": _mv(m, rgl_tot), "note": "a mask of the wrong length is accepted"}
                        if m is not None else None, secs, "z3", det)
        if n_raise == 0:
            res.add(nm, REFUTED, {"note": "no path raises"}, 0.0, "engine", det)
        else:
            ctx.vacuity["must_fail_sat"] += 1
    # ---- the selection of row_filter=True ---------------------------------------------------------------------------------
    for q in rets:
        tr = q.ghost.get("trace", [])
        if mode == "filters":
            nm = "to_pandas.selection_is_column_filter_on_filter_columns_frame[filters]"
            sel = selection(q)
            want = _spec_selection(funcs)
            ok = sel is not None and sel.desc() == want and [t[0] for t in _selection_calls(tr)] == list(EXPECT_CALLS)
            res.add(nm, PROVED if ok else REFUTED, None if ok else {"selection": str(sel.desc() if sel else None)[:600], "expected": str(want)[:600]},
                    0.0, "trace", "row_filter=True: sel = _column_filter(to_pandas(columns=_columns_from_filters(filters), filters=filters, "
                    "row_filter=False, index=False), filters=filters) - evaluated once")
            if sel is not None:
                st, m, secs = solve([*q.pc, *q.axioms, sel.L != rg_kept.PS(rg_kept.N)], timeout)
                res.add("to_pandas.selection_length_is_total_rows[filters]", st, {"len_selection": _mv(m, sel.L), "total_rows": _mv(m, rg_kept.PS(rg_kept.N))}
                        if m is not None else None, secs, "z3", "the selection has one entry per row of the kept row groups (frame of the unfiltered read "
                        "of the same row groups): the pieces tile the whole selection")
        # allocated size
        nm = f"to_pandas.allocated_size_is_selection_count[{mode}]"
        pa = [t for t in tr if t[0] == "pre_allocate"]
        det = "pre_allocate(size): size == number of selected rows (sel.sum()); unfiltered: total rows of the kept row groups"
        if len(pa) != 1:
            res.add(nm, REFUTED, {"pre_allocate_calls": len(pa)}, 0.0, "trace", det)
        else:
            size = pa[0][1]["size"]
            sel = selection(q)
            if mode == "none":
                want = z3.If(ft, rg_kept.PS(rg_kept.N), rg_all.PS(rg_all.N))
            else:
                want = sel.CT(0, sel.L) if sel is not None else None
            if want is None or not isinstance(size, (PyI, PyB)):
                res.add(nm, REFUTED if want is not None else UNKNOWN, {"size": str(desc(size))[:200]}, 0.0, "trace", det)
            else:
                st, m, secs = solve([*q.pc, *q.axioms, eng.as_int(size) != want], timeout)
                res.add(nm, st, {"size": _mv(m, eng.as_int(size)), "expected": _mv(m, want)} if m is not None else None, secs, "z3", det)
        # order of effects: allocation, then reads
        names = [t[0] for t in tr if t[0] in EFFECTS]
        ok = names[:1] == ["pre_allocate"] or not names
        res.add(f"to_pandas.allocates_before_reading[{mode}]", PROVED if ok else REFUTED, None if ok else {"effects": names}, 0.0, "trace")
    return res, outs


def run_count(ctx, funcs, timeout):
    res = Results()
    rg_all, rg_kept = RGList("all"), RGList("kept")
    filters = FiltersObj(z3.BoolVal(True))
    pf = PF2(funcs, rg_all, rg_kept, filters)

    def h_frg(eng, p, args, kw, node):
        return [(p, Custom(rg_kept))]
    eng = RFEngine(funcs=funcs, handlers={"sum": _h_sum, "filter_row_groups": h_frg}, opaque_calls=True)
    eng.res, eng.timeout, eng.mode = res, timeout, "count"
    outs = eng.run("ParquetFile.count", Path(), [Custom(pf)], {"filters": Custom(filters), "row_filter": PyB(True)})
    from vc import backends
    for ob in eng.oblig:
        st, be, secs, m = backends.discharge(ob, timeout)
        res.add(f"count.{ob.name.split('.')[-1].split('@')[0]}", st, {"z3_model": str(m)[:300]} if m is not None else None, secs, be, ob.note or ob.kind)
    want = _spec_selection(funcs)
    n = 0
    for q in outs:
        if q.ctl[0] != "ret":
            res.add("count.same_selection_as_to_pandas", REFUTED, {"raises": q.ctl[1]}, 0.0, "engine")
            continue
        n += 1
        tr = q.ghost.get("trace", [])
        ms = [t[2].h for t in tr if t[0] == "_column_filter"]
        ok = len(ms) == 1 and ms[0].desc() == want and [t[0] for t in _selection_calls(tr)] == list(EXPECT_CALLS)
        res.add("count.same_selection_as_to_pandas", PROVED if ok else REFUTED,
                None if ok else {"calls": [t[0] for t in tr], "effects": [t[0] for t in tr if t[0] in ("pre_allocate", "open", "read_row_group_file")], "selection": str(ms[0].desc() if ms else None)[:600], "expected": str(want)[:600]}, 0.0, "trace",
                "count(filters, row_filter=True) evaluates _column_filter with the same arguments on the same frame as to_pandas(filters, "
                "row_filter=True) does (arguments compared after binding to the parameter names of the real signatures) and nothing else")
        v = q.ctl[1]
        det = "count(filters, row_filter=True) == number of True in that selection"
        if len(ms) == 1 and isinstance(v, (PyI,)):
            st, m, secs = solve([*q.pc, *q.axioms, v.z != ms[0].CT(0, ms[0].L)], timeout)
            res.add("count.returns_selection_count", st, {"returned": _mv(m, v.z), "selected": _mv(m, ms[0].CT(0, ms[0].L))} if m is not None else None, secs, "z3", det)
        else:
            res.add("count.returns_selection_count", REFUTED, {"returned": str(desc(v))[:200]}, 0.0, "engine", det)
    ctx.vacuity["covers"] += n
    if n == 0:
        ctx.engine_error("count: no returning path")
    return res


# =========================================================================================================================
# PART 4 - read_row_group_file: the stand-alone branch (assign is None) with the documented per-row-group mode
# row_filter=[list of filters], and the pass-through branch used by to_pandas (assign given)
# =========================================================================================================================
def run_read_row_group_file(ctx, funcs, timeout, mode):
    """mode 'filters': assign=None, row_filter = a non-empty filter list; 'none': assign=None, row_filter=False;
    'assigned': assign = views, row_filter = a mask piece or None (what to_pandas hands over)"""
    res = Results()
    pre = "read_row_group_file." + ("assigned" if mode == "assigned" else "standalone")
    rgl = RGList("file")
    k = z3.Int("k_this_row_group")
    rg = RGAbs(rgl, k)
    NRk = rgl.NR(k)
    filters = FiltersObj(z3.BoolVal(True))
    pf = PF2(funcs, rgl, rgl, filters)
    core_funcs, _, _ = parse_module("fastparquet/core.py")

    def h_core_read(eng, p, args, kw, node):
        b = _bind(core_funcs, "read_row_group", args, kw, qual="", skip=0)
        p.ghost.setdefault("trace", []).append(("core.read_row_group", b, None))
        return [(p, NONE)]
    eng = RFEngine(funcs=funcs, handlers={"sum": _h_sum, "core.read_row_group": h_core_read}, opaque_calls=True)
    eng.res, eng.timeout, eng.mode = res, timeout, mode
    p = Path()
    p.pc += [0 <= k, k < rgl.N]
    p.axioms += rgl.facts(k)
    views_arg = Views()
    piece = Mask(NRk, "row_group_mask_argument", origin="ROW_GROUP_MASK_ARGUMENT")
    col_arg, cat_arg, idx_arg = Opaque("columns_arg"), Opaque("categories_arg"), Opaque("index_arg")
    variants = {"filters": [("", Custom(filters), NONE)], "none": [("", PyB(False), NONE)],
                "assigned": [("mask", Custom(piece), Custom(views_arg)), ("no mask", NONE, Custom(views_arg))]}[mode]
    n_ret = 0
    for vname, rf_arg, assign_arg in variants:
        kwargs = {"rg": Custom(rg), "columns": col_arg, "categories": cat_arg, "index": idx_arg, "assign": assign_arg,
                  "partition_meta": Opaque("partition_meta_arg"), "row_filter": rf_arg, "infile": Opaque("infile_arg")}
        outs = eng.run("ParquetFile.read_row_group_file", p.fork(), [Custom(pf)], kwargs)
        from vc import backends
        for ob in eng.oblig:
            st, be, secs, m = backends.discharge(ob, timeout)
            res.add(f"{pre}.{ob.name.split('.')[-1].split('@')[0]}[{mode}]", st, {"z3_model": str(m)[:300], "line": ob.lineno} if m is not None else None,
                    secs, be, ob.note or ob.kind)
        eng.oblig = []
        for q in outs:
            if q.ctl[0] != "ret":
                continue            # check_categories may raise TypeError for categories that were not stored as such: not this property
            n_ret += 1
            _rrgf_post(eng, res, q, mode, pre, rg, NRk, filters, col_arg, rf_arg, assign_arg, timeout)
    ctx.vacuity["covers"] += n_ret
    if n_ret == 0:
        ctx.engine_error(f"read_row_group_file[{mode}]: no returning path")
    return res


def _rrgf_post(eng, res, q, mode, pre, rg, NRk, filters, col_arg, rf_arg, assign_arg, timeout):
    tr = q.ghost.get("trace", [])

    def same_rg(v):
        return isinstance(v, Custom) and isinstance(v.h, RGAbs) and v.h.rgl is rg.rgl and z3.eq(v.h.k, rg.k)
    sel_calls = [t for t in tr if t[0] in ("_columns_from_filters", "read_row_group_file", "to_pandas", "_column_filter")]
    pa = [t for t in tr if t[0] == "pre_allocate"]
    reads = [t for t in tr if t[0] == "core.read_row_group"]
    order = [t[0] for t in tr if t[0] in ("pre_allocate", "core.read_row_group")]
    sel = None
    if mode == "filters":
        nm = f"{pre}.selection_is_column_filter_on_filter_columns_frame"
        det = "row_filter=[filters], assign=None: the mask is _column_filter(read_row_group_file(rg, _columns_from_filters(row_filter), index=False, " \
              "row_filter=False) [stand-alone, unfiltered read of THIS row group], filters=row_filter) - evaluated once"
        ok = [t[0] for t in sel_calls] == ["_columns_from_filters", "read_row_group_file", "_column_filter"]
        why = None if ok else "calls: " + str([t[0] for t in sel_calls])
        if ok:
            c_cs, c_rd, c_cf = sel_calls
            checks = [
                ("_columns_from_filters gets the filter list", isinstance(c_cs[1]["filters"], Custom) and c_cs[1]["filters"].h is filters),
                ("the frame is read from THIS row group", same_rg(c_rd[1]["rg"])),
                ("the frame holds the filter columns", c_rd[1]["columns"] is c_cs[2]),
                ("the frame is read unfiltered", _is_false(c_rd[1]["row_filter"])),
                ("the frame is read without index (index=False)", _is_false(c_rd[1]["index"])),
                ("the frame is read stand-alone (assign=None)", isinstance(c_rd[1]["assign"], NoneV)),
                ("_column_filter gets that frame", c_cf[1]["df"] is c_rd[2]),
                ("_column_filter gets the filter list", isinstance(c_cf[1]["filters"], Custom) and c_cf[1]["filters"].h is filters),
            ]
            bad = [w for w, c in checks if not c]
            ok, why = not bad, "; ".join(bad)
            sel = c_cf[2].h if isinstance(c_cf[2], Custom) and isinstance(c_cf[2].h, Mask) else None
        res.add(nm, PROVED if ok else REFUTED, None if ok else {"not": why}, 0.0, "trace", det)
        if sel is not None:
            q.axioms += [0 <= sel.CT(0, sel.L), sel.CT(0, sel.L) <= sel.L]
            st, m, secs = solve([*q.pc, *q.axioms, sel.L != NRk], timeout)
            res.add(f"{pre}.selection_length_is_row_group_rows", st, {"len_selection": _mv(m, sel.L), "num_rows": _mv(m, NRk)} if m is not None else None,
                    secs, "z3", "the mask has one entry per row of the row group (frame of the unfiltered stand-alone read)")
    else:
        nm = f"{pre}.no_selection_evaluated[{mode}]"
        res.add(nm, PROVED if not sel_calls else REFUTED, None if not sel_calls else {"calls": [t[0] for t in sel_calls]}, 0.0, "trace",
                "no filter list: no filter frame is read and no predicate evaluated")
    # ---- allocation -------------------------------------------------------------------------------------------------------
    if mode == "assigned":
        res.add(f"{pre}.no_allocation", PROVED if not pa else REFUTED, None if not pa else {"pre_allocate_calls": len(pa)}, 0.0, "trace",
                "assign given (called from to_pandas): the views handed over are filled, nothing is allocated")
    else:
        nm = f"{pre}.allocated_size_is_selection_count[{mode}]"
        det = "pre_allocate(size): size == COUNT_TRUE(mask) for a filter list, == rg.num_rows when no filter list is given"
        want = NRk if mode == "none" else (sel.CT(0, sel.L) if sel is not None else None)
        if len(pa) != 1:
            res.add(nm, REFUTED, {"pre_allocate_calls": len(pa)}, 0.0, "trace", det)
        elif want is None or not isinstance(pa[0][1]["size"], (PyI, PyB)):
            res.add(nm, REFUTED if want is not None and not isinstance(pa[0][1]["size"], Opaque) else UNKNOWN, {"size": str(desc(pa[0][1]["size"]))[:200]}, 0.0, "trace", det)
        else:
            size = eng.as_int(pa[0][1]["size"])
            st, m, secs = solve([*q.pc, *q.axioms, size != want], timeout)
            res.add(nm, st, {"size": _mv(m, size), "expected": _mv(m, want), "num_rows": _mv(m, NRk)} if m is not None else None, secs, "z3", det)
            ctx_cols = pa[0][1]["columns"] is col_arg
            res.add(f"{pre}.allocates_the_requested_columns[{mode}]", PROVED if ctx_cols else REFUTED, None if ctx_cols else {"columns": str(desc(pa[0][1]["columns"]))[:200]},
                    0.0, "trace", "pre_allocate gets the `columns` argument (not the filter columns)")
    # ---- the read ---------------------------------------------------------------------------------------------------------
    nm_r = f"{pre}.read_gets_the_mask[{mode}]"
    det_r = {"filters": "core.read_row_group gets row_filter = the mask (or False / None once it was dropped)",
             "none": "core.read_row_group gets row_filter=False", "assigned": "core.read_row_group gets the row_filter argument unchanged"}[mode]
    nm_f = f"{pre}.read_fills_the_allocated_frame[{mode}]" if mode != "assigned" else f"{pre}.read_fills_the_views_handed_over"
    det_f = "exactly one core.read_row_group, of THIS row group, after the allocation, with assign = the views " + \
            ("pre_allocate returned" if mode != "assigned" else "given") + " and the `columns` argument"
    if len(reads) != 1:
        res.add(nm_f, REFUTED, {"core.read_row_group_calls": len(reads)}, 0.0, "trace", det_f)
        return
    rb = reads[0][1]
    views = pa[0][2].items[1] if (len(pa) == 1 and isinstance(pa[0][2], Tup)) else None
    want_views = assign_arg if mode == "assigned" else views
    bad = [w for w, c in [("row group", same_rg(rb["rg"])), ("assign", want_views is not None and rb["assign"] is want_views), ("columns", rb["columns"] is col_arg),
                          ("order", order == (["core.read_row_group"] if mode == "assigned" else ["pre_allocate", "core.read_row_group"]))] if not c]
    res.add(nm_f, PROVED if not bad else REFUTED, None if not bad else {"wrong": bad, "effects": order}, 0.0, "trace", det_f)
    rf = rb["row_filter"]
    dropped = _is_false(rf) or isinstance(rf, NoneV)
    if mode == "filters":
        is_mask = sel is not None and isinstance(rf, Custom) and rf.h is sel
        res.add(nm_r, PROVED if (is_mask or dropped) else UNKNOWN if isinstance(rf, Opaque) else REFUTED,
                None if (is_mask or dropped) else {"row_filter": str(desc(rf))[:200]}, 0.0, "trace", det_r)
        nm_d = f"{pre}.mask_dropped_only_if_every_row_selected"
        det_d = "the read is unfiltered (row_filter False / None) only on a path where COUNT_TRUE(mask) == rg.num_rows"
        if dropped and sel is not None:
            st, m, secs = solve([*q.pc, *q.axioms, sel.CT(0, sel.L) != NRk], timeout)
            res.add(nm_d, st, {"selected": _mv(m, sel.CT(0, sel.L)), "num_rows": _mv(m, NRk)} if m is not None else None, secs, "z3", det_d)
        elif dropped:
            res.add(nm_d, UNKNOWN, None, 0.0, "engine", det_d + " - not decided: no selection of the model on this path")
        else:
            res.add(nm_d, PROVED, None, 0.0, "trace", det_d + " (mask kept on this path)")
    elif mode == "none":
        res.add(nm_r, PROVED if dropped else REFUTED, None if dropped else {"row_filter": str(desc(rf))[:200]}, 0.0, "trace", det_r)
    else:
        same = rf is rf_arg or (isinstance(rf, NoneV) and isinstance(rf_arg, NoneV))
        res.add(nm_r, PROVED if same else REFUTED, None if same else {"row_filter": str(desc(rf))[:200]}, 0.0, "trace", det_r)
    # ---- the result -------------------------------------------------------------------------------------------------------
    v = q.ctl[1]
    if mode == "assigned":
        res.add(f"{pre}.returns_nothing", PROVED if isinstance(v, NoneV) else REFUTED, None if isinstance(v, NoneV) else {"returned": str(desc(v))[:200]}, 0.0, "trace")
    else:
        frame = pa[0][2].items[0] if (len(pa) == 1 and isinstance(pa[0][2], Tup)) else None
        ok = frame is not None and (v is frame or (isinstance(v, Opaque) and isinstance(frame, Opaque) and v.tag == frame.tag))
        res.add(f"{pre}.returns_the_allocated_frame[{mode}]", PROVED if ok else REFUTED, None if ok else {"returned": str(desc(v))[:200]}, 0.0, "trace",
                "the frame returned is the one pre_allocate returned (filled through its views)")


# =========================================================================================================================
def check(ctx, timeout):
    funcs, tree, src = parse_module("fastparquet/api.py")
    for m in ("_column_filter", "_columns_from_filters", "to_pandas", "count", "read_row_group_file"):
        f = funcs["ParquetFile." + m]
        ctx.function("api.ParquetFile." + m, f.sha, f.report)
    RFEngine.all_inlined = set()
    out = []

    def guarded(label, fn, *a):
        try:
            r = fn(*a)
            out.append(r[0] if isinstance(r, tuple) else r)
        except Unsupported as ex:
            r = Results()
            r.add(f"{label}.out_of_reach", UNKNOWN, None, 0.0, "engine", str(ex))
            out.append(r)
    r0 = Results()
    try:
        check_ops_table(ctx, r0)
    except Unsupported as ex:
        r0.add("ops_table.out_of_reach", UNKNOWN, None, 0.0, "engine", str(ex))
    out.append(r0)
    for shape in ("nested", "flat", "mixed"):
        guarded(f"column_filter[{shape}]", run_column_filter, ctx, funcs, timeout, shape)
    for shape in ("nested", "flat"):
        guarded(f"columns_from_filters[{shape}]", run_columns_from_filters, ctx, funcs, timeout, shape)
    for mode in ("mask", "filters", "none"):
        guarded(f"to_pandas[{mode}]", run_to_pandas, ctx, funcs, timeout, mode)
    guarded("count", run_count, ctx, funcs, timeout)
    for mode in ("filters", "none", "assigned"):
        guarded(f"read_row_group_file[{mode}]", run_read_row_group_file, ctx, funcs, timeout, mode)
    for name in sorted(RFEngine.all_inlined):
        ctx.function("api." + name, funcs[name].sha, funcs[name].report)
    return out


# =========================================================================================================================
# native triage: the REAL functions of the tree under check on small concrete inputs of the refuted obligation's family,
# judged by the property's meaning (plain pandas as the oracle).  The SMT models are abstract (one witness row, opaque
# predicates), so the replay instantiates them: witness row = some row of a 6-row frame, atoms = concrete conditions.
# =========================================================================================================================
SNIPPET = """import sys; sys.path.insert(0, '/verif')
from contracts.c13_rowfilter import replay_native
VIOLATED, text = replay_native({name!r}, {{}})
print(text)
"""


def _oracle_atom(df, part, a):
    import numpy as np
    name, op, val = a
    col = df[name] if name in df else None
    if col is None:
        col = part[name]                       # the partition value of every row of this (single) row group
    import operator
    if op == "in":
        r = col.isin(val) if hasattr(col, "isin") else np.full(len(df), col in val)
    elif op == "not in":
        r = ~col.isin(val) if hasattr(col, "isin") else np.full(len(df), col not in val)
    elif op in SPEC_CMP:
        r = getattr(operator, SPEC_CMP[op])(col, val)
        r = r if hasattr(r, "__len__") else np.full(len(df), r)
    elif op == "~":
        r = ~col
    else:
        r = np.zeros(len(df), dtype=bool)      # outside the grammar: no row satisfies
    return np.asarray(r, dtype=bool)


def _oracle(df, part, filters):
    import numpy as np
    groups = [filters] if isinstance(filters[0][0], str) else filters
    out = np.zeros(len(df), dtype=bool)
    for g in groups:
        a = np.ones(len(df), dtype=bool)
        for atom in g:
            a &= _oracle_atom(df, part, atom)
        out |= a
    return out


def _as_lists(f):
    """the same filter with every condition written as a LIST [column, op, value] (what json / yaml loading gives, and what the
    project's own tests write)"""
    if isinstance(f[0][0], str):
        return [list(a) for a in f]
    return [[list(a) for a in g] for g in f]


def replay_native(name, model):
    """-> (confirmed, text)"""
    import tempfile
    import numpy as np
    import pandas as pd
    try:
        from runtime.harness import import_fastparquet
        fp = import_fastparquet()
        from fastparquet import api
    except Exception as ex:          # the tree under check does not even import
        return False, f"native replay impossible: {type(ex).__name__}: {ex}"
    fam = name.split(".")[0]
    bad = []
    try:
        if fam in ("column_filter", "ops_table", "columns_from_filters"):
            df = pd.DataFrame({"x": [1, 2, 3, 4, 5, 6], "y": [6, 5, 4, 3, 2, 1], "b": [True, False, True, True, False, False]})

            class Mock(api.ParquetFile):         # the real methods (helper methods included), no file behind it
                cats = {"p": [1, 2]}

                def __init__(self):
                    pass
            part = {"p": 1}
            progs = [[("x", ">", 2), ("x", "<", 5)], [[("x", ">", 2), ("x", "<", 5)]], [[("x", ">", 4)], [("y", ">", 4)]],
                     [[("x", ">=", 2), ("y", ">=", 2), ("x", "!=", 3)], [("x", "==", 1)], [("y", "=", 1), ("x", "<=", 6)]],
                     [("x", "not in", [2, 3])], [[("x", "in", [2, 3]), ("y", "not in", [5])], [("b", "~", None), ("x", "<", 6)]],
                     [[("x", ">", 1), ("y", ">", 1)], [("x", ">", 5), ("y", "<", 3)], [("x", "<", 2)]]]
            if "partition_atoms" in name:
                progs = [[[("p", "==", 2), ("x", ">", 1)], [("x", "==", 4)]], [("p", "==", 2), ("x", ">", 1)]]
            if "unknown_operator" in name:
                progs = [[("x", ">>", 3)], [[("x", ">", 4), ("x", "><", 0)], [("x", "<", 2)]]]
            progs = progs + [_as_lists(f) for f in progs]          # conditions as tuples, then the same as lists
            for f in progs:
                if fam == "columns_from_filters":
                    got = sorted(api.ParquetFile._columns_from_filters(Mock(), f + [("p", "==", 1)] if isinstance(f[0][0], str) else f + [[("p", "==", 1)]]))
                    want = sorted({a[0] for g in ([f] if isinstance(f[0][0], str) else f) for a in g} - set(Mock.cats))
                    if got != want:
                        bad.append(f"_columns_from_filters({f!r} + an atom on partition column p) -> {got}, expected {want}")
                    continue
                want = _oracle(df, part, f)
                try:
                    got = np.asarray(api.ParquetFile._column_filter(Mock(), df, f), dtype=bool)
                except Exception as ex:
                    bad.append(f"_column_filter(df, {f!r}) raised {type(ex).__name__}: {ex}")
                    continue
                if got.shape != want.shape or (got != want).any():
                    bad.append(f"_column_filter(x=1..6,y=6..1, {f!r}) selects x={df.x[got].tolist() if got.shape == want.shape else got.shape}, "
                               f"the rows satisfying it are x={df.x[want].tolist()}")
        else:
            d = tempfile.mkdtemp(prefix="c13replay-")
            df = pd.DataFrame({"x": np.arange(1, 13), "y": np.arange(12, 0, -1).astype("float64"), "s": ["s%02d" % k for k in range(12)]})
            fn = os.path.join(d, "t.parq")
            fp.write(fn, df, row_group_offsets=[0, 3, 8])
            pf = fp.ParquetFile(fn)
            if fam == "read_row_group_file":
                # stand-alone per-row-group reads: row_filter=[filter list] and row_filter=False
                fs = [[("x", ">", 2), ("x", "<", 10)], [[("x", "<", 3)], [("y", "<", 3.0)]], [("x", "in", [1, 4, 9, 12])], [("x", ">", 11)], [("x", ">", 0)],
                      [("x", ">=", 4), ("x", "<=", 8)], [("s", "==", "s05")]]
                offs = [0, 3, 8, 12]
                for j, rg in enumerate(pf.row_groups):
                    part = df.iloc[offs[j]:offs[j + 1]].reset_index(drop=True)
                    for f in [False] + fs + [_as_lists(f) for f in fs[:3]]:
                        want = part[_oracle(part, {}, f)] if f else part
                        for cols in (["x", "y", "s"], ["s"]):
                            try:
                                got = pf.read_row_group_file(rg, cols, None, row_filter=f)
                                if len(got) != len(want) or any(got[c].tolist() != want[c].tolist() for c in cols):
                                    bad.append(f"read_row_group_file(row group {j} (x={part.x.tolist()}), {cols}, None, row_filter={f!r}) -> {len(got)} rows "
                                               f"{cols[-1]}={got[cols[-1]].tolist()}, the satisfying rows are {cols[-1]}={want[cols[-1]].tolist()}")
                            except Exception as ex:
                                bad.append(f"read_row_group_file(row group {j}, {cols}, None, row_filter={f!r}) raised {type(ex).__name__}: {ex}")
                import shutil
                shutil.rmtree(d, ignore_errors=True)
                if bad:
                    return True, f"confirmed natively ({len(bad)} concrete mismatches), e.g. " + bad[0][:400]
                return False, "no concrete mismatch in the native battery of this family"
            rng = np.random.RandomState(0)
            masks = [np.zeros(12, bool), np.ones(12, bool), np.arange(12) % 2 == 0, np.arange(12) >= 8, np.arange(12) < 3, np.arange(12) == 3,
                     np.isin(np.arange(12), [0, 2, 3, 7, 8, 11])] + [rng.rand(12) < 0.5 for _ in range(4)]
            for m in masks:
                try:
                    got = pf.to_pandas(row_filter=m)
                    want = df[m]
                    if got.x.tolist() != want.x.tolist() or got.s.tolist() != want.s.tolist() or got.y.tolist() != want.y.tolist():
                        bad.append(f"to_pandas(row_filter=mask {m.astype(int).tolist()}) -> x={got.x.tolist()} s={got.s.tolist()[:4]}.., masked rows are x={want.x.tolist()}")
                except Exception as ex:
                    bad.append(f"to_pandas(row_filter=mask {m.astype(int).tolist()}) raised {type(ex).__name__}: {ex}")
            for n in (0, 5, 11, 13, 24):
                try:
                    r = pf.to_pandas(row_filter=np.ones(n, bool))
                    bad.append(f"to_pandas(row_filter=mask of length {n}) on 12 rows did not raise (returned {len(r)} rows)")
                except ValueError:
                    pass
                except Exception as ex:
                    bad.append(f"to_pandas(row_filter=mask of length {n}) raised {type(ex).__name__} instead of ValueError")
            fs = [[("x", ">", 2), ("x", "<", 10)], [[("x", "<", 3)], [("y", "<", 3.0)]], [("x", "in", [1, 4, 9, 12])], [("x", ">", 11)], [("x", ">", 0)]]
            for f in fs + [_as_lists(f) for f in fs]:
                want = df[_oracle(df, {}, f)]
                try:
                    got = pf.to_pandas(filters=f, row_filter=True)
                    if got.x.tolist() != want.x.tolist() or got.s.tolist() != want.s.tolist():
                        bad.append(f"to_pandas(filters={f!r}, row_filter=True) -> x={got.x.tolist()}, satisfying rows are x={want.x.tolist()}")
                    c = pf.count(filters=f, row_filter=True)
                    if c != len(want):
                        bad.append(f"count(filters={f!r}, row_filter=True) -> {c}, expected {len(want)}")
                except Exception as ex:
                    bad.append(f"filters={f!r}, row_filter=True raised {type(ex).__name__}: {ex}")
            import shutil
            shutil.rmtree(d, ignore_errors=True)
    except Exception as ex:
        return False, f"native replay failed to run: {type(ex).__name__}: {ex}"
    if bad:
        return True, f"confirmed natively ({len(bad)} concrete mismatches), e.g. " + bad[0][:400]
    return False, "no concrete mismatch in the native battery of this family"
