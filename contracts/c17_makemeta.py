"""C17 / C01 / C02 - column-level bookkeeping between a frame, the schema + pandas metadata written for it, and the handle's
metadata-only answers (columns, index, dtypes, categories).  Real source of the tree under check on every run.

WRITER (symbolic: ast -> VC, z3; one arbitrary column / partition column with havoc under an invariant proved on entry and after the body)
  writer.make_metadata          [column names text | tuples (MultiIndex columns)] x every has_nulls mode (True / False / None='infer' / list)
        frame = N columns in frame order, NAME(j) its label, IGN(j) <=> label in ignore_columns, WR(j) = number of NOT ignored columns
        among the first j.  find_type / get_column_metadata / norm_col_name are CUTS (their own obligations below).
    make_metadata.duplicate_column_names_raise            returns only when data.columns.is_unique (else ValueError)
    make_metadata.column_loop.invariant_on_entry / invariant_preserved[len(schema) == 1 + WR(j) | root.num_children == WR(j) |
                                 len(pandas columns) == WR(j)]          (the three counters move together, one step per WRITTEN column)
    make_metadata.schema.ignored_columns_excluded_exactly an ignored column appends nothing (schema, pandas columns, num_children);
                                                          a written column appends exactly one schema element and one pandas entry
    make_metadata.schema.element_is_find_type_of_the_column      the element appended for column j is what find_type returned for
                                 data[column j] (its categories for a categorical) with THIS column's fixed_text / object_encoding entry, times
    make_metadata.schema.element_named_after_the_column   its name is the column's own (normalised) label
    make_metadata.schema.repetition_type[has_nulls=True|False|infer|list]   OPTIONAL / REQUIRED per mode (REQUIRED only where the caller said no nulls)
    make_metadata.schema.root_first_and_num_children_is_number_of_elements      at return: fmd.schema is [root] ++ elements, root.num_children == len - 1
    make_metadata.pandas.column_entry_is_get_column_metadata_of_the_column     entry = get_column_metadata(data[column], column, object_dtype=<its encoding>)
    make_metadata.pandas.column_entry_name_is_schema_element_name            the name the reader joins on (md[col]) is the schema element's name
    make_metadata.pandas.index_columns_is_callers_index[list|RangeIndex]     names as given / {'kind': 'range', name, start, stop, step of the RangeIndex}
    make_metadata.pandas.index_columns_are_written_columns                   an index column named in the metadata has a schema element
    make_metadata.pandas.partition_columns_one_record_per_partition_column   loop over partition_cols, same shape
    make_metadata.pandas.column_indexes / creator / keys_are_the_pandas_spec_keys / value_is_json_of_the_block_under_key_pandas
    make_metadata.num_rows_is_len_data, make_metadata.frame[nothing else changes in the column loop]
  util.norm_col_name, writer.find_type (its SchemaElement construction: name = norm_col_name(data.name, is_index), REQUIRED), util.check_column_names
  writer.write (append=False): what make_metadata is handed - write.index_columns_are_the_columns_reset_index_added, range_index_goes_to_the_metadata_not_to_a_column,
    write_index_false_stores_no_index, column_index_dtype_is_of_the_original_frame, options_reach_make_metadata, ignore_columns_is_partition_on_unless_simple,
    requested_names_checked_against_the_frame_written, data_written_is_the_frame_described
READER (symbolic)
  api.ParquetFile.columns / _get_index / _set_attrs / _parse_header / pandas_metadata / has_pandas_metadata / check_categories / _dtypes, converted_types.typemap (md use)
    columns.are_dtypes_keys_minus_partition_columns_in_order      NOTE: pf.columns INCLUDES the index columns (the frame read has pf.columns minus pf._get_index())
    get_index.default_is_the_metadata_index_columns_without_range / explicit_index_is_honoured / no_pandas_metadata_no_index / every_name_is_a_column_of_the_file
    set_attrs.*, parse_header.*, pandas_metadata.*, has_pandas_metadata.*, check_categories.* (five request shapes + the refusal)
    dtypes.one_entry_per_kept_top_level_field_in_schema_order, dtypes.kept_fields_are_those_not_flattened, typemap.uses_only_the_elements_own_entry
    dtypes.column_independence.{stores_only_the_columns_own_entry, reads_only_the_columns_own_metadata_entry, null_statistics_are_those_of_the_columns_own_chunk}
                                     the entry of column c depends on c's schema element, c's metadata entry, c's own chunks and the handle options only:
                                     one arbitrary entry k of the answer, every lookup / store / chunk access of that iteration is an event checked at the event
    dtypes.null_scan.*               inner loop over the row groups: num_nulls == 0 until a break (invariant)
    dtypes.override_is_honoured.base_answer_taken_as_given, dtypes.answer_is_a_copy_of_the_base_answer_plus_categories[computed|override],
    dtypes.cached_base_answer_not_modified_by_category_overrides, dtypes.{requested_categories,partition_columns}_are_announced_as_category,
    dtypes.answer_for_explicit_categories_does_not_replace_the_handles_answer, dtypes.every_answer_is_a_dtype, dtypes.base_answer_is_cached
TABLES (EXECUTED ENUMERATION on the tree under check - complete for the finite dtype table, not SMT)
  get_column_metadata.entry_matches_pandas_spec[D]     name / field_name / pandas_type / numpy_type / metadata per the pandas metadata specification
  get_column_metadata.name[...]                         text kept, tuple -> its text, anything else raises TypeError
  metadata.roundtrip_dtype[D] / [D as index]            make_metadata(frame of D) -> footer bytes -> handle: pf.columns, pf._get_index(), pf.dtypes[col] and
                                                        the frame pre_allocate builds have D's kind / width / unit / timezone / categorical-ness
  metadata.roundtrip_names[...]                         column names and order, index names, MultiIndex columns
  metadata.allocated_is_predicted[D] / [D as index]     the frame pre_allocate builds from the handle's answers has the predicted dtype (order flag, label count)
  dtypes.override_is_honoured[D]                        handle opened with dtypes=<its natural dtypes>: same answer, same allocation
WAVE-6 ADDITIONS (helpers / tables / defaults next to the above)
  api.ParquetFile._dtypes null scan  (C17, C01, C07)   for ALL numbers of row groups: one arbitrary row group with the loop-carried flag havoc'd (F0):
        dtypes.null_scan.starts_without_nulls_found / invariant_preserved (flag' <=> F0 or HAS(g)) / stops_early_only_when_nulls_were_found (a break
        only with the flag set); HAS(g) = row group g non-empty and its chunk has no statistics or a non-zero null count.  By induction: the column is
        announced nullable IFF such a row group EXISTS - appended row groups included
  api._pre_allocate (+ nested get_type)  (C06, C17, C01)   pre_allocate.dtype_list_is_aligned_with_column_list (ONE pass over the column list itself: same
        members, same order, no filter), partition_columns_appended_with_category_at_the_same_positions, columns_are_the_requested_columns_minus_index_in_
        request_order, index_types_aligned_with_index_names, label_map_is_partitions_plus_requested_category_labels, get_type.*; executed:
        pre_allocate.allocation_follows_the_requested_column_order[9 permuted / subset requests]
  writer.infer_object_encoding  (C18, C01, C17, C02)   abstract element sequence, one arbitrary element, (t, s) havoc'd under (t is None <=> s == 0, s <= 10):
        rejects_unknown_element_type, rejects_mixed_element_types, null_elements_are_skipped, typed_element_sets_or_confirms_the_encoding,
        raises_only_for_an_unknown_or_a_second_element_type, stops_only_after_more_than_ten_typed_elements, result_is_..._None_only_without_typed_elements,
        table_is_the_documented_type_table; executed infer_object_encoding.table[21 element kinds], make_metadata.refuses_uninferable_object_column[..]
        refusal chain (all before the target is touched): find_type.object_encoding_is_inferred_from_the_column_itself, find_type.refusal_of_infer_object_
        encoding_propagates, make_metadata[..].refusal_of_find_type_propagates, write.metadata_is_built_before_the_target_is_touched (+ [a refusal leaves it untouched])
WAVE-7 ADDITIONS (executed label enumeration)
  find_type.refuses_unsupported_dtype[D|object_encoding] / make_metadata.refuses_unsupported_dtype[..]   (C18, C01, C17, C02)   D in period, interval, complex,
        longdouble, void, Sparse, categoricals of intervals / periods x the 11 object_encoding options (None + 10) x times int64 | int96 (make_metadata: option
        given as one text / per column): the dtype is refused by find_type, hence by make_metadata, hence before the target is touched (refusal chain above)
  empty.view_shape_is_size[kind|size=n] / empty.view_aliases_frame[..]   (C06, C17, C01)   dataframe.empty for 14 column kinds + 6 index kinds x sizes 0, 1, 2, 3:
        every fill view is one-dimensional with exactly `size` slots (nullable: values / mask pair) and what is written through it is what the frame shows
Every family runs on its own (guard): a source shape the script does not model makes THAT family `<family>.out_of_reach` (unknown), never a
violation and never silence for the others.  Refutations on the unchanged tree = recorded findings (contracts/findings.jsonl, ids <prop>-P-...;
regions in _KNOWN below; each replayed natively by replay(): NATIVE_* snippets run the real functions in a fresh interpreter).
"""
import ast
import itertools
import json
import os
import re
import time
import warnings

import z3

from vc.front_py import parse_module
from vc.symexec import (Engine, Path, Custom, Opaque, Str, PyB, PyI, NONE, NoneV, Unsupported, Tup, Opt, AbstractComp, AbstractDict,
                        BUILTINS)
from vlib.common import PROVED, REFUTED, UNKNOWN, REPO
from .util import Results, solve, ret_line

EXEC = "executed"

ASSUMED = [
    "makemeta: pandas internals are assumed contracts: data.columns.is_unique <=> no two column labels are equal; iterating data.columns yields "
    "the labels in frame order, data[label] is the column LABELLED label; isinstance(data.columns, pd.MultiIndex) <=> the labels are tuples; "
    "len(data) is the row count; a RangeIndex has name / start / stop / step; copy(list) is an equal list; json.dumps / json decoding are inverse "
    "on the dict built (str keys, JSON values)",
    "makemeta: callee contracts used as cuts inside make_metadata (each posed on its own): find_type(series, ...) returns (element, type) with "
    "element.name == norm_col_name(series.name, is_index) and repetition_type REQUIRED, or raises ValueError; get_column_metadata(series, name, "
    "object_dtype) returns a record named str(name) for a tuple, name for a text, and raises TypeError otherwise (or ValueError for a time zone it "
    "cannot serialise); data[column].name == column",
    "makemeta: Parquet constants: FieldRepetitionType REQUIRED = 0, OPTIONAL = 1, REPEATED = 2 (parquet.thrift); SchemaElement field ids are read "
    "from the `specs` table of the cencoding.pyx under check (root[5] is num_children)",
    "makemeta: has_nulls is True, False, None ('infer' after write() normalised it) or a list of column names - write()'s contract; the has_nulls "
    "promise itself (no missing cell in a REQUIRED column) is the caller's (C02 bookkeeping assumes it as well)",
    "makemeta: reader: self.schema.root['children'] lists the top-level fields in schema order (SchemaHelper, C15 / schema tree contracts); "
    "rg.columns lists one chunk per LEAF in schema order (C02 make_row_group.rg.columns_are_the_chunks_in_schema_order): for a flat schema chunk i "
    "belongs to top-level field i; OrderedDict keeps insertion order; dict comprehension over records keeps the LAST record per key",
    "makemeta write(): append=False path only (append: C07 / C18); get_fs returns (fs, filename, open_with, mkdirs); data.attrs is empty; "
    "reset_row_idx(data) returns a frame holding the original columns plus one column per index level (its values: C01 bounded round trips); set(data) is "
    "the set of column labels and iterating a frame yields its labels in frame order; under MultiIndex columns every label is a tuple, otherwise none is",
    "makemeta reader runs: self is an abstract handle whose attribute reads / stores / method calls are recorded; json decoding, OrderedDict, enumerate, "
    "dict.copy as documented; numpy / pandas calls that build dtypes (np.dtype, pd.Series(...).dt.tz_convert(...).dtype, converted_types.nullable[...]) are "
    "opaque values - their RESULTS for the finite dtype table are what the executed composition tables check; struct.unpack / from_buffer: C10",
    "makemeta tables: EXECUTED enumeration over a finite dtype table (small samples), pandas / numpy behaviour as installed; the pandas metadata "
    "specification is the one of the pandas developer guide ('Storing pandas DataFrame objects in Apache Parquet format'): pandas_type in {bool, "
    "int8..uint64, float16..float64, datetime, datetimetz, timedelta, unicode, bytes, categorical, object, empty, mixed...}, numpy_type = str of the "
    "storage dtype (codes dtype for a categorical), metadata None except categorical {num_categories, ordered} and datetimetz {timezone}",
    "makemeta: canonical forms accepted by metadata.roundtrip_dtype (C01 text): text / bytes / JSON objects, str and string dtypes, fixed-width "
    "bytes come back as object; float16 as float32 (Parquet FLOAT); nullable Float32 / Float64 as float32 / float64; everything else must keep "
    "kind, item width, unit, time zone (same UTC offsets at a winter and a summer instant), categorical-ness with order flag and label count",
]

_cnt = itertools.count()


class ProofScriptError(Exception):
    pass


def guard(name, fn):
    """one family: a construct the engine / the proof script does not model makes THIS family undecided, never the others"""
    try:
        r = fn()
        return r if isinstance(r, list) else [r]
    except Unsupported as ex:
        r = Results()
        r.add(name + ".out_of_reach", UNKNOWN, None, 0.0, "engine", str(ex)[:300])
        return [r]
    except Exception as ex:
        import traceback
        r = Results()
        where = [l.strip() for l in traceback.format_exc().splitlines() if l.strip().startswith("File")][-1:]
        r.add(name + ".out_of_reach", UNKNOWN, None, 0.0, "engine", f"{type(ex).__name__}: {str(ex)[:200]} | {' '.join(where)}")
        return [r]


# =================================================================================================================================
#  TABLES (executed enumeration)
# =================================================================================================================================
SPEC_PANDAS_TYPES = {"bool", "int8", "int16", "int32", "int64", "uint8", "uint16", "uint32", "uint64", "float16", "float32", "float64",
                     "datetime", "datetimetz", "timedelta", "unicode", "bytes", "categorical", "object", "empty", "mixed", "mixed-integer",
                     "string", "integer", "floating", "decimal", "date", "time"}


def dtype_rows(pd, np):
    """the dtype table: name, series factory (3 rows, no missing cell unless the kind needs one), spec expectation, canonical read form"""
    import datetime as _dt
    rows = []

    def add(name, ser, spec_pt, spec_nt, canon=None, oenc="infer", meta=None, **kw):
        rows.append(dict(name=name, ser=ser, spec_pt=spec_pt, spec_nt=spec_nt, canon=canon, oenc=oenc, meta=meta, **kw))
    for d in ("int8", "int16", "int32", "int64", "uint8", "uint16", "uint32", "uint64", "float32", "float64"):
        add(d, pd.Series(np.array([1, 0, 1], dtype=d)), d, d)
    add("float16", pd.Series(np.array([1, 0, 1], dtype="float16")), "float16", "float16", canon="float32")
    add("bool", pd.Series(np.array([True, False, True])), "bool", "bool")
    for d in ("Int8", "Int16", "Int32", "Int64", "UInt8", "UInt16", "UInt32", "UInt64"):
        add(d, pd.Series(pd.array([1, 0, None], dtype=d)), d.lower(), d.lower(), ext=True)
    add("boolean", pd.Series(pd.array([True, False, None], dtype="boolean")), "bool", "bool", ext=True)
    for d in ("Float32", "Float64"):
        add(d, pd.Series(pd.array([1.5, 0, None], dtype=d)), (d.lower(), d), (d.lower(), d), canon=d.lower())
    winter, summer = 1577880000, 1593604800          # 2020-01-01 12:00 UTC, 2020-07-01 12:00 UTC
    for u, f in (("s", 1), ("ms", 10 ** 3), ("us", 10 ** 6), ("ns", 10 ** 9)):
        base = pd.Series(np.array([winter * f, summer * f, 0], dtype="int64").view(f"M8[{u}]"))
        add(f"datetime64[{u}]", base, "datetime", f"datetime64[{u}]")
        for tz in ("UTC", "Europe/Paris", "+05:30", "-00:30"):
            z = tz if ":" not in tz else _dt.timezone((-1 if tz[0] == "-" else 1) * _dt.timedelta(hours=int(tz[1:3]), minutes=int(tz[4:6])))
            s = base.dt.tz_localize("UTC").dt.tz_convert(z)
            add(f"datetime64[{u}, {tz}]", s, "datetimetz", (f"datetime64[{u}]", str(s.dtype)), meta={"timezone": tz}, tz=True)
        add(f"timedelta64[{u}]", pd.Series(np.array([1, 2, 3], dtype="int64").view(f"m8[{u}]")), "timedelta", f"timedelta64[{u}]")
    named = _dt.timezone(_dt.timedelta(hours=1), "CET")
    add("datetime64[us, fixed +01:00 named CET]", pd.Series(np.array([winter * 10 ** 6, summer * 10 ** 6, 0], dtype="int64").view("M8[us]"))
        .dt.tz_localize("UTC").dt.tz_convert(named), "datetimetz", ("datetime64[us]", "datetime64[us, CET]"), meta={"timezone": "+01:00"}, tz=True)
    add("object[text]", pd.Series(["a", "b", "c"], dtype=object), "unicode", "object", canon="object")
    add("object[bytes]", pd.Series([b"a", b"b", b"c"], dtype=object), "bytes", "object", canon="object")
    add("object[json]", pd.Series([{"a": 1}, [1], {"b": None}], dtype=object), "object", "object", canon="object", oenc="json")
    add("object[text with a missing cell]", pd.Series(["a", None, "c"], dtype=object), ("unicode", "mixed"), "object", canon="object")
    add("str", pd.Series(["a", "b", "c"], dtype="str"), "unicode", ("object", "str"), canon="object")
    add("string", pd.Series(["a", "b", "c"], dtype="string"), "unicode", ("object", "string"), canon="object")
    add("S3 (fixed bytes)", pd.Series(np.array([b"abc", b"de", b""], dtype="S3")), "bytes", ("object", "|S3"), canon="object")
    add("category[text]", pd.Series(pd.Categorical(["a", "b", "a"])), "categorical", "int8", meta={"num_categories": 2, "ordered": False}, cat=True)
    add("category[text, ordered]", pd.Series(pd.Categorical(["a", "b", "a"], ordered=True)), "categorical", "int8",
        meta={"num_categories": 2, "ordered": True}, cat=True)
    add("category[int64]", pd.Series(pd.Categorical([1, 2, 1])), "categorical", "int8", meta={"num_categories": 2, "ordered": False}, cat=True)
    add("category[300 labels]", pd.Series(pd.Categorical.from_codes([0, 1, 299], categories=list(range(300)))), "categorical", "int16",
        meta={"num_categories": 300, "ordered": False}, cat=True)
    add("category[datetime64[ns]]", pd.Series(pd.Categorical(pd.to_datetime(["2020-01-01", "2020-01-02", "2020-01-01"]))), "categorical", "int8",
        meta={"num_categories": 2, "ordered": False}, cat=True)
    return rows


def stub_handle(fp, fmd, **kw):
    """a ParquetFile over a footer, without a file: the real _set_attrs -> _read_partitions, _dtypes run on it"""
    api = fp.api
    pf = object.__new__(api.ParquetFile)
    pf.pandas_nulls = kw.get("pandas_nulls", True)
    pf._base_dtype = kw.get("dtypes")
    pf.tz = None
    pf._columns_dtype = None
    pf.fn = None
    pf.fmd = fmd
    pf.open = None
    pf._statistics = None
    pf._set_attrs()
    return pf


def footer_roundtrip(fp, fmd):
    from fastparquet.cencoding import from_buffer
    return from_buffer(fmd.to_bytes(), "FileMetaData")


def dtype_facts(pd, np, dt):
    """what C01 / C17 compare of a dtype"""
    if isinstance(dt, str) and dt == "category":
        return {"kind": "category"}             # the handle's prediction names no labels / order flag (pf.categories holds the count)
    if isinstance(dt, str):
        dt = pd.api.types.pandas_dtype(dt)
    if isinstance(dt, pd.CategoricalDtype):
        if dt.categories is None:
            return {"kind": "category"}
        return {"kind": "category", "ordered": bool(dt.ordered), "ncat": len(dt.categories)}
    if isinstance(dt, pd.DatetimeTZDtype):
        return {"kind": "M", "unit": dt.unit, "tz": dt.tz}
    if isinstance(dt, pd.api.extensions.ExtensionDtype) and hasattr(dt, "numpy_dtype") and dt.name[:1] in "IUb" and dt.name != "bool":
        return {"kind": "masked:" + np.dtype(dt.numpy_dtype).kind, "size": np.dtype(dt.numpy_dtype).itemsize}
    try:
        n = np.dtype(dt)
    except TypeError:
        return {"kind": "other:" + str(dt)}
    if n.kind in "Mm":
        return {"kind": n.kind, "unit": np.datetime_data(n)[0], "tz": None}
    if n.kind == "O":
        return {"kind": "O"}
    return {"kind": n.kind, "size": n.itemsize}


def same_offsets(pd, tz_a, tz_b):
    import datetime as _dt
    for t in (_dt.datetime(2020, 1, 1, 12), _dt.datetime(2020, 7, 1, 12)):
        ts = pd.Timestamp(t, tz="UTC")
        if ts.tz_convert(tz_a).utcoffset() != ts.tz_convert(tz_b).utcoffset():
            return False
    return True


def compare_dtype(pd, np, want, got):
    """None when `got` is `want` in the sense of the property, else a message"""
    a, b = dtype_facts(pd, np, want), dtype_facts(pd, np, got)
    if a["kind"] != b["kind"]:
        return f"kind {b['kind']} instead of {a['kind']}"
    for k in ("size", "unit", "ordered", "ncat"):
        if k in ("ordered", "ncat") and (k not in a or k not in b):
            continue
        if a.get(k) != b.get(k):
            return f"{k} {b.get(k)} instead of {a.get(k)}"
    if a["kind"] == "M":
        if (a["tz"] is None) != (b["tz"] is None):
            return f"time zone {b['tz']} instead of {a['tz']}"
        if a["tz"] is not None and not same_offsets(pd, a["tz"], b["tz"]):
            return f"time zone {b['tz']} has other UTC offsets than {a['tz']}"
    return None


TABLE_PARTS = {"writer": ("spec", "gcm_names", "infer", "refuse"),
               "both": ("spec", "gcm_names", "infer", "refuse", "compose", "override", "names", "prealloc", "empty")}


def run_tables(ctx, side, parts=None):
    with warnings.catch_warnings():
        warnings.simplefilter("ignore")
        return _run_tables(ctx, side, tuple(parts) if parts is not None else TABLE_PARTS[side])


def _run_tables(ctx, side, parts):
    """parts: spec (entries vs the pandas specification), gcm_names, infer (object columns), compose (written -> footer -> handle), override,
    names, prealloc (column requests in any order)"""
    from runtime.harness import import_fastparquet
    fp = import_fastparquet()
    import numpy as np
    import pandas as pd
    from fastparquet import writer, util
    res = Results()
    rows = dtype_rows(pd, np)
    n_posed = 0
    for row in rows:
        if not ({"spec", "compose", "override"} & set(parts)):
            break
        D, ser = row["name"], row["ser"]
        t0 = time.time()
        nm_spec = f"get_column_metadata.entry_matches_pandas_spec[{D}]"
        md = None
        try:
            if "spec" in parts:
                md = util.get_column_metadata(ser.rename("x"), "x", object_dtype=None if row["oenc"] == "infer" else row["oenc"])
        except Exception as ex:
            md = None
            res.add(nm_spec, REFUTED, {"raises": f"{type(ex).__name__}: {ex}"[:200]}, time.time() - t0, EXEC,
                    "get_column_metadata raises for a dtype of the supported table")
        if md is not None:
            why = []
            if md.get("name") != "x" or md.get("field_name") != "x":
                why.append(f"name / field_name {md.get('name')!r} / {md.get('field_name')!r} instead of 'x'")
            if set(md) != {"name", "field_name", "pandas_type", "numpy_type", "metadata"}:
                why.append(f"keys {sorted(md)}")
            pts = row["spec_pt"] if isinstance(row["spec_pt"], tuple) else (row["spec_pt"],)
            nts = row["spec_nt"] if isinstance(row["spec_nt"], tuple) else (row["spec_nt"],)
            if row.get("ext"):
                # nullable extension dtypes: the specification predates them; pyarrow writes (pandas_type, numpy_type) = (numpy name,
                # extension name), this library the reverse - either way the pair must name the extension dtype and its storage dtype
                pair = {str(md.get("pandas_type")), str(md.get("numpy_type"))}
                if not (pair <= {pts[0], str(ser.dtype)} and str(ser.dtype) in pair):
                    why.append(f"(pandas_type, numpy_type) = ({md.get('pandas_type')!r}, {md.get('numpy_type')!r}) does not name the extension dtype "
                               f"{ser.dtype} and its storage dtype {pts[0]}")
            else:
                if md.get("pandas_type") not in pts:
                    why.append(f"pandas_type {md.get('pandas_type')!r}, the specification names this kind {pts[0]!r}"
                               + ("" if md.get("pandas_type") in SPEC_PANDAS_TYPES else " (not a name of the specification at all)"))
                if md.get("numpy_type") not in nts:
                    why.append(f"numpy_type {md.get('numpy_type')!r}, the storage dtype is {nts[0]!r}")
            want_meta = row["meta"]
            have = md.get("metadata")
            if want_meta is None:
                if have is not None:
                    why.append(f"metadata {have!r} instead of None")
            elif row.get("tz"):
                ok = isinstance(have, dict) and isinstance(have.get("timezone"), str)
                if ok:
                    try:
                        from fastparquet.dataframe import tz_to_dt_tz
                        z = tz_to_dt_tz(have["timezone"])
                        ok = same_offsets(pd, ser.dt.tz, pd.Series([], dtype="M8[ns]").dt.tz_localize(z).dt.tz)
                    except Exception as ex:
                        ok = False
                if not ok:
                    why.append(f"metadata {have!r} does not name the column's time zone ({ser.dt.tz})")
            elif have != want_meta:
                why.append(f"metadata {have!r} instead of {want_meta!r}")
            res.add(nm_spec, REFUTED if why else PROVED, {"entry": md, "why": why} if why else None, time.time() - t0, EXEC,
                    "the entry is {name, field_name, pandas_type, numpy_type, metadata} with the specification's values for this dtype"
                    + ("; deviations: " + "; ".join(why) if why else ""))
            n_posed += 1
        # ---- composition with the reader ------------------------------------------------------------------------------------------
        want = row["canon"] or ser.dtype
        for as_index in ((False, True) if "compose" in parts else ()):
            nm = f"metadata.roundtrip_dtype[{D}{' as index' if as_index else ''}]"
            t0 = time.time()
            try:
                if as_index:
                    df = pd.DataFrame({"v": [1, 2, 3]}, index=pd.Index(ser, name="x"))
                    data = util.reset_row_idx(df)
                    index_cols = [c for c in data if c not in set(df)]
                else:
                    df = pd.DataFrame({"x": ser})
                    data, index_cols = df, df.index
                fmd = writer.make_metadata(data, has_nulls=True, object_encoding=row["oenc"], index_cols=index_cols, cols_dtype=df.columns.dtype)
            except Exception as ex:
                res.add(nm, PROVED, None, time.time() - t0, EXEC, f"the write raises ({type(ex).__name__}: {str(ex)[:100]})")
                continue
            why, why_alloc, got = None, None, {}
            try:
                pf = stub_handle(fp, footer_roundtrip(fp, fmd))
                got["columns"], got["index"] = list(pf.columns), list(pf._get_index())
                if got["columns"] != [str(c) for c in data.columns]:
                    why = f"pf.columns {got['columns']} instead of {list(data.columns)}"
                elif got["index"] != (["x"] if as_index else []):
                    why = f"pf._get_index() {got['index']}"
                else:
                    pred = pf.dtypes["x"]
                    got["predicted"] = str(pred)
                    why = compare_dtype(pd, np, want, pred)
                    if why:
                        why = "pf.dtypes['x']: " + why
                    elif row.get("cat") and pf.categories.get("x") != row["meta"]["num_categories"]:
                        why = f"pf.categories {dict(pf.categories)}: not the {row['meta']['num_categories']} labels written"
                    # ---- the frame a read allocates from these answers (to_pandas: pre_allocate(size, columns, categories, index))
                    df0, _ = pf.pre_allocate(3, list(pf.columns), None, got["index"] or None)
                    real = df0.index.dtype if as_index else df0["x"].dtype
                    got["allocated"] = str(real)
                    w2 = pred
                    if as_index and dtype_facts(pd, np, pred)["kind"].startswith("masked"):
                        w2 = np.dtype(pred.numpy_dtype)          # an index cannot be masked: a nullable integer index is allocated as its numpy dtype
                    why_alloc = compare_dtype(pd, np, w2, real)
                    if not why_alloc and row.get("cat"):
                        why_alloc = compare_dtype(pd, np, ser.dtype, real)          # order flag and label count of the original
                    names = list(df0.index.names) if as_index else list(df0.columns)
                    if not why_alloc and names != ["x"]:
                        why_alloc = f"allocated frame names {names}"
            except Exception as ex:
                why = why or f"the handle raises {type(ex).__name__}: {str(ex)[:120]}"
            res.add(nm, REFUTED if why else PROVED, dict(got, original=str(ser.dtype), expected=str(want), why=why) if why else None,
                    time.time() - t0, EXEC,
                    f"written from {ser.dtype}: schema element + pandas entry -> footer bytes -> handle: pf.columns, pf._get_index() name the column and "
                    f"pf.dtypes[col] is {want} (kind, width, unit, time zone, categorical-ness)" + (f" - {why}" if why else ""))
            n_posed += 1
            if "predicted" in got and (why_alloc or "allocated" in got):
                res.add(nm.replace("metadata.roundtrip_dtype[", "metadata.allocated_is_predicted["), REFUTED if why_alloc else PROVED,
                        dict(got, original=str(ser.dtype), why=why_alloc) if why_alloc else None, 0.0, EXEC,
                        "the frame pre_allocate builds for a read (columns, index = the handle's answers) has the dtype the handle predicts for the "
                        "column (a nullable integer index: its numpy dtype; a categorical: order flag and label count of the original)"
                        + (f" - {why_alloc}" if why_alloc else ""))
                n_posed += 1
        # ---- dtypes override --------------------------------------------------------------------------------------------------------
        if "override" not in parts:
            continue
        nm = f"dtypes.override_is_honoured[{D}]"
        t0 = time.time()
        try:
            df = pd.DataFrame({"x": ser, "k": [1, 2, 3]})
            fmd = footer_roundtrip(fp, writer.make_metadata(df, has_nulls=True, object_encoding=row["oenc"], index_cols=df.index, cols_dtype=df.columns.dtype))
            nat = dict(stub_handle(fp, fmd).dtypes)
        except Exception as ex:
            res.add(nm, PROVED, None, time.time() - t0, EXEC, f"nothing to override: the write / plain open raises ({type(ex).__name__})")
            continue
        why = None
        try:
            ov = dict(nat, k=np.dtype("float64"))
            pf = stub_handle(fp, fmd, dtypes=dict(ov))
            if list(pf.dtypes) != list(ov) or any(str(pf.dtypes[c]) != str(ov[c]) for c in ov):
                why = f"pf.dtypes {dict(pf.dtypes)} instead of the override {ov}"
            else:
                df0, _ = pf.pre_allocate(3, list(pf.columns), None, None)
                for c in ov:
                    w = compare_dtype(pd, np, ov[c], df0[c].dtype)
                    if w:
                        why = f"column {c}: handle says {ov[c]}, the frame allocated has {df0[c].dtype} ({w})"
                        break
        except Exception as ex:
            why = f"raises {type(ex).__name__}: {str(ex)[:120]}"
        res.add(nm, REFUTED if why else PROVED, {"override": {k: str(v) for k, v in ov.items()}, "why": why} if why else None, time.time() - t0, EXEC,
                "ParquetFile(dtypes=D) with D = the file's natural dtypes (k: float64 instead of int64): pf.dtypes == D and the frame allocated "
                "for a read has D's dtypes" + (f" - {why}" if why else ""))
        n_posed += 1
    # ---- names ------------------------------------------------------------------------------------------------------------------------
    ser = pd.Series([1, 2, 3])
    for label, name, want in () if "gcm_names" not in parts else (("text", "col", "col"), ("empty text", "", ""), ("text with dots and spaces", "a.b c", "a.b c"),
                              ("tuple", ("a", "x"), "('a', 'x')"), ("int", 0, TypeError), ("None", None, TypeError), ("bytes", b"c", TypeError),
                              ("float", 1.5, TypeError)):
        t0 = time.time()
        try:
            got = util.get_column_metadata(ser, name)
            got = (got["name"], got["field_name"])
        except Exception as ex:
            got = type(ex)
        ok = got == (want, want) if isinstance(want, str) else got is want
        res.add(f"get_column_metadata.name[{label}]", PROVED if ok else REFUTED, None if ok else {"name": repr(name), "got": repr(got)},
                time.time() - t0, EXEC, "a text name is kept verbatim (name == field_name), a tuple becomes its text, anything else raises TypeError")
        n_posed += 1
    for part, rows_fn in (("names", names_rows), ("prealloc", prealloc_rows), ("infer", infer_rows), ("refuse", refusal_rows), ("empty", empty_rows)):
        if part in parts:
            for r in rows_fn(fp, pd, np):
                res.add(*r)
                n_posed += 1
    ctx.vacuity["covers"] += n_posed
    return res


def names_rows(fp, pd, np):
    """metadata.roundtrip_names[...]: column names and order / index names through make_metadata -> footer -> handle -> allocated frame"""
    from fastparquet import writer, util
    out = []
    mi = pd.MultiIndex.from_tuples([("a", "x"), ("a", "y"), ("b", "x")], names=["l0", "l1"])
    frames = [
        ("text names, frame order kept", pd.DataFrame({"b": [1, 2], "a": [1.5, 2.5], "c": ["u", "v"]}), None),
        ("names that sort differently from frame order", pd.DataFrame({"z": [1, 2], "A": [1, 2], "m": [1, 2], "_": [1, 2]}), None),
        ("named int index", pd.DataFrame({"b": [1, 2], "a": [3, 4]}, index=pd.Index([10, 20], name="idx")), None),
        ("unnamed non-range index", pd.DataFrame({"b": [1, 2]}, index=pd.Index([10, 20])), None),
        ("datetime index", pd.DataFrame({"b": [1, 2]}, index=pd.DatetimeIndex(["2020-01-01", "2020-01-02"], name="t")), None),
        ("tz-aware datetime index", pd.DataFrame({"b": [1, 2]}, index=pd.DatetimeIndex(["2020-01-01", "2020-01-02"], name="t", tz="Europe/Paris")), None),
        ("two-level row index", pd.DataFrame({"b": [1, 2]}, index=pd.MultiIndex.from_arrays([[1, 2], ["p", "q"]], names=["i0", "i1"])), None),
        ("RangeIndex(start=5, step=2), named", pd.DataFrame({"b": [1, 2]}, index=pd.RangeIndex(5, 9, 2, name="r")), None),
        ("MultiIndex columns, range index", pd.DataFrame(np.arange(6).reshape(2, 3), columns=mi), None),
        ("MultiIndex columns, named int index", pd.DataFrame(np.arange(6).reshape(2, 3), columns=mi, index=pd.Index([10, 20], name="idx")), None),
        ("MultiIndex columns, datetime index", pd.DataFrame(np.arange(6).reshape(2, 3), columns=mi,
                                                             index=pd.DatetimeIndex(["2020-01-01", "2020-01-02"], name="idx")), None),
        ("index column also named in ignore_columns (partition_on names the index)",
         pd.DataFrame({"v": [1, 2, 3]}, index=pd.Index(["p", "q", "p"], name="idx")), ["idx"]),
    ]
    for label, df, ignore in frames:
        nm = f"metadata.roundtrip_names[{label}]"
        t0 = time.time()
        try:
            if isinstance(df.index, pd.RangeIndex):
                data, index_cols = df, df.index
            else:
                cols = set(df)
                data = util.reset_row_idx(df)
                index_cols = [c for c in data if c not in cols]
            fmd = writer.make_metadata(data, index_cols=index_cols, cols_dtype=df.columns.dtype, ignore_columns=ignore, partition_cols=ignore)
        except Exception as ex:
            out.append((nm, PROVED, None, time.time() - t0, EXEC, f"the write raises ({type(ex).__name__}: {str(ex)[:100]})"))
            continue
        why, got = None, {}
        try:
            pf = stub_handle(fp, footer_roundtrip(fp, fmd))
            got = {"columns": list(pf.columns), "index": list(pf._get_index())}
            ix = got["index"]
            if any(i not in got["columns"] for i in ix):
                why = f"pf._get_index() names {ix} but the file's columns are {got['columns']}"
            else:
                df0, _ = pf.pre_allocate(2, list(pf.columns), None, ix or None)
                want_cols = [c for c in df.columns]
                have_cols = [c for c in df0.columns]
                want_ix = [n if n is not None else None for n in df.index.names]
                have_ix = list(df0.index.names)
                if [str(c) for c in have_cols] != [str(c) for c in want_cols] or (isinstance(df.columns, pd.MultiIndex) and have_cols != want_cols):
                    why = f"columns of the frame read {have_cols} instead of {want_cols}"
                elif list(df0.columns.names) != list(df.columns.names):
                    why = f"column index names {list(df0.columns.names)} instead of {list(df.columns.names)}"
                elif not isinstance(df.index, pd.RangeIndex) and [n for n in have_ix] != [n if n is not None else "index" for n in want_ix] \
                        and have_ix != want_ix:
                    why = f"index names {have_ix} instead of {want_ix}"
                elif isinstance(df.index, pd.RangeIndex) and not (isinstance(df0.index, pd.RangeIndex) and df0.index.equals(df.index)
                                                                  and df0.index.name == df.index.name):
                    why = f"index {df0.index!r} instead of {df.index!r}"
        except Exception as ex:
            why = f"the handle raises {type(ex).__name__}: {str(ex)[:120]}"
        out.append((nm, REFUTED if why else PROVED, dict(got, why=why) if why else None, time.time() - t0, EXEC,
                    "column names and order, column-index names and the row index (names; a RangeIndex itself) of the frame allocated from the "
                    "handle's metadata-only answers equal the frame's" + (f" - {why}" if why else "")))
    return out



# =================================================================================================================================
#  SYMBOLIC PART: values, engine
# =================================================================================================================================
I, B = z3.IntSort(), z3.BoolSort()
T = z3.DeclareSort("Label")                                   # column labels / texts
NAME = z3.Function("label_of_column", I, T)                   # label of column j of the frame (frame order)
PNAME = z3.Function("label_of_partition_column", I, T)
IGN = z3.Function("label_in_ignore_columns", I, B)
INHN = z3.Function("label_in_has_nulls_list", I, B)
ISIDX = z3.Function("label_in_index_cols", I, B)
CAT = z3.Function("dtype_is_categorical", I, B)
ISOBJ = z3.Function("dtype_is_object", I, B)
WR = z3.Function("written_columns_before", I, I)              # number of NOT ignored columns among the first j
TUPLE = z3.Function("label_is_tuple", T, B)
STR = z3.Function("str_of_label", T, T)
FIRST = z3.Function("first_item_of_label", T, T)
REP = {"REQUIRED": 0, "OPTIONAL": 1, "REPEATED": 2}


def fresh_int(base):
    return z3.Int(f"{base}!m{next(_cnt)}")


def fresh_bool(base):
    return z3.Bool(f"{base}!m{next(_cnt)}")


def raise_path(p, exc, node=None):
    p.ctl = ("raise", exc)
    p.trace.append(("raise", getattr(node, "lineno", 0)))
    return p


def same(a, b):
    """structural identity of two engine values (for frame conditions)"""
    if a is b:
        return True
    if type(a) is not type(b):
        return False
    if isinstance(a, (PyI, PyB)):
        return z3.eq(z3.simplify(a.z), z3.simplify(b.z))
    if isinstance(a, Str):
        return a.s == b.s
    if isinstance(a, NoneV):
        return True
    if isinstance(a, Custom):
        return a.h is b.h
    if isinstance(a, Opaque):
        return a.tag == b.tag
    if isinstance(a, Tup):
        return len(a.items) == len(b.items) and all(same(x, y) for x, y in zip(a.items, b.items))
    if isinstance(a, Opt):
        return z3.eq(a.isnone, b.isnone) and same(a.val, b.val)
    if isinstance(a, list):
        return len(a) == len(b) and all(same(x, y) for x, y in zip(a, b))
    if isinstance(a, dict):
        return set(a) == set(b) and all(same(a[k], b[k]) for k in a)
    if z3.is_expr(a):
        return z3.eq(z3.simplify(a), z3.simplify(b))
    return a == b


OBJS = {}


class Obj:
    """mutable proof-script object: its state lives in path.ghost[self.key] (forked with the path)"""
    tracked = False
    kind = "obj"

    def __init__(self):
        self.key = (self.kind, next(_cnt))
        OBJS[self.key] = self              # ghost state is keyed by self.key; the registry gives the object back (cleared per run)

    def is_none(self, eng, p):
        return z3.BoolVal(False)


class LstV(Obj):
    """a Python list: state {'base': None | z3 Int (abstract prefix length), 'items': [appended values]}"""
    kind = "lst"

    def init(self, p, items):
        p.ghost[self.key] = {"base": None, "items": list(items), "dirty": []}
        return self

    def st(self, p):
        return p.ghost[self.key]

    def put(self, p, base, items, dirty=None):
        p.ghost[self.key] = {"base": base, "items": list(items), "dirty": list(self.st(p).get("dirty", []) if dirty is None else dirty)}

    def zlen(self, p):
        s = self.st(p)
        n = z3.IntVal(len(s["items"]))
        return n if s["base"] is None else z3.simplify(s["base"] + n)

    def len(self, eng, p):
        return PyI(self.zlen(p))

    def truth(self, eng, p):
        return z3.simplify(self.zlen(p) > 0)

    def isinstance(self, eng, p, tn):
        return z3.BoolVal("list" in tn)

    def call_method(self, eng, p, name, args, kw, node):
        s = self.st(p)
        if name == "append" and len(args) == 1:
            self.put(p, s["base"], s["items"] + [args[0]])
            return [(p, NONE)]
        if name == "extend" and len(args) == 1 and isinstance(args[0], Custom) and isinstance(args[0].h, LstV) and args[0].h.st(p)["base"] is None:
            self.put(p, s["base"], s["items"] + args[0].h.st(p)["items"])
            return [(p, NONE)]
        if name == "copy" and not args:
            return [(p, Custom(LstV().init(p, s["items"]) if s["base"] is None else self))]
        if name in ("sort", "reverse", "insert", "pop", "remove", "clear", "__setitem__", "__delitem__"):
            # order / content of the list is no longer what the appends built: every obligation about this list fails from here on
            self.put(p, s["base"], s["items"], dirty=s.get("dirty", []) + [f"{name}@L{getattr(node, 'lineno', 0)}"])
            return [(p, Opaque(("list." + name, next(_cnt))))]
        raise Unsupported("list." + name)

    def iterate(self, eng, p):
        s = self.st(p)
        if s["base"] is not None:
            raise Unsupported("concrete iteration over an abstract list")
        return list(s["items"])

    def getitem(self, eng, p, i, node):
        s = self.st(p)
        k = z3.simplify(eng.as_int(i, p, node))
        if s["base"] is None and z3.is_int_value(k) and -len(s["items"]) <= k.as_long() < len(s["items"]):
            return s["items"][k.as_long()]
        raise Unsupported("index into an abstract list")

    def contains(self, eng, p, item):
        s = self.st(p)
        if s["base"] is None and not s["items"]:
            return z3.BoolVal(False)
        if s["base"] is None and all(isinstance(x, (Str, NoneV, PyI, PyB)) or (isinstance(x, Custom) and hasattr(x.h, "eq")) for x in s["items"]):
            return z3.Or(*[eng.equal(item, x, p, None) for x in s["items"]])
        raise Unsupported("membership in a list of unknown contents")

    def binop(self, eng, p, op, b, node, swapped=False):
        st_ = self.st(p)
        if isinstance(op, ast.Mult) and isinstance(b, (PyI, PyB)) and st_["base"] is None and len(st_["items"]) == 1:
            return Custom(ConstList(st_["items"][0], eng.as_int(b, p, node)))
        raise Unsupported("list operator")

    def eq(self, eng, p, other):
        if isinstance(other, Custom) and hasattr(other.h, "eq") and not isinstance(other.h, LstV):
            return other.h.eq(eng, p, Custom(self))
        if isinstance(other, Custom) and isinstance(other.h, LstV):
            a, b = self.st(p), other.h.st(p)
            if a["base"] is None and b["base"] is None and not a["items"] and not b["items"]:
                return z3.BoolVal(True)
        raise Unsupported("list comparison")


class ConstList:
    """[x] * n"""
    tracked = False

    def __init__(self, elt, n):
        self.elt, self.n = elt, n

    def len(self, eng, p):
        return PyI(self.n)


class DictV(Obj):
    kind = "dict"

    def init(self, p, d):
        p.ghost[self.key] = dict(d)
        return self

    def st(self, p):
        return p.ghost[self.key]

    def getitem(self, eng, p, i, node):
        if isinstance(i, Str):
            if i.s in self.st(p):
                return self.st(p)[i.s]
            eng.oblige(p, f"{eng.cur_func}.key_present[{i.s}]@L{node.lineno}", "safety", z3.BoolVal(False), node)
            return Opaque(("missing", i.s))
        raise Unsupported("dict[...] with a key that is not a text literal")

    def setitem(self, eng, p, i, v, node):
        if not isinstance(i, Str):
            raise Unsupported("dict store with a key that is not a text literal")
        d = dict(self.st(p))
        d[i.s] = v
        p.ghost[self.key] = d

    def truth(self, eng, p):
        return z3.BoolVal(len(self.st(p)) > 0)

    def len(self, eng, p):
        return PyI(len(self.st(p)))

    def isinstance(self, eng, p, tn):
        return z3.BoolVal("dict" in tn)

    def call_method(self, eng, p, name, args, kw, node):
        if name == "get" and args:
            dflt = args[1] if len(args) > 1 else NONE
            if isinstance(args[0], Str):
                return [(p, self.st(p).get(args[0].s, dflt))]
            if not self.st(p):
                return [(p, dflt)]
        raise Unsupported("dict." + name)

    def contains(self, eng, p, item):
        if isinstance(item, Str):
            return z3.BoolVal(item.s in self.st(p))
        if not self.st(p):
            return z3.BoolVal(False)
        raise Unsupported("membership in a dict with a symbolic key")


class RecV(Obj):
    """a thrift object: fields by name, items by field id (table `specs` of the cencoding.pyx under check)"""
    kind = "rec"
    SPECS = None

    def __init__(self, tname, lineno=0):
        super().__init__()
        self.tname, self.lineno = tname, lineno

    def init(self, p, fields):
        p.ghost[self.key] = dict(fields)
        return self

    def st(self, p):
        return p.ghost[self.key]

    def field(self, p, name):
        return self.st(p).get(name, NONE)

    def attr(self, eng, p, name):
        if name == "thrift_name":
            return Str(self.tname)
        return self.field(p, name)

    def setattr(self, eng, p, name, v):
        d = dict(self.st(p))
        d[name] = v
        p.ghost[self.key] = d

    def _fname(self, eng, p, i, node):
        k = z3.simplify(eng.as_int(i, p, node))
        if not z3.is_int_value(k):
            raise Unsupported("thrift object indexed by a symbolic field id")
        spec = (RecV.SPECS or {}).get(self.tname)
        if spec is None:
            raise Unsupported("no field-id table for " + self.tname)
        for nm, fid in spec.items():
            if fid == k.as_long():
                return nm
        eng.oblige(p, f"{eng.cur_func}.field_id_declared[{self.tname}[{k.as_long()}]]", "safety", z3.BoolVal(False), node)
        return f"<field {k.as_long()}>"

    def getitem(self, eng, p, i, node):
        if isinstance(i, Str):
            return self.field(p, i.s)
        return self.field(p, self._fname(eng, p, i, node))

    def setitem(self, eng, p, i, v, node):
        self.setattr(eng, p, i.s if isinstance(i, Str) else self._fname(eng, p, i, node), v)

    def truth(self, eng, p):
        return z3.BoolVal(True)


class Sym:
    """immutable symbolic value base"""
    tracked = False

    def is_none(self, eng, p):
        return z3.BoolVal(False)


class Label(Sym):
    """a column label: term of sort Label + where it comes from (('col', j) | ('pcol', k) | ('level', l) | ('index0',))"""

    def __init__(self, term, src):
        self.term, self.src = term, src

    def eq(self, eng, p, other):
        if isinstance(other, Custom) and isinstance(other.h, Label):
            return self.term == other.h.term
        raise Unsupported("label compared with " + type(other).__name__)

    def getitem(self, eng, p, i, node):
        k = z3.simplify(eng.as_int(i, p, node))
        if z3.is_int_value(k) and k.as_long() == 0:
            eng.oblige(p, f"{eng.cur_func}.label_is_subscriptable@L{node.lineno}", "safety", TUPLE(self.term), node)
            return Custom(Label(FIRST(self.term), ("first", self.src)))
        raise Unsupported("label[k], k != 0")

    def isinstance(self, eng, p, tn):
        if tn == "tuple":
            return TUPLE(self.term)
        if tn == "str":
            return z3.Not(TUPLE(self.term))
        raise Unsupported("isinstance(label, " + tn + ")")

    def truth(self, eng, p):
        return fresh_bool("label_truthy")


class SerV(Sym):
    """a column of the frame: src = ('col', j) | ('pcol', k) | ('categories', j) | ('level', l)"""

    def __init__(self, src):
        self.src = src

    def attr(self, eng, p, name):
        if name == "dtype":
            return Custom(DTypeV(self))
        if name == "cat":
            return Custom(CatAcc(self))
        if name == "name":
            if self.src[0] == "col":
                return Custom(Label(NAME(self.src[1]), self.src))
            return Opaque(("series_name", str(self.src)))
        return Opaque(("series", str(self.src), name))


class CatAcc(Sym):
    def __init__(self, ser):
        self.ser = ser

    def attr(self, eng, p, name):
        if name == "categories" and self.ser.src[0] == "col":
            return Custom(SerV(("categories", self.ser.src[1])))
        return Opaque(("cat", str(self.ser.src), name))


class DTypeV(Sym):
    def __init__(self, ser):
        self.ser = ser

    def isinstance(self, eng, p, tn):
        if "CategoricalDtype" in tn and self.ser.src[0] == "col":
            return CAT(self.ser.src[1])
        return fresh_bool("isinstance_dtype")

    def eq(self, eng, p, other):
        if isinstance(other, Str) and other.s in ("O", "object") and self.ser.src[0] == "col":
            return ISOBJ(self.ser.src[1])
        return fresh_bool("dtype_eq")

    def attr(self, eng, p, name):
        return Opaque(("dtype", str(self.ser.src), name))


class W:
    """one scenario of make_metadata: which shapes the arguments have (concrete), everything else symbolic"""

    def __init__(self, labels, index, oenc, fixed, defaults=False):
        self.labels, self.index, self.oenc, self.fixed, self.defaults = labels, index, oenc, fixed, defaults
        self.N, self.NP, self.ROWS = z3.Int("n_columns"), z3.Int("n_partition_columns"), z3.Int("len_data")
        self.UNIQUE = z3.Bool("columns_is_unique")
        self.HN = z3.Int("has_nulls_mode")            # 0 True, 1 False, 2 None ('infer'), 3 list of names
        self.IDX_NONEMPTY = z3.Bool("index_cols_nonempty")
        self.OE_TRUTHY = z3.Bool("object_encoding_truthy")
        self.calls = []
        self.tag = "[defaults]" if defaults else f"[labels={labels},index={index}]"

    def pre(self):
        j = z3.Int("qj")
        cs = [self.N >= 0, self.NP >= 0, self.ROWS >= 0, 0 <= self.HN, self.HN <= 3, WR(0) == 0]
        return cs


class FrameV(Sym):
    def __init__(self, w):
        self.w = w

    def len(self, eng, p):
        return PyI(self.w.ROWS)

    def attr(self, eng, p, name):
        if name == "columns":
            return Custom(self.w.cols)
        return Opaque(("frame", name))

    def getitem(self, eng, p, i, node):
        if isinstance(i, Custom) and isinstance(i.h, Label) and i.h.src[0] in ("col", "pcol"):
            return Custom(SerV(i.h.src))
        raise Unsupported("data[...] with something that is not a column label of the loop")


class ColsV(Sym):
    """data.columns"""

    def __init__(self, w):
        self.w = w

    def attr(self, eng, p, name):
        if name == "is_unique":
            return PyB(self.w.UNIQUE)
        return Opaque(("columns", name))

    def isinstance(self, eng, p, tn):
        if "MultiIndex" in tn:
            return z3.BoolVal(self.w.labels == "tuple")
        return z3.BoolVal(False)

    def for_loop(self, eng, p, st):
        return column_loop(eng, p, st, self.w)


class NameSetV(Sym):
    """ignore_columns"""

    def contains(self, eng, p, item):
        if isinstance(item, Custom) and isinstance(item.h, Label) and item.h.src[0] == "col":
            return IGN(item.h.src[1])
        raise Unsupported("membership of something that is not a column label in ignore_columns")

    def isinstance(self, eng, p, tn):
        return z3.BoolVal("list" in tn)

    def truth(self, eng, p):
        return fresh_bool("ignore_columns_nonempty")


class HasNullsV(Sym):
    def __init__(self, w):
        self.w = w

    def is_none(self, eng, p):
        return self.w.HN == 2

    def identical(self, eng, p, other):
        if isinstance(other, PyB):
            s = z3.simplify(other.z)
            if z3.is_true(s):
                return self.w.HN == 0
            if z3.is_false(s):
                return self.w.HN == 1
        return None

    def truth(self, eng, p):
        return z3.If(self.w.HN == 3, z3.Bool("has_nulls_list_nonempty"), self.w.HN == 0)

    def contains(self, eng, p, item):
        eng.oblige(p, f"{eng.cur_func}.membership_only_in_a_list_of_names[has_nulls]", "safety", self.w.HN == 3, None,
                   "`column in has_nulls` is evaluated only when has_nulls is a list (True / False / None are not iterable)")
        if isinstance(item, Custom) and isinstance(item.h, Label) and item.h.src[0] == "col":
            return INHN(item.h.src[1])
        raise Unsupported("membership of something that is not a column label in has_nulls")

    def isinstance(self, eng, p, tn):
        return self.w.HN == 3 if "list" in tn else z3.BoolVal(False)


class IndexColsV(Sym):
    """index_cols: a list of labels (mode 'list') or a RangeIndex (mode 'range')"""

    def __init__(self, w, copy_of=None):
        self.w, self.copy_of = w, copy_of

    def isinstance(self, eng, p, tn):
        return z3.BoolVal(("list" in tn) == (self.w.index == "list"))

    def eq(self, eng, p, other):
        if self.w.index == "list" and isinstance(other, Custom) and isinstance(other.h, LstV):
            s = other.h.st(p)
            if s["base"] is None and not s["items"]:
                return z3.Not(self.w.IDX_NONEMPTY)
        return z3.BoolVal(False) if self.w.index == "range" else fresh_bool("index_cols_eq")

    def truth(self, eng, p):
        return self.w.IDX_NONEMPTY if self.w.index == "list" else fresh_bool("rangeindex_nonempty")

    def getitem(self, eng, p, i, node):
        k = z3.simplify(eng.as_int(i, p, node))
        if self.w.index == "list" and z3.is_int_value(k) and k.as_long() == 0:
            eng.oblige(p, f"{eng.cur_func}.index_in_range@L{node.lineno}", "safety", self.w.IDX_NONEMPTY, node)
            return Custom(Label(z3.Const("first_index_label", T), ("index0",)))
        raise Unsupported("index_cols[k]")

    def attr(self, eng, p, name):
        if self.w.index == "range":
            return Opaque(("rangeindex", name))
        raise Unsupported("attribute ." + name + " of a list")

    def contains(self, eng, p, item):
        if self.w.index == "list" and isinstance(item, Custom) and isinstance(item.h, Label) and item.h.src[0] == "col":
            return ISIDX(item.h.src[1])
        raise Unsupported("membership in index_cols")


class PerCol(Sym):
    """<option dict>.get(column j, None)"""

    def __init__(self, what, j):
        self.what, self.j = what, j

    def truth(self, eng, p):
        return fresh_bool("option_entry_truthy")

    def is_none(self, eng, p):
        return fresh_bool("option_entry_is_None")


class OptDictV(Sym):
    """fixed_text / object_encoding given as a dict {column: value}"""

    def __init__(self, what, truthy=None):
        self.what, self.truthy = what, truthy

    def truth(self, eng, p):
        return self.truthy if self.truthy is not None else fresh_bool(self.what + "_nonempty")

    def isinstance(self, eng, p, tn):
        return z3.BoolVal("dict" in tn)

    def call_method(self, eng, p, name, args, kw, node):
        if name == "get" and args and isinstance(args[0], Custom) and isinstance(args[0].h, Label) and args[0].h.src[0] == "col":
            return [(p, Custom(PerCol(self.what, args[0].h.src[1])))]
        raise Unsupported(self.what + "." + name)


class OptStrV(Sym):
    """object_encoding given as ONE text for all columns"""

    def __init__(self, what):
        self.what = what

    def truth(self, eng, p):
        return z3.BoolVal(True)

    def isinstance(self, eng, p, tn):
        return z3.BoolVal("str" in tn)


class PartColsV(Sym):
    def __init__(self, w):
        self.w = w

    def for_loop(self, eng, p, st):
        return partition_loop(eng, p, st, self.w)

    def isinstance(self, eng, p, tn):
        return z3.BoolVal("list" in tn)


class ZipLevels(Sym):
    """zip(data.columns.levels, data.columns.names)"""

    def arbitrary(self, eng, p):
        l = fresh_int("level")
        return Tup([Custom(SerV(("level", l))), Custom(Label(z3.Const(f"level_name!{next(_cnt)}", T), ("level", l)))])


class CMeta(Sym):
    """get_column_metadata(series, name, object_dtype) - by its contract"""

    def __init__(self, ser, name, odt, lineno):
        self.ser, self.name, self.odt, self.lineno = ser, name, odt, lineno


class JsonV(Sym):
    def __init__(self, what, snap, kw, encoded=False):
        self.what, self.snap, self.kw, self.encoded = what, snap, kw, encoded

    def call_method(self, eng, p, name, args, kw, node):
        if name == "encode" and not self.encoded:
            return [(p, Custom(JsonV(self.what, self.snap, self.kw, True)))]
        raise Unsupported("json text." + name)


class MEng(Engine):
    """Engine + list / dict literals as mutable proof-script objects + thrift constructors as records"""

    def e_List(self, e, p):
        return [(q, Custom(LstV().init(q, vs))) for q, vs in self.ev_list(e.elts, p)]

    def e_Dict(self, e, p):
        if all(isinstance(k, ast.Constant) and isinstance(k.value, str) for k in e.keys):
            return [(q, Custom(DictV().init(q, dict(zip([k.value for k in e.keys], vs))))) for q, vs in self.ev_list(e.values, p)]
        raise Unsupported("dict literal with computed keys")

    def identical(self, a, b, p):
        for x, y in ((a, b), (b, a)):
            if isinstance(x, Custom) and hasattr(x.h, "identical"):
                r = x.h.identical(self, p, y)
                if r is not None:
                    return r
        if isinstance(a, Custom) and isinstance(b, Custom):
            return z3.BoolVal(a.h is b.h)
        for x, y in ((a, b), (b, a)):
            if isinstance(x, Custom) and isinstance(y, (PyB, PyI, Str, Tup)):
                return z3.BoolVal(False)
        return super().identical(a, b, p)

    def e_Call(self, e, p):
        fn = e.func
        if isinstance(fn, ast.Attribute) and isinstance(fn.value, ast.Name) and isinstance(p.env.get(fn.value.id), Opt) \
                and isinstance(p.env[fn.value.id].val, Custom):
            o = p.env[fn.value.id]
            self.oblige(p, f"{self.cur_func}.no_attr_of_None@L{e.lineno}", "safety", z3.Not(o.isnone), e)
            out = []
            for q, (args, kw) in self.ev_args(e, p):
                out += o.val.h.call_method(self, q, fn.attr, args, kw, e)
            return out
        if isinstance(fn, ast.Attribute) and isinstance(fn.value, ast.Name) and fn.value.id == "parquet_thrift" \
                and fn.attr[:1].isupper() and "parquet_thrift" not in p.env:
            out = []
            for q, (args, kw) in self.ev_args(e, p):
                if args:
                    raise Unsupported("positional thrift constructor arguments")
                out.append((q, Custom(RecV(fn.attr, e.lineno).init(q, kw))))
            return out
        if isinstance(fn, ast.Attribute) and isinstance(fn.value, ast.Name) and fn.value.id == "ThriftObject" and fn.attr == "from_fields":
            out = []
            for q, (args, kw) in self.ev_args(e, p):
                if len(args) != 1 or not isinstance(args[0], Str):
                    raise Unsupported("ThriftObject.from_fields shape")
                out.append((q, Custom(RecV(args[0].s, e.lineno).init(q, kw))))
            return out
        return super().e_Call(e, p)

    def e_UnaryOp(self, e, p):
        if isinstance(e.op, ast.USub):
            out = []
            for q, v in self.ev(e.operand, p):
                if isinstance(v, (Opaque, Opt)):
                    out.append((q, Opaque(("neg", next(_cnt)))))
                else:
                    out += super().e_UnaryOp(e, q) if False else [(q, PyI(z3.simplify(-self.as_int(v, q, e))))]
            return out
        return super().e_UnaryOp(e, p)

    def load_sub(self, o, i, p, node):
        if isinstance(o, Opaque) and isinstance(i, (PyI, PyB)):
            # opaque[int]: memoised opaque item (the engine's own key construction cannot take a z3 term)
            key = ("item", o.tag, str(z3.simplify(i.z)))
            if key not in p.opq:
                p.opq[key] = Opaque((o.tag, "[]", key[2]))
            return p.opq[key]
        return super().load_sub(o, i, p, node)

    def binop(self, op, a, b, p, node):
        if isinstance(a, Custom) and hasattr(a.h, "binop"):
            return a.h.binop(self, p, op, b, node)
        return super().binop(op, a, b, p, node)


def load_specs():
    from .c10_tables import parse_tables
    text = open(os.path.join(REPO, "fastparquet", "cencoding.pyx")).read()
    RecV.SPECS = parse_tables(text)[0]
    return RecV.SPECS


def enum_code(v, cls, table):
    """parquet_thrift.<cls>.<NAME> (opaque attribute chain) -> number"""
    if isinstance(v, Opaque) and isinstance(v.tag, tuple) and len(v.tag) == 2 and v.tag[0] == ("global:parquet_thrift", cls) and v.tag[1] in table:
        return table[v.tag[1]]
    return None


def rep_int(eng, p, v):
    """repetition_type value -> z3 Int (None: not a number the model knows)"""
    c = enum_code(v, "FieldRepetitionType", REP)
    if c is not None:
        return z3.IntVal(c)
    if isinstance(v, (PyI, PyB)):
        return eng.as_int(v)
    return None


def discharge(res, eng, timeout, prefix="", model_fn=None, rename=None, skip_kinds=()):
    from vc import backends
    for ob in eng.oblig:
        if ob.kind in skip_kinds:
            continue
        st, be, secs, m = backends.discharge(ob, timeout)
        nm = ob.name
        if rename:
            nm = rename(nm)
        mdl = None
        if m is not None:
            mdl = model_fn(m) if model_fn else {"z3_model": str(m)[:400]}
        res.add(prefix + nm, st, mdl, secs, be, ob.note or ob.kind)
    eng.oblig = []



# =================================================================================================================================
#  writer.make_metadata
# =================================================================================================================================
class NormName(Sym):
    """norm_col_name(<name of the series handed to find_type>, is_index) - by the find_type / norm_col_name contracts"""

    def __init__(self, src, isidx):
        self.src, self.isidx = src, isidx


def mm_handlers(w):
    def calls(p):
        return p.ghost.setdefault("calls", [])

    def h_find_type(eng, p, args, kw, node):
        if not args or not (isinstance(args[0], Custom) and isinstance(args[0].h, SerV)):
            raise Unsupported("find_type called with something that is not a column of the frame")
        bad = raise_path(p.fork(), "ValueError", node)
        bad.ghost["find_type_refused"] = True
        src = args[0].h.src
        se = RecV("SchemaElement", node.lineno).init(p, {
            "name": Custom(NormName(src, kw.get("is_index", NONE))),
            "repetition_type": Opaque((("global:parquet_thrift", "FieldRepetitionType"), "REQUIRED")),
            "type": Opaque(("find_type.type", str(src))), "converted_type": Opaque(("find_type.converted_type", str(src))),
            "type_length": Opaque(("find_type.type_length", str(src))), "logicalType": Opaque(("find_type.logicalType", str(src)))})
        p.ghost["calls"] = calls(p) + [{"fn": "find_type", "src": src, "kw": dict(kw), "se": se, "nargs": len(args)}]
        return [(p, Tup([Custom(se), Opaque(("find_type.typecode", str(src)))])), (bad, Opaque("raised"))]

    def h_gcm(eng, p, args, kw, node):
        if len(args) < 2 or not (isinstance(args[0], Custom) and isinstance(args[0].h, SerV)):
            raise Unsupported("get_column_metadata called with something that is not a column of the frame")
        bad = raise_path(p.fork(), "TypeError", node)
        cm = CMeta(args[0].h, args[1], args[2] if len(args) > 2 else kw.get("object_dtype", NONE), node.lineno)
        p.ghost["calls"] = calls(p) + [{"fn": "get_column_metadata", "cm": cm}]
        return [(p, Custom(cm)), (bad, Opaque("raised"))]

    def h_copy(eng, p, args, kw, node):
        if len(args) == 1 and isinstance(args[0], Custom) and isinstance(args[0].h, IndexColsV):
            return [(p, Custom(IndexColsV(w, copy_of=args[0].h)))]
        raise Unsupported("copy() of something else than index_cols")

    def h_zip(eng, p, args, kw, node):
        tags = [a.tag for a in args if isinstance(a, Opaque)]
        if tags == [("columns", "levels"), ("columns", "names")]:
            return [(p, Custom(ZipLevels()))]
        raise Unsupported("zip() of something else than (data.columns.levels, data.columns.names)")

    def snap(p, v):
        if isinstance(v, Custom) and isinstance(v.h, LstV):
            s = v.h.st(p)
            return ("lst", v.h, s["base"], [snap(p, x) for x in s["items"]], list(s.get("dirty", [])))
        if isinstance(v, Custom) and isinstance(v.h, DictV):
            return ("dict", v.h, {k: snap(p, x) for k, x in v.h.st(p).items()})
        return ("val", v)

    def h_dumps(eng, p, args, kw, node):
        if not (args and isinstance(args[0], Custom) and isinstance(args[0].h, DictV)):
            raise Unsupported("json.dumps of something that is not the dict built here")
        return [(p, Custom(JsonV(args[0].h, snap(p, args[0]), dict(kw))))]
    return {"find_type": h_find_type, "get_column_metadata": h_gcm, "copy": h_copy, "zip": h_zip, "json.dumps": h_dumps}


def find_roles(p):
    """the objects of make_metadata by ROLE (names of locals do not matter): the pandas block (dict with 'index_columns' and 'columns'),
    its 'columns' list, the schema list (the list whose first element is a SchemaElement record) and that record (the root)"""
    pms = [OBJS[k] for k, v in p.ghost.items() if isinstance(k, tuple) and k[0] == "dict" and "index_columns" in v and "columns" in v]
    if len(pms) != 1:
        raise ProofScriptError(f"expected one pandas metadata dict (keys index_columns, columns), found {len(pms)}")
    pm = pms[0]
    cols = pm.st(p)["columns"]
    if not (isinstance(cols, Custom) and isinstance(cols.h, LstV)):
        raise ProofScriptError("pandas_metadata['columns'] is not a list")
    cand = []
    for k, v in p.ghost.items():
        if isinstance(k, tuple) and k[0] == "lst" and v["base"] is None and v["items"]:
            x = v["items"][0]
            if isinstance(x, Custom) and isinstance(x.h, RecV) and x.h.tname == "SchemaElement":
                cand.append((OBJS[k], x.h))
    if len(cand) != 1:
        raise ProofScriptError(f"expected one list starting with a SchemaElement (the schema), found {len(cand)}")
    return pm, cols.h, cand[0][0], cand[0][1]


def stored_names(stmts):
    out = set()
    for s in stmts:
        for n in ast.walk(s):
            if isinstance(n, ast.Name) and isinstance(n.ctx, (ast.Store, ast.Del)):
                out.add(n.id)
    return out


def label_text_schema(w, se_name, j):
    """the TEXT the schema element's name denotes (None: not determined by the contracts) and whether it is a text at all"""
    n = NAME(j)
    if isinstance(se_name, Custom) and isinstance(se_name.h, NormName) and se_name.h.src == ("col", j):
        ii = se_name.h.isidx
        if isinstance(ii, NoneV):
            idx = z3.BoolVal(False)
        elif isinstance(ii, PyB):
            idx = ii.z
        else:
            return None, None
        return z3.If(TUPLE(n), z3.If(idx, FIRST(n), STR(n)), n), z3.BoolVal(True)
    if isinstance(se_name, Custom) and isinstance(se_name.h, Label) and se_name.h.src == ("col", j):
        return n, z3.Not(TUPLE(n))
    return None, None


def column_loop(eng, p, st, w):
    P = f"make_metadata{w.tag}."
    fn = eng.cur_func
    if p.ghost.get("column_loops"):
        raise Unsupported("more than one loop over data.columns")
    p.ghost["column_loops"] = 1
    pm, cols, schema, root = find_roles(p)
    N = w.N
    # ---- invariant on entry ------------------------------------------------------------------------------------------------------
    s0, c0 = schema.st(p), cols.st(p)
    nc0 = root.field(p, "num_children")
    eng.oblige(p, P + "column_loop.invariant_on_entry[len(schema) == 1 + WR(j)]", "inv", z3.BoolVal(s0["base"] is None and len(s0["items"]) == 1), st,
               "before the first column the schema list is [root]")
    eng.oblige(p, P + "column_loop.invariant_on_entry[root.num_children == WR(j)]", "inv",
               eng.as_int(nc0, p) == 0 if isinstance(nc0, (PyI, PyB)) else z3.BoolVal(False), st, "root.num_children starts at 0")
    eng.oblige(p, P + "column_loop.invariant_on_entry[len(pandas columns) == WR(j)]", "inv", z3.BoolVal(c0["base"] is None and not c0["items"]), st,
               "pandas_metadata['columns'] starts empty")
    assigned = sorted(stored_names(st.body) | {n.id for n in ast.walk(st.target) if isinstance(n, ast.Name)})
    roles = {"pm": pm, "cols": cols, "schema": schema, "root": root}
    mutable = lambda q: {k: v for k, v in q.ghost.items() if isinstance(k, tuple) and k[0] in ("lst", "dict", "rec")}

    def havoc(q, j):
        for v in assigned:
            q.env[v] = Opaque(f"havoc_{v}!{next(_cnt)}")
        nc = fresh_int("root_num_children")
        schema.put(q, z3.simplify(1 + WR(j)), [])
        cols.put(q, WR(j), [])
        root.setattr(eng, q, "num_children", PyI(nc))
        q.pc += [0 <= j, j <= N, WR(j) >= 0, nc == WR(j)]
        return nc
    outs = []
    # ---- exit: all columns done ------------------------------------------------------------------------------------------------------
    e = p.fork()
    havoc(e, N)
    e.ghost["loop_exit"] = roles
    e.ghost["calls"] = []
    outs.append(e)
    # ---- ONE arbitrary column j ------------------------------------------------------------------------------------------------------
    b = p.fork()
    j = fresh_int("column_j")
    nc = havoc(b, j)
    b.pc += [j < N, WR(j + 1) == WR(j) + z3.If(IGN(j), 0, 1)]
    if w.labels == "text":
        b.pc.append(z3.Not(TUPLE(NAME(j))))
    else:
        b.pc.append(TUPLE(NAME(j)))
    b.ghost["calls"] = []
    snap = {k: (dict(v) if isinstance(v, dict) else v) for k, v in mutable(b).items()}
    n = NAME(j)
    for b1 in eng.assign(st.target, Custom(Label(n, ("col", j))), b):
        for r in eng.block(st.body, [b1]):
            if r.ctl == "break":
                raise Unsupported("break in the column loop")
            if r.ctl not in (None, "continue"):
                r.ghost["raised_in_column_loop"] = True
                outs.append(r)
                continue
            r.ctl = None

            def ob(name, goal, note=""):
                eng.oblige(r, P + name, "post", goal, st, note)
            ss, cs = schema.st(r), cols.st(r)
            base_ok = ss["base"] is not None and z3.eq(z3.simplify(ss["base"]), z3.simplify(1 + WR(j))) and cs["base"] is not None \
                and z3.eq(z3.simplify(cs["base"]), z3.simplify(WR(j)))
            s_items, c_items = ss["items"], cs["items"]
            nc1 = root.field(r, "num_children")
            nc1z = eng.as_int(nc1, r) if isinstance(nc1, (PyI, PyB)) else None
            ob("schema.ignored_columns_excluded_exactly",
               z3.And(z3.BoolVal(base_ok and nc1z is not None),
                      z3.If(IGN(j), z3.And(z3.BoolVal(not s_items and not c_items), (nc1z if nc1z is not None else nc) == nc),
                            z3.And(z3.BoolVal(len(s_items) == 1 and len(c_items) == 1), (nc1z if nc1z is not None else nc) == nc + 1))),
               "a column listed in ignore_columns adds nothing (no schema element, no pandas entry, num_children unchanged); every other column adds "
               "exactly one schema element, one pandas 'columns' entry and 1 to root.num_children")
            ob("column_loop.invariant_preserved[len(schema) == 1 + WR(j)]", z3.And(z3.BoolVal(base_ok), 1 + WR(j) + len(s_items) == 1 + WR(j + 1)))
            ob("column_loop.invariant_preserved[root.num_children == WR(j)]", z3.BoolVal(False) if nc1z is None else nc1z == WR(j + 1))
            ob("column_loop.invariant_preserved[len(pandas columns) == WR(j)]", z3.And(z3.BoolVal(base_ok), WR(j) + len(c_items) == WR(j + 1)))
            calls = r.ghost.get("calls", [])
            # which encoding entry belongs to this column
            def enc_ok(v):
                """z3 Bool: v is THIS column's object encoding"""
                if w.oenc == "dict":
                    per = isinstance(v, Custom) and isinstance(v.h, PerCol) and v.h.what == "object_encoding" and z3.eq(v.h.j, j)
                    return z3.If(w.OE_TRUTHY, z3.BoolVal(per), z3.BoolVal(isinstance(v, NoneV)))     # an empty dict has no entry: None
                if w.oenc == "str":
                    return z3.BoolVal(isinstance(v, Custom) and v.h is w.oenc_obj)
                return z3.BoolVal(isinstance(v, NoneV))
            if len(s_items) == 1:
                se = s_items[0]
                call = next((c for c in calls if c["fn"] == "find_type" and isinstance(se, Custom) and c["se"] is se.h), None)
                if call is None:
                    ob("schema.element_is_find_type_of_the_column", z3.Implies(z3.Not(IGN(j)), z3.BoolVal(False)),
                       "the element appended is not the one find_type returned in this iteration")
                else:
                    kw = call["kw"]
                    fx = kw.get("fixed_text", NONE)
                    fixed_ok = (isinstance(fx, Custom) and isinstance(fx.h, PerCol) and fx.h.what == "fixed_text" and z3.eq(fx.h.j, j)) \
                        if w.fixed == "dict" else isinstance(fx, NoneV)
                    tm = kw.get("times")
                    times_ok = isinstance(tm, Opaque) and tm.tag == "times"
                    ii = kw.get("is_index", NONE)
                    if w.labels == "tuple" and w.index == "list":
                        idx_ok = z3.If(w.IDX_NONEMPTY, z3.BoolVal(isinstance(ii, PyB)) if not isinstance(ii, PyB) else ii.z == ISIDX(j),
                                       z3.BoolVal(isinstance(ii, NoneV) or isinstance(ii, PyB)))
                    else:
                        idx_ok = z3.BoolVal(isinstance(ii, NoneV))
                    ob("schema.element_is_find_type_of_the_column",
                       z3.Implies(z3.Not(IGN(j)), z3.And(
                           z3.BoolVal(call["nargs"] == 1 and fixed_ok), enc_ok(kw.get("object_encoding", NONE)),
                           z3.If(CAT(j), z3.BoolVal(call["src"] == ("categories", j)), z3.BoolVal(call["src"] == ("col", j) and times_ok)), idx_ok)),
                       "the element is find_type(data[column] - its .cat.categories for a categorical -, fixed_text = THIS column's entry (None without "
                       "fixed_text), object_encoding = the one text given or THIS column's entry, times = the caller's (plain columns), is_index = "
                       "whether the column stores a row index (MultiIndex columns) else None)")
                    nm = se.h.field(r, "name")
                    txt, is_text = label_text_schema(w, nm, j)
                    ob("schema.element_named_after_the_column", z3.Implies(z3.Not(IGN(j)), z3.BoolVal(txt is not None)),
                       "the element's name is the column's own label: norm_col_name(label, is_index) from find_type, or the label itself")
                    ob("schema.element_name_is_text", z3.Implies(z3.Not(IGN(j)), is_text if is_text is not None else z3.BoolVal(False)),
                       "SchemaElement.name is a text (the footer serialiser takes nothing else): a tuple label is stored normalised")
                    ob("schema.element_name_is_text[not a categorical column under a tuple label]",
                       z3.Implies(z3.And(z3.Not(IGN(j)), z3.Not(z3.And(TUPLE(n), CAT(j)))), is_text if is_text is not None else z3.BoolVal(False)),
                       "companion: outside (MultiIndex columns AND categorical column) the name stored is a text")
                    rv = rep_int(eng, r, se.h.field(r, "repetition_type"))
                    for mode, k, want, note in (
                            ("True", 0, z3.IntVal(1), "has_nulls=True: every column OPTIONAL"),
                            ("False", 1, z3.IntVal(0), "has_nulls=False: every column REQUIRED (what find_type set)"),
                            ("infer", 2, z3.If(ISOBJ(j), 1, 0), "has_nulls='infer' (None here): OPTIONAL for object columns, REQUIRED otherwise"),
                            ("list", 3, z3.If(INHN(j), 1, 0), "has_nulls=[names]: OPTIONAL iff the column is named")):
                        ob(f"schema.repetition_type[has_nulls={mode}]",
                           z3.Implies(z3.And(z3.Not(IGN(j)), w.HN == k), z3.BoolVal(False) if rv is None else rv == want), note)
                    if len(c_items) == 1:
                        cm = c_items[0].h if isinstance(c_items[0], Custom) and isinstance(c_items[0].h, CMeta) else None
                        ok_cm = cm is not None and cm.ser.src == ("col", j) and isinstance(cm.name, Custom) and isinstance(cm.name.h, Label) \
                            and cm.name.h.src == ("col", j)
                        ob("pandas.column_entry_is_get_column_metadata_of_the_column",
                           z3.Implies(z3.Not(IGN(j)), z3.And(z3.BoolVal(ok_cm), enc_ok(cm.odt) if cm is not None else z3.BoolVal(False))),
                           "the 'columns' entry appended is get_column_metadata(data[column], column, object_dtype = the column's object encoding)")
                        ptxt = z3.If(TUPLE(n), STR(n), n)
                        ob("pandas.column_entry_name_is_schema_element_name",
                           z3.Implies(z3.Not(IGN(j)), z3.BoolVal(False) if (txt is None or not ok_cm) else txt == ptxt),
                           "the reader joins the pandas entry to the schema element BY NAME (md[col]): the entry's name (text of the label, "
                           "get_column_metadata) is the schema element's name (norm_col_name / the label)")
                        carve = z3.And(TUPLE(n), z3.Or(CAT(j), z3.And(ISIDX(j), w.IDX_NONEMPTY))) if (w.labels == "tuple" and w.index == "list") \
                            else z3.And(TUPLE(n), CAT(j))
                        ob("pandas.column_entry_name_is_schema_element_name[text label, or a tuple label of a plain data column]",
                           z3.Implies(z3.And(z3.Not(IGN(j)), z3.Not(carve)), z3.BoolVal(False) if (txt is None or not ok_cm) else txt == ptxt),
                           "companion: outside (MultiIndex columns AND (categorical column OR column storing the row index)) the two names agree")
            # ---- frame: nothing else changes ------------------------------------------------------------------------------------------------
            changed = []
            now = mutable(r)
            for k, v in snap.items():
                if k in (schema.key, cols.key):
                    continue
                if k == root.key:
                    a_, b_ = dict(v), dict(now.get(k, {}))
                    a_.pop("num_children", None)
                    b_.pop("num_children", None)
                    if not same(a_, b_):
                        changed.append("root." + ",".join(sorted(x for x in set(a_) | set(b_) if not same(a_.get(x), b_.get(x)))))
                    continue
                if k not in now or not same(v, now[k]):
                    changed.append(f"{k[0]} created at L{getattr(OBJS.get(k), 'lineno', '?')}" if k[0] == "rec" else str(k[0]))
            ob("frame[nothing else changes in the column loop]", z3.BoolVal(not changed),
               "the body touches the schema list, the pandas 'columns' list, root.num_children and the element it just created - no other list / "
               "dict / thrift object built by make_metadata" + (f"; changed: {changed}" if changed else ""))
    return outs


def partition_loop(eng, p, st, w):
    P = f"make_metadata{w.tag}."
    pms = [OBJS[k] for k, v in p.ghost.items() if isinstance(k, tuple) and k[0] == "dict" and "partition_columns" in v]
    if len(pms) != 1:
        raise ProofScriptError("no pandas metadata dict with 'partition_columns' before the partition loop")
    pl = pms[0].st(p)["partition_columns"]
    if not (isinstance(pl, Custom) and isinstance(pl.h, LstV)):
        raise ProofScriptError("pandas_metadata['partition_columns'] is not a list")
    pl = pl.h
    s0 = pl.st(p)
    eng.oblige(p, P + "pandas.partition_loop.invariant_on_entry[len(partition_columns) == k]", "inv", z3.BoolVal(s0["base"] is None and not s0["items"]), st)
    assigned = sorted(stored_names(st.body) | {n.id for n in ast.walk(st.target) if isinstance(n, ast.Name)})
    mutable = lambda q: {k: v for k, v in q.ghost.items() if isinstance(k, tuple) and k[0] in ("lst", "dict", "rec")}
    outs = []
    e = p.fork()
    for v in assigned:
        e.env[v] = Opaque(f"havoc_{v}!{next(_cnt)}")
    pl.put(e, w.NP, [])
    e.ghost["partition_exit"] = pl
    outs.append(e)
    b = p.fork()
    k = fresh_int("partition_k")
    for v in assigned:
        b.env[v] = Opaque(f"havoc_{v}!{next(_cnt)}")
    b.pc += [0 <= k, k < w.NP]
    pl.put(b, k, [])
    b.ghost["calls"] = []
    snap = {kk: (dict(v) if isinstance(v, dict) else v) for kk, v in mutable(b).items()}
    for b1 in eng.assign(st.target, Custom(Label(PNAME(k), ("pcol", k))), b):
        for r in eng.block(st.body, [b1]):
            if r.ctl == "break":
                raise Unsupported("break in the partition loop")
            if r.ctl not in (None, "continue"):
                outs.append(r)
                continue
            r.ctl = None
            items = pl.st(r)["items"]
            cm = items[0].h if len(items) == 1 and isinstance(items[0], Custom) and isinstance(items[0].h, CMeta) else None
            ok = cm is not None and cm.ser.src == ("pcol", k) and isinstance(cm.name, Custom) and isinstance(cm.name.h, Label) and cm.name.h.src == ("pcol", k)
            eng.oblige(r, P + "pandas.partition_columns_one_record_per_partition_column", "post", z3.BoolVal(bool(ok)), st,
                       "for partition column k exactly one record is appended: get_column_metadata(data[column], column) - the ORIGINAL column under its own name")
            eng.oblige(r, P + "pandas.partition_loop.invariant_preserved[len(partition_columns) == k]", "inv", k + len(items) == k + 1, st)
            now = mutable(r)
            changed = [str(kk[0]) for kk, v in snap.items() if kk != pl.key and (kk not in now or not same(v, now[kk]))]
            eng.oblige(r, P + "frame[nothing else changes in the partition loop]", "post", z3.BoolVal(not changed), st, f"changed: {changed}" if changed else "")
    return outs


SCENARIOS = (
    ("text", "list", "dict", "dict", False),
    ("text", "range", "str", "None", False),
    ("tuple", "list", "None", "None", False),
    ("tuple", "range", "str", "dict", False),
    ("text", "list", "None", "None", True),
)


def run_make_metadata(ctx, funcs, timeout, scen):
    labels, index, oenc, fixed, defaults = scen
    w = W(labels, index, oenc, fixed, defaults)
    res = Results()
    P = f"make_metadata{w.tag}."
    OBJS.clear()
    w.cols = ColsV(w)
    w.index_obj = IndexColsV(w)
    w.oenc_obj = OptStrV("object_encoding") if oenc == "str" else OptDictV("object_encoding", w.OE_TRUTHY) if oenc == "dict" else None
    eng = MEng(funcs=funcs, handlers=mm_handlers(w), opaque_calls=True)
    p = Path()
    p.pc += w.pre()
    if labels == "tuple":
        p.pc.append(TUPLE(z3.Const("first_index_label", T)))          # under MultiIndex columns every label is a tuple
    if solve(list(p.pc), timeout)[0] == REFUTED:
        ctx.vacuity["requires_sat"] += 1
    kw = {"has_nulls": Custom(HasNullsV(w)), "times": Opaque("times"), "cols_dtype": Opaque("cols_dtype"),
          "fixed_text": Custom(OptDictV("fixed_text")) if fixed == "dict" else NONE,
          "object_encoding": Custom(w.oenc_obj) if w.oenc_obj is not None else NONE}
    if not defaults:
        kw.update(ignore_columns=Custom(NameSetV()), index_cols=Custom(w.index_obj), partition_cols=Custom(PartColsV(w)))
    else:
        p.pc += [z3.ForAll([z3.Int("qj")], z3.Not(IGN(z3.Int("qj")))), w.NP == 0]
    outs = eng.run("make_metadata", p, [Custom(FrameV(w))], kw)
    n_ret = n_raise = 0
    j0 = z3.Int("witness_column")
    for q in outs:
        if q.ghost.get("find_type_refused"):
            eng.oblige(q, P + "refusal_of_find_type_propagates", "post", z3.BoolVal(q.ctl == ("raise", "ValueError")), None,
                       "a column find_type refuses (unsupported dtype, object column whose encoding cannot be inferred) makes make_metadata raise that "
                       "ValueError: no metadata is returned, and make_metadata itself touches no file")
        if q.ctl[0] == "raise":
            n_raise += 1
            continue
        if q.ctl[0] != "ret":
            continue
        n_ret += 1
        fmd = q.ctl[1]

        def ob(name, goal, note="", q=q):
            eng.oblige(q, P + name, "post", goal, None, note)
        ob("duplicate_column_names_raise", w.UNIQUE, "make_metadata returns only for a frame whose column labels are pairwise different (else ValueError): "
           "'column names and order' cannot be answered for a frame with two columns of one name")
        ex = q.ghost.get("loop_exit")
        if not (isinstance(fmd, Custom) and isinstance(fmd.h, RecV) and fmd.h.tname == "FileMetaData") or ex is None:
            ob("returns_the_file_metadata_built_after_the_column_loop", z3.BoolVal(False))
            continue
        fmd = fmd.h
        pm, cols, schema, root = ex["pm"], ex["cols"], ex["schema"], ex["root"]
        nr = fmd.field(q, "num_rows")
        ob("num_rows_is_len_data", eng.as_int(nr, q) == w.ROWS if isinstance(nr, (PyI, PyB)) else z3.BoolVal(False), "FileMetaData.num_rows == len(data)")
        sc = fmd.field(q, "schema")
        ss = schema.st(q)
        ncv = root.field(q, "num_children")
        ob("schema.root_first_and_num_children_is_number_of_elements",
           z3.And(z3.BoolVal(isinstance(sc, Custom) and sc.h is schema and not ss["items"] and ss["base"] is not None and isinstance(ncv, (PyI, PyB))),
                  (ss["base"] if ss["base"] is not None else z3.IntVal(0)) - 1 == (eng.as_int(ncv, q) if isinstance(ncv, (PyI, PyB)) else -1),
                  (ss["base"] if ss["base"] is not None else z3.IntVal(0)) == 1 + WR(w.N)),
           "fmd.schema IS the list built: [root] ++ one element per written column in frame order (nothing appended after the loop), and "
           "root.num_children == len(schema) - 1 == number of written columns")
        # ---- the pandas block ----------------------------------------------------------------------------------------------------------
        kvm = fmd.field(q, "key_value_metadata")
        meta = None
        if isinstance(kvm, Custom) and isinstance(kvm.h, LstV):
            its = kvm.h.st(q)["items"]
            if kvm.h.st(q)["base"] is None and len(its) == 1 and isinstance(its[0], Custom) and isinstance(its[0].h, RecV):
                meta = its[0].h
        val = meta.field(q, "value") if meta is not None else None
        key = meta.field(q, "key") if meta is not None else None
        js = val.h if isinstance(val, Custom) and isinstance(val.h, JsonV) else None
        ok = js is not None and js.encoded and js.what is pm and isinstance(key, Opaque) and key.tag == ("bytes", b"pandas")
        blk = js.snap[2] if ok else {}
        final_cols = ok and "columns" in blk and blk["columns"][0] == "lst" and blk["columns"][1] is cols and not blk["columns"][3] \
            and blk["columns"][2] is not None and z3.eq(z3.simplify(blk["columns"][2]), z3.simplify(WR(w.N)))
        ob("pandas.value_is_json_of_the_block_under_key_pandas", z3.BoolVal(bool(ok and final_cols)),
           "key_value_metadata == [KeyValue(key=b'pandas', value=json.dumps(<the block>).encode())], serialised AFTER the column loop: its 'columns' "
           "list holds one entry per written column in frame order (never sorted / reversed / edited afterwards; nor is the schema list)")
        if not ok:
            continue
        dirty = list(blk["columns"][4]) + list(schema.st(q).get("dirty", [])) if final_cols else ["?"]
        ob("pandas.columns_and_schema_keep_frame_order", z3.BoolVal(not dirty),
           "neither the schema list nor the pandas 'columns' list is sorted / reversed / edited after the appends: both list the written columns "
           "in FRAME order" + (f"; reordering calls: {dirty}" if dirty else ""))
        ob("pandas.keys_are_the_pandas_spec_keys", z3.BoolVal(set(blk) == {"index_columns", "column_indexes", "columns", "creator", "pandas_version",
                                                                              "partition_columns"}),
           "the block has the keys of the pandas specification (+ partition_columns, this library's extension)")
        cr = blk.get("creator")
        okc = cr is not None and cr[0] == "dict" and set(cr[2]) == {"library", "version"} and cr[2]["library"][0] == "val" \
            and isinstance(cr[2]["library"][1], Str) and cr[2]["library"][1].s == "fastparquet" and cr[2]["version"][0] == "val" \
            and isinstance(cr[2]["version"][1], Opaque) and cr[2]["version"][1].tag == "global:__version__"
        ob("pandas.creator_is_fastparquet", z3.BoolVal(bool(okc)), "creator == {'library': 'fastparquet', 'version': __version__}")
        ic = blk.get("index_columns")
        if defaults:
            oki = ic is not None and ic[0] == "lst" and ic[2] is None and not ic[3]
            ob("pandas.index_columns_is_callers_index[none]", z3.BoolVal(bool(oki)), "index_cols=None: index_columns == []")
        elif index == "list":
            given = ic is not None and ic[0] == "val" and isinstance(ic[1], Custom) and ic[1].h is w.index_obj
            if labels == "text":
                ob("pandas.index_columns_is_callers_index[list]", z3.BoolVal(bool(given)), "index_columns IS the list of index column names given")
            else:
                one = ic is not None and ic[0] == "lst" and ic[2] is None and len(ic[3]) == 1 and ic[3][0][0] == "dict"
                nm_ok = False
                if one:
                    d = ic[3][0][2]
                    nm_ok = all(k in d and d[k][0] == "val" and isinstance(d[k][1], Custom) and isinstance(d[k][1].h, Label)
                                and d[k][1].h.src == ("first", ("index0",)) for k in ("name", "field_name"))
                ob("pandas.index_columns_is_callers_index[list]", z3.If(w.IDX_NONEMPTY, z3.BoolVal(bool(one and nm_ok)), z3.BoolVal(bool(given))),
                   "MultiIndex columns: index_columns is one record named after the FIRST item of the first index label (the name norm_col_name "
                   "gives that column in the schema); an empty list stays the list given")
                n_idx = z3.Int("n_index_cols")
                q.pc += [n_idx >= 0, (n_idx > 0) == w.IDX_NONEMPTY]
                ob("pandas.index_columns_one_entry_per_index_column", z3.Implies(w.IDX_NONEMPTY, z3.And(z3.BoolVal(bool(one)), n_idx == 1)),
                   "every index column given has an entry in index_columns")
            # an index column is a written column
            q.pc += [0 <= j0, j0 < w.N]
            ob("pandas.index_columns_are_written_columns", z3.Implies(ISIDX(j0), z3.Not(IGN(j0))),
               "a column the metadata names as index column has a schema element (it is not among ignore_columns) - for EVERY column of the frame")
        else:
            one = ic is not None and ic[0] == "lst" and ic[2] is None and len(ic[3]) == 1 and ic[3][0][0] == "dict"
            okr = False
            if one:
                d = ic[3][0][2]
                okr = set(d) == {"name", "start", "stop", "step", "kind"} and d["kind"][0] == "val" and isinstance(d["kind"][1], Str) and d["kind"][1].s == "range" \
                    and all(d[k][0] == "val" and isinstance(d[k][1], Opaque) and d[k][1].tag == ("rangeindex", k) for k in ("name", "start", "stop", "step"))
            ob("pandas.index_columns_is_callers_index[RangeIndex]", z3.BoolVal(bool(okr)),
               "a RangeIndex is stored as ONE record {'kind': 'range', 'name', 'start', 'stop', 'step'} with the values of the index given")
        pc_ = blk.get("partition_columns")
        if defaults:
            okp = pc_ is not None and pc_[0] == "lst" and pc_[2] is None and not pc_[3]
        else:
            okp = pc_ is not None and pc_[0] == "lst" and pc_[1] is q.ghost.get("partition_exit") and not pc_[3] and not pc_[4] and pc_[2] is not None \
                and z3.eq(z3.simplify(pc_[2]), w.NP)
        ob("pandas.partition_columns_has_one_record_per_partition_column_at_return", z3.BoolVal(bool(okp)),
           "partition_columns is the list filled by the loop over partition_cols (one record each, in order), nothing added later")
        ci = blk.get("column_indexes")
        if labels == "tuple":
            okci = ci is not None and ci[0] == "val" and isinstance(ci[1], Custom) and isinstance(ci[1].h, AbstractComp) \
                and isinstance(ci[1].h.coll, Custom) and isinstance(ci[1].h.coll.h, ZipLevels) and z3.is_true(z3.simplify(ci[1].h.guard)) \
                and isinstance(ci[1].h.elt, Custom) and isinstance(ci[1].h.elt.h, CMeta) and ci[1].h.elt.h.ser.src[0] == "level" \
                and isinstance(ci[1].h.elt.h.name, Custom) and isinstance(ci[1].h.elt.h.name.h, Label) \
                and ci[1].h.elt.h.name.h.src == ci[1].h.elt.h.ser.src
            ob("pandas.column_indexes[MultiIndex columns]", z3.BoolVal(bool(okci)),
               "one get_column_metadata(level, level name) record per level of the column MultiIndex, in level order")
        else:
            okci = ci is not None and ci[0] == "lst" and ci[2] is None and len(ci[3]) == 1 and ci[3][0][0] == "dict"
            if okci:
                d = ci[3][0][2]
                okci = set(d) == {"name", "field_name", "pandas_type", "numpy_type", "metadata"} \
                    and all(d[k][0] == "val" and isinstance(d[k][1], Opaque) and d[k][1].tag == ("columns", "name") for k in ("name", "field_name")) \
                    and d["metadata"][0] == "val" and isinstance(d["metadata"][1], NoneV)
            ob("pandas.column_indexes[plain columns]", z3.BoolVal(bool(okci)),
               "one record {name, field_name = data.columns.name, pandas_type, numpy_type, metadata None}")
    discharge(res, eng, timeout, model_fn=lambda m: mm_model(m, w))
    if n_ret == 0:
        res.add(P + "returns_on_some_path", UNKNOWN, None, 0.0, "engine", "no returning path (vacuity guard)")
    ctx.vacuity["covers"] += n_ret
    res.stats = {"paths": len(outs), "ret": n_ret, "raise": n_raise}
    return res


def mm_model(m, w):
    from vc import backends
    out = {}
    for d in m.decls():
        nm = d.name()
        if d.arity() == 0 and any(nm.startswith(x) for x in ("column_j", "has_nulls_mode", "n_columns", "witness_column", "index_cols_nonempty",
                                                            "n_index_cols", "columns_is_unique")):
            out[nm.split("!")[0]] = str(m[d])
    js = [m[d] for d in m.decls() if d.name().startswith("column_j") or d.name() == "witness_column"]
    for jv in js[:1]:
        for f in (IGN, INHN, ISIDX, CAT, ISOBJ):
            out[f"{f.name()}(j)"] = str(m.eval(f(jv), model_completion=True))
        out["label_is_tuple(label_of_column(j))"] = str(m.eval(TUPLE(NAME(jv)), model_completion=True))
    return out



# =================================================================================================================================
#  small writer functions: util.norm_col_name, writer.find_type (construction of the element), util.check_column_names
# =================================================================================================================================
def run_norm_col_name(ctx, funcs, timeout):
    res = Results()
    eng = MEng(funcs=funcs, handlers={"str": lambda e, p, a, k, n: [(p, Custom(Label(STR(a[0].h.term), ("str", a[0].h.src))))]
                                      if a and isinstance(a[0], Custom) and isinstance(a[0].h, Label) else [(p, Opaque(("str", next(_cnt))))]},
               opaque_calls=True)
    n = z3.Const("the_label", T)
    II = z3.Bool("is_index_truthy")

    class IsIdx(Sym):
        def truth(self, eng, p):
            return II
    outs = eng.run("norm_col_name", Path(), [Custom(Label(n, ("arg",))), Custom(IsIdx())])
    k = 0
    for q in outs:
        if q.ctl[0] != "ret":
            eng.oblige(q, "norm_col_name.does_not_raise", "post", z3.BoolVal(False), None)
            continue
        v = q.ctl[1]
        t = v.h.term if isinstance(v, Custom) and isinstance(v.h, Label) else None
        k += 1
        eng.oblige(q, "norm_col_name.text_label_is_returned_unchanged", "post", z3.Implies(z3.Not(TUPLE(n)), z3.BoolVal(False) if t is None else t == n), None,
                   "a label that is not a tuple is returned as it is")
        eng.oblige(q, "norm_col_name.tuple_label_becomes_its_text_or_its_first_item_for_an_index_column", "post",
                   z3.Implies(TUPLE(n), z3.BoolVal(False) if t is None else t == z3.If(II, FIRST(n), STR(n))), None,
                   "a tuple label (MultiIndex columns) becomes str(label); for a column storing a row index, label[0]")
    discharge(res, eng, timeout)
    ctx.vacuity["covers"] += k
    return res


def run_find_type_tail(ctx, funcs, timeout):
    """every returning path of find_type builds the element with name = norm_col_name(data.name, is_index), repetition REQUIRED, the
    type fields chosen on that path, and returns it (with its type)"""
    res = Results()
    made = []

    def h_norm(eng, p, args, kw, node):
        return [(p, Custom(NormName(("find_type", args[0]), args[1] if len(args) > 1 else NONE)))]

    def h_infer(eng, p, args, kw, node):
        bad = raise_path(p.fork(), "ValueError", node)
        bad.ghost["infer_refused"] = True
        p.ghost["infer_calls"] = p.ghost.get("infer_calls", []) + [list(args)]
        return [(p, Opaque(("inferred", next(_cnt)))), (bad, Opaque("raised"))]
    eng = MEng(funcs=funcs, handlers={"norm_col_name": h_norm, "infer_object_encoding": h_infer}, opaque_calls=True)
    data = Opaque("data")
    ii = Opaque("is_index")
    outs = eng.run("find_type", Path(), [data], {"fixed_text": Opaque("fixed_text"), "object_encoding": Opaque("object_encoding"),
                                                   "times": Opaque("times"), "is_index": ii})
    n = 0
    n_inf = n_ref = 0
    for q in outs:
        if q.ghost.get("infer_refused"):
            n_ref += 1
            eng.oblige(q, "find_type.refusal_of_infer_object_encoding_propagates", "post", z3.BoolVal(q.ctl == ("raise", "ValueError")), None,
                       "a ValueError of infer_object_encoding (element type not in its table, mixed types) leaves find_type as that ValueError: "
                       "nothing catches it, no element is built for the column")
        if q.ctl[0] != "ret":
            continue
        b_o, b_inf = q.opq.get(("streq", ("data", "dtype"), "O")), q.opq.get(("streq", "object_encoding", "infer"))
        calls_ = q.ghost.get("infer_calls", [])
        okc = len(calls_) == 1 and len(calls_[0]) == 1 and calls_[0][0] is data
        n_inf += 1 if okc else 0
        if b_o is not None and b_inf is not None:
            eng.oblige(q, "find_type.object_encoding_is_inferred_from_the_column_itself", "post", z3.Implies(z3.And(b_o, b_inf), z3.BoolVal(bool(okc))), None,
                       "an object column under object_encoding='infer': the encoding is infer_object_encoding(data) of THIS column, asked before the element is built")
        n += 1
        v = q.ctl[1]
        se = v.items[0].h if isinstance(v, Tup) and len(v.items) == 2 and isinstance(v.items[0], Custom) and isinstance(v.items[0].h, RecV) else None
        ok = se is not None and se.tname == "SchemaElement"
        eng.oblige(q, "find_type.returns_the_element_and_its_type", "post", z3.BoolVal(bool(ok and same(v.items[1], se.field(q, "type")))), None,
                   "find_type returns (SchemaElement, element.type)")
        if not ok:
            continue
        nm = se.field(q, "name")
        okn = isinstance(nm, Custom) and isinstance(nm.h, NormName) and nm.h.src[0] == "find_type" and isinstance(nm.h.src[1], Opaque) \
            and nm.h.src[1].tag == ("data", "name") and nm.h.isidx is ii
        eng.oblige(q, "find_type.element_named_norm_col_name_of_the_series_name", "post", z3.BoolVal(bool(okn)), None,
                   "element.name == norm_col_name(data.name, is_index) - the callee contract make_metadata relies on")
        eng.oblige(q, "find_type.element_is_required", "post",
                   z3.BoolVal(enum_code(se.field(q, "repetition_type"), "FieldRepetitionType", REP) == 0), None,
                   "element.repetition_type == REQUIRED (make_metadata relaxes it per has_nulls)")
    discharge(res, eng, timeout)
    if n == 0:
        res.add("find_type.returns_on_some_path", UNKNOWN, None, 0.0, "engine", "no returning path")
    if n_inf == 0 or n_ref == 0:
        res.add("find_type.object_encoding_is_inferred_from_the_column_itself", REFUTED if n else UNKNOWN, {"paths_calling_infer_object_encoding": n_inf,
                                                                                                        "refusal_paths": n_ref}, 0.0, "trace",
                "no path of find_type asks infer_object_encoding(data) (vacuity guard of the call-site obligations)")
    ctx.vacuity["covers"] += n
    return res


def run_check_column_names(ctx, funcs, timeout):
    """check_column_names(columns, *args): raises ValueError iff a list / tuple argument names something that is not in `columns`"""
    res = Results()
    MISSING = z3.Function("argument_names_something_not_in_columns", I, B)
    ISSEQ = z3.Function("argument_is_list_or_tuple", I, B)

    class ArgV(Sym):
        def __init__(self, k):
            self.k = k

        def isinstance(self, eng, p, tn):
            return ISSEQ(self.k) if ("list" in tn or "tuple" in tn) else z3.BoolVal(False)

    class SetV(Sym):
        def __init__(self, of):
            self.of = of

        def binop(self, eng, p, op, b, node, swapped=False):
            if isinstance(op, ast.Sub) and not swapped and isinstance(b, Custom) and isinstance(b.h, SetV) and b.h.of == "columns" \
                    and isinstance(self.of, ArgV):
                return Custom(DiffV(self.of))
            raise Unsupported("set operation")

    class DiffV(Sym):
        def __init__(self, arg):
            self.arg = arg

        def truth(self, eng, p):
            return MISSING(self.arg.k)

    class ArgsV(Sym):
        def for_loop(self, eng, p, st):
            outs = [p.fork()]
            b = p.fork()
            k = fresh_int("arg_k")
            b.ghost["arg_k"] = k
            for b1 in eng.assign(st.target, Custom(ArgV(k)), b):
                for r in eng.block(st.body, [b1]):
                    if r.ctl in (None, "continue"):
                        r.ctl = None
                        eng.oblige(r, "check_column_names.passes_only_if_every_listed_name_is_a_column", "post",
                                   z3.Implies(ISSEQ(k), z3.Not(MISSING(k))), st,
                                   "an argument that is a list / tuple of names and names something that is not a column never gets past the check")
                    elif r.ctl[0] == "raise":
                        eng.oblige(r, "check_column_names.raises_only_for_a_missing_name", "post", z3.And(ISSEQ(k), MISSING(k), z3.BoolVal(r.ctl[1] == "ValueError")), st,
                                   "ValueError only when a list / tuple argument names something that is not in `columns`")
                        outs.append(r)
            return outs

    MEngB = MEng

    def h_set(eng, p, args, kw, node):
        a = args[0]
        if isinstance(a, Custom) and isinstance(a.h, ArgV):
            return [(p, Custom(SetV(a.h)))]
        if isinstance(a, Opaque) and a.tag == "columns":
            return [(p, Custom(SetV("columns")))]
        raise Unsupported("set() of something else")
    eng = MEngB(funcs=funcs, handlers={"set": h_set}, opaque_calls=True)
    outs = eng.run("check_column_names", Path(), [Opaque("columns")], {}, closure={"args": Custom(ArgsV())})
    discharge(res, eng, timeout)
    ctx.vacuity["covers"] += len(outs)
    return res


# =================================================================================================================================
#  READER (symbolic): ParquetFile.columns / _get_index / _set_attrs / pandas_metadata / has_pandas_metadata / _dtypes
# =================================================================================================================================
KEY = z3.Function("label_of_dtypes_entry", I, T)              # k-th entry of the computed dtype dict = k-th kept top-level field
CHUNK0 = z3.Function("first_leaf_chunk_of_entry", I, I)       # position in rg.columns of the first leaf chunk under top-level field k
INCATS = z3.Function("label_is_partition_column", T, B)
MDNAME = z3.Function("name_of_metadata_record", I, T)


class TextV(Sym):
    """an opaque text taken from the metadata"""

    def __init__(self, tag):
        self.tag = tag

    def truth(self, eng, p):
        return self._b(p, "truthy")

    def _b(self, p, what):
        key = ("textv", str(self.tag), what)
        if key not in p.opq:
            p.opq[key] = fresh_bool(what)
        return p.opq[key]

    def contains(self, eng, p, item):
        return self._b(p, "contains_" + str(getattr(item, "s", "?")))

    def eq(self, eng, p, other):
        return self._b(p, "eq_" + str(getattr(other, "s", "?")))

    def is_none(self, eng, p):
        return self._b(p, "is_None")


class RecOf(Sym):
    """the metadata record stored under a label in an abstract dict (md[col] / md.get(col, {}) / tz[col] ...)"""

    def __init__(self, dname, label, default=None):
        self.dname, self.label, self.default = dname, label, default

    def _t(self, k):
        return Custom(TextV((self.dname, str(self.label.term), k)))

    def getitem(self, eng, p, i, node):
        if isinstance(i, Str):
            return self._t(i.s)
        raise Unsupported("metadata record item")

    def call_method(self, eng, p, name, args, kw, node):
        if name == "get" and args and isinstance(args[0], Str):
            return [(p, self._t(args[0].s))]
        raise Unsupported("metadata record." + name)

    def truth(self, eng, p):
        return TextV((self.dname, str(self.label.term), "<record>")).truth(eng, p)

    def is_none(self, eng, p):
        return z3.BoolVal(False)


class ADict(Sym):
    """{key(member): val(member) for member in coll if guard}: an abstract dict keyed by labels; lookups are EVENTS"""

    def __init__(self, dname, key, val, guard, coll):
        self.dname, self.key, self.val, self.guard, self.coll = dname, key, val, guard, coll

    def lookup(self, eng, p, lab, node, how):
        if not (isinstance(lab, Custom) and isinstance(lab.h, Label)):
            raise Unsupported("lookup in the metadata with a key that is not a label")
        p.ghost["lookups"] = p.ghost.get("lookups", []) + [(self.dname, lab.h, how, getattr(node, "lineno", 0))]
        return Custom(RecOf(self.dname, lab.h))

    def getitem(self, eng, p, i, node):
        return self.lookup(eng, p, i, node, "[]")

    def call_method(self, eng, p, name, args, kw, node):
        if name == "get" and args:
            return [(p, self.lookup(eng, p, args[0], node, "get"))]
        if name == "items" and not args:
            return [(p, Custom(ItemsOf(self)))]
        raise Unsupported(self.dname + "." + name)

    def truth(self, eng, p):
        return fresh_bool(self.dname + "_nonempty")

    def is_none(self, eng, p):
        return z3.BoolVal(False)


class ItemsOf(Sym):
    def __init__(self, d):
        self.d = d

    def arbitrary(self, eng, p):
        p.pc.append(self.d.guard)
        return Tup([self.d.key, self.d.val])


class MDList(Sym):
    """pandas_metadata['columns']"""

    def arbitrary(self, eng, p):
        r = fresh_int("md_record")
        return Custom(MDRec(r))


class MDRec(Sym):
    def __init__(self, r):
        self.r = r

    def getitem(self, eng, p, i, node):
        if isinstance(i, Str) and i.s == "name":
            return Custom(Label(MDNAME(self.r), ("mdrec", self.r)))
        if isinstance(i, Str):
            return Custom(RecPart(self.r, i.s))
        raise Unsupported("metadata record item")

    def call_method(self, eng, p, name, args, kw, node):
        if name == "get" and args and isinstance(args[0], Str):
            return [(p, Custom(RecPart(self.r, args[0].s)))]
        raise Unsupported("metadata record." + name)


class RecPart(TextV):
    def __init__(self, r, k):
        super().__init__(("mdrec", str(r), k))
        self.r, self.k = r, k

    def getitem(self, eng, p, i, node):
        return Custom(RecPart(self.r, self.k + "." + str(getattr(i, "s", "?"))))

    def call_method(self, eng, p, name, args, kw, node):
        if name == "get" and args:
            return [(p, Custom(RecPart(self.r, self.k + "." + str(getattr(args[0], "s", "?")))))]
        raise Unsupported("metadata value." + name)


class PandasMD(Sym):
    """self.pandas_metadata when the file has a pandas block"""

    def __init__(self, R):
        self.R = R

    def truth(self, eng, p):
        return self.R.HASPM

    def getitem(self, eng, p, i, node):
        if isinstance(i, Str) and i.s == "columns":
            eng.oblige(p, f"{eng.cur_func}.pandas_block_read_only_when_present@L{node.lineno}", "safety", self.R.HASPM, node,
                       "pandas_metadata['columns'] is evaluated only when the file has a pandas block (else {} has no such key)")
            return Custom(MDList())
        raise Unsupported("pandas_metadata[...]")

    def call_method(self, eng, p, name, args, kw, node):
        if name == "get" and args and isinstance(args[0], Str) and args[0].s == "index_columns":
            return [(p, Custom(IdxList(self.R, args[1] if len(args) > 1 else NONE)))]
        raise Unsupported("pandas_metadata." + name)


class IdxList(Sym):
    def __init__(self, R, default):
        self.R, self.default = R, default

    def arbitrary(self, eng, p):
        r = fresh_int("index_entry")
        p.ghost["index_entry"] = r
        return Custom(IdxEntry(r))


ISSTR = z3.Function("index_entry_is_text", I, B)
ISRANGE = z3.Function("index_entry_kind_is_range", I, B)
ENTRYTXT = z3.Function("index_entry_text", I, T)
ENTRYNAME = z3.Function("index_entry_record_name", I, T)


class IdxEntry(Sym):
    def __init__(self, r):
        self.r = r

    def isinstance(self, eng, p, tn):
        return ISSTR(self.r) if tn == "str" else z3.BoolVal(False)

    def getitem(self, eng, p, i, node):
        if isinstance(i, Str) and i.s == "name":
            eng.oblige(p, f"{eng.cur_func}.record_subscripted_only_if_not_text@L{node.lineno}", "safety", z3.Not(ISSTR(self.r)), node)
            return Custom(Label(ENTRYNAME(self.r), ("index_record_name", self.r)))
        raise Unsupported("index entry item")

    def call_method(self, eng, p, name, args, kw, node):
        if name == "get" and args and isinstance(args[0], Str) and args[0].s == "kind":
            eng.oblige(p, f"{eng.cur_func}.record_method_only_if_not_text@L{node.lineno}", "safety", z3.Not(ISSTR(self.r)), node)
            return [(p, Custom(KindOf(self.r)))]
        raise Unsupported("index entry." + name)

    def as_label(self):
        return Custom(Label(ENTRYTXT(self.r), ("index_text", self.r)))


class KindOf(Sym):
    def __init__(self, r):
        self.r = r

    def eq(self, eng, p, other):
        if isinstance(other, Str) and other.s == "range":
            return ISRANGE(self.r)
        if isinstance(other, Str):
            return z3.Function("index_entry_kind_is_" + re.sub(r"\W", "_", other.s), I, B)(self.r)
        raise Unsupported("kind compared with something that is not a text literal")


class RWorld:
    def __init__(self):
        self.HASPM = z3.Bool("has_pandas_metadata")
        self.PN = z3.Bool("pandas_nulls")
        self.NK = z3.Int("n_dtype_entries")
        self.FLAT = z3.Bool("every_top_level_field_is_a_leaf")


class PFV(Sym):
    """self: a ParquetFile; attribute reads / writes and method calls are recorded"""

    def __init__(self, R, attrs=None, methods=None):
        self.R, self.attrs, self.methods = R, dict(attrs or {}), dict(methods or {})

    def attr(self, eng, p, name):
        st = p.ghost.get("pf_set", {})
        if name in st:
            return st[name]
        if name in self.attrs:
            v = self.attrs[name]
            return v(eng, p) if callable(v) else v
        return Opaque(("pf", name))

    def setattr(self, eng, p, name, v):
        p.ghost["pf_set"] = dict(p.ghost.get("pf_set", {}), **{name: v})
        p.ghost["pf_events"] = p.ghost.get("pf_events", []) + [("set", name, v)]

    def call_method(self, eng, p, name, args, kw, node):
        p.ghost["pf_events"] = p.ghost.get("pf_events", []) + [("call", name, list(args), dict(kw))]
        if name in self.methods:
            return self.methods[name](eng, p, args, kw, node)
        return [(p, Opaque(("pfcall", name, next(_cnt))))]

    def truth(self, eng, p):
        return z3.BoolVal(True)


def run_columns(ctx, funcs, timeout):
    res = Results()
    R = RWorld()

    class DtypesV(Sym):
        def arbitrary(self, eng, p):
            k = fresh_int("dtypes_key")
            p.ghost["member"] = k
            return Custom(Label(KEY(k), ("dtypes", k)))

    class CatsV(Sym):
        def contains(self, eng, p, item):
            if isinstance(item, Custom) and isinstance(item.h, Label):
                return INCATS(item.h.term)
            raise Unsupported("membership in cats")
    dts, cats = DtypesV(), CatsV()
    eng = MEng(funcs=funcs, handlers={}, opaque_calls=True)
    outs = eng.run("ParquetFile.columns", Path(), [Custom(PFV(R, {"dtypes": Custom(dts), "cats": Custom(cats)}))])
    for q in outs:
        v = q.ctl[1] if q.ctl[0] == "ret" else None
        h = v.h if isinstance(v, Custom) and isinstance(v.h, AbstractComp) else None
        k = q.ghost.get("member")
        ok = h is not None and isinstance(h.coll, Custom) and h.coll.h is dts and isinstance(h.elt, Custom) and isinstance(h.elt.h, Label) \
            and k is not None and h.elt.h.src == ("dtypes", k)
        eng.oblige(q, "columns.are_dtypes_keys_minus_partition_columns_in_order", "post",
                   z3.BoolVal(False) if not ok else h.guard == z3.Not(INCATS(KEY(k))), None,
                   "pf.columns == [c for c in pf.dtypes if c not in pf.cats]: every key of the dtypes answer (schema order: index columns included) "
                   "that is not a directory-partition column, each once, in that order")
    discharge(res, eng, timeout)
    ctx.vacuity["covers"] += len(outs)
    return res


def run_get_index(ctx, funcs, timeout):
    res = Results()
    R = RWorld()
    AISNONE, AISSTR = z3.Bool("index_argument_is_None"), z3.Bool("index_argument_is_text")

    class IndexArg(Sym):
        def is_none(self, eng, p):
            return AISNONE

        def isinstance(self, eng, p, tn):
            return AISSTR if tn == "str" else z3.BoolVal(False)

    class MEngI(MEng):
        # `i if isinstance(i, str) else i["name"]` with i an index entry: the text entry IS the name
        def e_IfExp(self, e, p):
            out = []
            for q, v in super().e_IfExp(e, p):
                if isinstance(v, Custom) and isinstance(v.h, IdxEntry):
                    v = v.h.as_label()
                out.append((q, v))
            return out
    arg = IndexArg()
    for variant, pmv in (("pandas metadata", Custom(PandasMD(R))), ("no pandas metadata", None)):
        eng = MEngI(funcs=funcs, handlers={}, opaque_calls=True)
        p = Path()
        pm = pmv if pmv is not None else Custom(DictV().init(p, {}))
        outs = eng.run("ParquetFile._get_index", p, [Custom(PFV(R, {"pandas_metadata": pm})), Custom(arg)])
        n_default = 0
        for q in outs:
            if q.ctl[0] != "ret":
                eng.oblige(q, f"get_index.does_not_raise[{variant}]", "post", z3.BoolVal(False), None)
                continue
            v = q.ctl[1]
            # explicit argument
            is_arg = isinstance(v, Custom) and v.h is arg
            is_wrapped = isinstance(v, Custom) and isinstance(v.h, LstV) and len(v.h.st(q)["items"]) == 1 and isinstance(v.h.st(q)["items"][0], Custom) \
                and v.h.st(q)["items"][0].h is arg
            eng.oblige(q, "get_index.explicit_index_is_honoured", "post",
                       z3.Implies(z3.Not(AISNONE), z3.If(AISSTR, z3.BoolVal(bool(is_wrapped)), z3.BoolVal(bool(is_arg)))), None,
                       "an index given by the caller is the answer: one name -> [name], a list -> that list (False / [] -> no index)")
            if variant == "no pandas metadata":
                empty = isinstance(v, (Tup,)) and not v.items or (isinstance(v, Custom) and isinstance(v.h, LstV) and not v.h.st(q)["items"] and v.h.st(q)["base"] is None)
                eng.oblige(q, "get_index.no_pandas_metadata_no_index", "post", z3.Implies(AISNONE, z3.BoolVal(bool(empty))), None,
                           "without a pandas block (foreign file): no index column - every leaf is a data column")
                continue
            h = v.h if isinstance(v, Custom) and isinstance(v.h, AbstractComp) else None
            r = q.ghost.get("index_entry")
            if h is None or r is None:
                eng.oblige(q, "get_index.default_is_the_metadata_index_columns_without_range", "post", z3.Implies(AISNONE, z3.BoolVal(False)), None)
                continue
            n_default += 1
            okc = isinstance(h.coll, Custom) and isinstance(h.coll.h, IdxList) and isinstance(h.coll.h.default, Custom) and isinstance(h.coll.h.default.h, LstV)
            e = h.elt.h.term if isinstance(h.elt, Custom) and isinstance(h.elt.h, Label) else None
            eng.oblige(q, "get_index.default_is_the_metadata_index_columns_without_range", "post",
                       z3.Implies(AISNONE, z3.And(z3.BoolVal(bool(okc and e is not None)),
                                                  h.guard == z3.Or(ISSTR(r), z3.Not(ISRANGE(r))),
                                                  z3.Implies(h.guard, (e if e is not None else ENTRYTXT(r)) == z3.If(ISSTR(r), ENTRYTXT(r), ENTRYNAME(r))))), None,
                       "index=None: one name per entry of pandas_metadata['index_columns'] (default []), in order: the text itself, the record's "
                       "'name' for a record - except records of kind 'range' (a RangeIndex is regenerated, not read)")
            # every name is a column of the file: NOTHING in the code relates the two
            eng.oblige(q, "get_index.every_name_is_a_column_of_the_file", "post",
                       z3.Implies(z3.And(AISNONE, h.guard), z3.And(z3.Exists([z3.Int("kk")], KEY(z3.Int("kk")) == (e if e is not None else ENTRYTXT(r))),
                                                                  z3.Not(INCATS(e if e is not None else ENTRYTXT(r))))), None,
                       "every index column the handle names exists among pf.columns (it has a schema element and is not a directory-partition column)")
        discharge(res, eng, timeout, model_fn=lambda m: {"z3_model": str(m)[:300]})
        ctx.vacuity["covers"] += len(outs)
    return res


def run_set_attrs(ctx, funcs, timeout):
    res = Results()
    R = RWorld()
    eng = MEng(funcs=funcs, handlers={"schema.SchemaHelper": lambda e, p, a, k, n: [(p, Custom(HelperOf(a[0] if a else NONE)))]}, opaque_calls=True)

    class HelperOf(Sym):
        def __init__(self, of):
            self.of = of
    fmd = Opaque("the_footer")
    outs = eng.run("ParquetFile._set_attrs", Path(), [Custom(PFV(R, {"fmd": fmd}))])
    for q in outs:
        if q.ctl[0] != "ret":
            continue
        ev = q.ghost.get("pf_events", [])
        sets = {e[1]: e[2] for e in ev if e[0] == "set"}
        sc, hp = sets.get("_schema"), sets.get("schema")
        ok = isinstance(sc, Opaque) and sc.tag == ("the_footer", "schema") and isinstance(hp, Custom) and isinstance(hp.h, HelperOf) and same(hp.h.of, sc)
        eng.oblige(q, "set_attrs.schema_helper_is_built_from_the_footer_schema", "post", z3.BoolVal(bool(ok)), None,
                   "self._schema is fmd.schema and self.schema == SchemaHelper(that list): columns / dtypes are answered from THIS footer")
        calls = [e[1] for e in ev if e[0] == "call"]
        order = [c for c in calls if c in ("_read_partitions", "_dtypes")]
        pos = {nm: i for i, nm in enumerate([e[1] if e[0] == "call" else "set:" + e[1] for e in ev])}
        ok2 = order == ["_read_partitions", "_dtypes"] and pos.get("set:schema", 99) < pos.get("_read_partitions", -1)
        eng.oblige(q, "set_attrs.partitions_then_dtypes_after_the_schema", "post", z3.BoolVal(bool(ok2)), None,
                   "_read_partitions() (self.cats) runs before _dtypes() (which announces the partition columns as 'category'), both after self.schema "
                   "is set; each exactly once, _dtypes() without arguments: the handle's answer is the one for the default options")
        dcall = [e for e in ev if e[0] == "call" and e[1] == "_dtypes"]
        eng.oblige(q, "set_attrs.dtypes_computed_for_default_options", "post", z3.BoolVal(len(dcall) == 1 and not dcall[0][2] and not dcall[0][3]), None,
                   "self._dtypes() is called without categories")
    discharge(res, eng, timeout)
    ctx.vacuity["covers"] += len(outs)
    return res


def run_pandas_metadata(ctx, funcs, timeout):
    """has_pandas_metadata / pandas_metadata: the block is the decoded 'pandas' entry of the footer's key-value metadata, {} without one"""
    res = Results()
    R = RWorld()
    PDM_SET, KV_NONE, HASKEY = z3.Bool("_pdm_truthy"), z3.Bool("footer_key_value_metadata_is_None"), z3.Bool("kv_has_truthy_pandas_entry")

    class Pdm(Sym):
        def truth(self, eng, p):
            return PDM_SET

        def is_none(self, eng, p):
            return z3.Bool("_pdm_is_None")

    class KVM(Sym):
        def call_method(self, eng, p, name, args, kw, node):
            if name == "get" and args and isinstance(args[0], Str) and args[0].s == "pandas":
                return [(p, Custom(PandasText()))]
            raise Unsupported("key_value_metadata." + name)

        def getitem(self, eng, p, i, node):
            if isinstance(i, Str) and i.s == "pandas":
                return Custom(PandasText())
            raise Unsupported("key_value_metadata[...]")

    class PandasText(Sym):
        def truth(self, eng, p):
            return HASKEY

    class FmdV(Sym):
        def attr(self, eng, p, name):
            if name == "key_value_metadata":
                return Opt(KV_NONE, Opaque("kv_list"))
            return Opaque(("fmd", name))
    pdm = Pdm()
    eng = MEng(funcs=funcs, handlers={"bool": lambda e, p, a, k, n: [(p, PyB(e.truth(a[0], p)))]}, opaque_calls=True)
    outs = eng.run("ParquetFile.has_pandas_metadata", Path(), [Custom(PFV(R, {"_pdm": Custom(pdm), "fmd": Custom(FmdV()), "key_value_metadata": Custom(KVM())}))])
    for q in outs:
        v = q.ctl[1] if q.ctl[0] == "ret" else None
        eng.oblige(q, "has_pandas_metadata.iff_cached_block_or_truthy_pandas_entry", "post",
                   z3.BoolVal(False) if not isinstance(v, PyB) else v.z == z3.Or(PDM_SET, z3.And(z3.Not(KV_NONE), HASKEY)), None,
                   "True iff a non-empty block is cached or the footer's key-value metadata has a non-empty 'pandas' entry")
    discharge(res, eng, timeout)
    HAS = z3.Bool("has_pandas_metadata")
    eng = MEng(funcs=funcs, handlers={"json_decoder": lambda e, p, a, k, n: [(p, Opaque("decoder"))]}, opaque_calls=True)

    class MEngP(MEng):
        def e_Call(self, e, p):
            if isinstance(e.func, ast.Call) and isinstance(e.func.func, ast.Name) and e.func.func.id == "json_decoder":
                return [(q, Custom(Decoded(args[0] if args else NONE))) for q, (args, kw) in self.ev_args(e, p)]
            return super().e_Call(e, p)

    class Decoded(Sym):
        def __init__(self, of):
            self.of = of
    eng = MEngP(funcs=funcs, handlers={}, opaque_calls=True)
    p = Path()
    outs = eng.run("ParquetFile.pandas_metadata", p, [Custom(PFV(R, {"_pdm": Opt(z3.Bool("_pdm_is_None"), Opaque("cached_block")), "has_pandas_metadata": PyB(HAS),
                                                                       "key_value_metadata": Custom(KVM())}))])
    for q in outs:
        v = q.ctl[1] if q.ctl[0] == "ret" else None
        sets = q.ghost.get("pf_set", {})
        dec = isinstance(v, Custom) and isinstance(v.h, Decoded) and isinstance(v.h.of, Custom) and isinstance(v.h.of.h, PandasText)
        emp = isinstance(v, Custom) and isinstance(v.h, DictV) and not v.h.st(q)
        cached = isinstance(v, Opaque) and v.tag == "cached_block" or (isinstance(v, Opt) and isinstance(v.val, Opaque) and v.val.tag == "cached_block")
        eng.oblige(q, "pandas_metadata.is_decoded_pandas_entry_else_empty", "post",
                   z3.If(z3.Bool("_pdm_is_None"), z3.If(HAS, z3.BoolVal(bool(dec)), z3.BoolVal(bool(emp))), z3.BoolVal(bool(cached))), None,
                   "first use: the JSON-decoded 'pandas' entry when the file has one, {} otherwise (foreign file without pandas metadata); later: the cached block")
        eng.oblige(q, "pandas_metadata.result_is_cached", "post",
                   z3.Implies(z3.Bool("_pdm_is_None"), z3.BoolVal("_pdm" in sets and same(sets["_pdm"], v))), None, "the block computed is stored in self._pdm")
    discharge(res, eng, timeout)
    ctx.vacuity["covers"] += len(outs)
    return res



# ---- ParquetFile._dtypes ----------------------------------------------------------------------------------------------------------------
KINDM = z3.Function("typemap_kind_is_M", I, B)
ISS12 = z3.Function("typemap_is_S12", I, B)
ISFLATGRP = z3.Function("field_is_flattened_group", I, B)


class DTv(Sym):
    """typemap(element k, md)  /  np.dtype('O') for a group"""

    def __init__(self, k, how):
        self.k, self.how = k, how

    def attr(self, eng, p, name):
        if name == "kind":
            return Custom(KindV(self.k))
        return Opaque(("dt", str(self.k), name))

    def eq(self, eng, p, other):
        if isinstance(other, Str) and other.s == "S12":
            return ISS12(self.k)
        return fresh_bool("dt_eq")


class KindV(Sym):
    def __init__(self, k):
        self.k = k

    def eq(self, eng, p, other):
        if isinstance(other, Str) and other.s == "M":
            return KINDM(self.k)
        return fresh_bool("kind_eq")


class SEv(Sym):
    """top-level schema element (child of the root) number k"""

    def __init__(self, k):
        self.k = k

    def attr(self, eng, p, name):
        if name == "num_children":
            return Opt(z3.Bool(f"num_children_is_None({self.k})"), PyI(z3.Int(f"num_children({self.k})")))
        return Opaque(("se", str(self.k), name))


class ChildItems(Sym):
    """self.schema.root['children'].items()"""

    def arbitrary(self, eng, p):
        k = fresh_int("child")
        p.ghost["child"] = k
        return Tup([Custom(Label(KEY(k), ("child", k))), Custom(SEv(k))])


class ODictV(Obj):
    """the dtype dict: built from a generator over the schema children (abstract) + recorded stores; copies are new objects"""
    kind = "odict"

    def __init__(self, origin, copy_of=None):
        super().__init__()
        self.origin, self.copy_of = origin, copy_of

    def root(self):
        return self if self.copy_of is None else self.copy_of.root()

    def call_method(self, eng, p, name, args, kw, node):
        if name == "copy" and not args:
            return [(p, Custom(ODictV(self.origin, copy_of=self)))]
        if name == "items" and not args:
            return [(p, Custom(ODItems(self)))]
        raise Unsupported("dtype dict." + name)

    def setitem(self, eng, p, i, v, node):
        ctx_ = p.ghost.get("dt_ctx")
        R = p.ghost["R"]
        lab = i.h if isinstance(i, Custom) and isinstance(i.h, Label) else None
        ev = {"dict": self, "label": lab, "value": v, "ctx": ctx_, "line": getattr(node, "lineno", 0)}
        p.ghost["stores"] = p.ghost.get("stores", []) + [ev]
        cached = p.ghost.get("pf_set", {}).get("_base_dtype")
        if ctx_ is not None and ctx_[0] == "main":
            k = ctx_[1]
            eng.oblige(p, "dtypes.column_independence.stores_only_the_columns_own_entry", "post",
                       z3.BoolVal(False) if lab is None else lab.term == KEY(k), node,
                       "while the answer of column c is decided, the only entry written is dtype[c]")
            eng.oblige(p, "dtypes.every_answer_is_a_dtype", "post", z3.BoolVal(not (isinstance(v, Custom) and isinstance(v.h, ScalarNotDtype))), node,
                       "what is stored as a column's answer denotes a dtype (a numpy / pandas dtype or its name), not a scalar value")
        elif ctx_ is not None and ctx_[0] in ("categories", "cats"):
            okv = isinstance(v, Str) and v.s == "category"
            okk = lab is not None and lab.src == ctx_[1]
            eng.oblige(p, f"dtypes.{'requested_categories' if ctx_[0] == 'categories' else 'partition_columns'}_are_announced_as_category", "post",
                       z3.BoolVal(bool(okv and okk)), node, "dtype[name] = 'category' for exactly the member of the loop")
            eng.oblige(p, "dtypes.cached_base_answer_not_modified_by_category_overrides", "post",
                       z3.BoolVal(not (isinstance(cached, Custom) and cached.h is self)), node,
                       "the per-call 'category' entries go into a COPY: self._base_dtype (the cached answer without categories) stays what was computed "
                       "from schema + metadata")
        else:
            eng.oblige(p, "dtypes.no_store_outside_the_three_loops", "post", z3.BoolVal(False), node)


class ODItems(Sym):
    def __init__(self, d):
        self.d = d

    def enumerate(self, eng, p):
        return Custom(EnumItems(self.d))


class EnumItems(Sym):
    def __init__(self, d):
        self.d = d

    def for_loop(self, eng, p, st):
        return dtypes_main_loop(eng, p, st, self.d)


class ScalarNotDtype(Sym):
    pass


NROWS = z3.Function("num_rows_of_row_group", I, I)
STAT_NONE = z3.Function("chunk_statistics_missing", I, I, B)          # (row group, chunk position)
NULLS_REC = z3.Function("chunk_null_count_nonzero", I, I, B)


def has_nulls_or_no_statistics(g, idx):
    """row group g is non-empty and the chunk at position idx has no statistics or records a non-zero null count"""
    return z3.And(NROWS(g) != 0, z3.Or(STAT_NONE(g, idx), NULLS_REC(g, idx)))


class RGsV(Sym):
    """self.row_groups inside the nullable branch, for ALL numbers of row groups: ONE arbitrary row group g with the loop-carried flag
    (`num_nulls`) havoc'd: F0 = "an earlier row group was non-empty and had nulls / no statistics".  Posed:
      starts_without_nulls_found     the flag is falsy before the first row group
      invariant_preserved            an iteration that goes on to the next row group leaves  flag <=> F0 or HAS(g)
      stops_early_only_when_nulls_were_found     an iteration that BREAKS leaves the flag truthy, and truthy only with F0 or HAS(g)
    By induction over the row groups: after the loop the flag is truthy IFF some non-empty row group has nulls / no statistics
    (a break with a truthy flag skips nothing that could change it)."""

    def for_loop(self, eng, p, st):
        assigned = sorted(stored_names(st.body) | {n.id for n in ast.walk(st.target) if isinstance(n, ast.Name)})
        ctx_ = p.ghost.get("dt_ctx")
        if ctx_ is None or ctx_[0] != "main":
            raise Unsupported("loop over the row groups outside the column loop of _dtypes")
        k = ctx_[1]
        # the loop-carried flag: the local the body sets to a CONSTANT (num_nulls = True), whatever value it has when the scan starts - a
        # value left over from the previous column (reset hoisted out of / removed from the column loop) must be refuted, not out of reach
        flags = sorted({t.id for s_ in st.body for n_ in ast.walk(s_) if isinstance(n_, ast.Assign) and isinstance(n_.value, ast.Constant)
                        for t in n_.targets if isinstance(t, ast.Name)})
        if len(flags) != 1:
            raise Unsupported(f"null scan: expected one loop-carried flag set to a constant, found {flags}")
        fl = flags[0]
        if fl not in p.env:
            eng.oblige(p, "dtypes.null_scan.starts_without_nulls_found", "inv", z3.BoolVal(False), st,
                       f"the flag {fl!r} is not bound when the scan of this column starts")
            p.env[fl] = Opaque(f"unbound_{fl}!{next(_cnt)}")
        outs = []
        eng.oblige(p, "dtypes.null_scan.starts_without_nulls_found", "inv", z3.Not(eng.truth(p.env[fl], p)), st,
                   "posed INSIDE the arbitrary column iteration (every local the column loop assigns is havoc'd at the top of its body): when the scan "
                   "over the row groups of column k starts the flag is falsy - nothing is carried over from column k-1")

        def havoc(q, flag):
            for v in assigned:
                if v != fl:
                    q.env[v] = Opaque(f"havoc_{v}!{next(_cnt)}")
            q.env[fl] = PyB(flag)
        # ---- all row groups done without a break
        e = p.fork()
        fend = fresh_bool("nulls_found_in_some_row_group")
        havoc(e, fend)
        e.ghost["null_scan"] = "exhausted"
        outs.append(e)
        # ---- ONE arbitrary row group
        b = p.fork()
        f0 = fresh_bool("nulls_found_in_an_earlier_row_group")
        havoc(b, f0)
        g = fresh_int("row_group")
        b.pc += [g >= 0, NROWS(g) >= 0]
        has = has_nulls_or_no_statistics(g, k)
        note = ("HAS(g) = row group g has rows and the column's chunk has no statistics or a non-zero null count; F0 = the flag when the "
                "iteration starts (arbitrary)")
        for b1 in eng.assign(st.target, Custom(RGv(g)), b):
            for r in eng.block(st.body, [b1]):
                if r.ctl == "break" or r.ctl in (None, "continue"):
                    v = r.env.get(fl)
                    t = eng.truth(v, r) if v is not None else z3.BoolVal(False)
                    if r.ctl == "break":
                        eng.oblige(r, "dtypes.null_scan.stops_early_only_when_nulls_were_found", "inv", z3.And(t, t == z3.Or(f0, has)), st,
                                   "the scan may stop before the last row group only with the flag set (later row groups cannot unset it): a break "
                                   "with a falsy flag would hide nulls of every later row group - e.g. of row groups APPENDED later. " + note)
                        r.ctl = None
                        r.ghost["null_scan"] = "break"
                        outs.append(r)
                    else:
                        eng.oblige(r, "dtypes.null_scan.invariant_preserved", "inv", t == z3.Or(f0, has), st,
                                   "after row group g (not breaking) the flag is truthy IFF it was before or g is a non-empty row group whose chunk has "
                                   "nulls / no statistics: with the entry condition, by induction: flag <=> EXISTS such a row group. " + note)
                else:
                    outs.append(r)
        return outs


class RGv(Sym):
    def __init__(self, g):
        self.g = g

    def getitem(self, eng, p, i, node):
        k = z3.simplify(eng.as_int(i, p, node))
        if z3.is_int_value(k) and k.as_long() == 3:
            return PyI(NROWS(self.g))
        if z3.is_int_value(k) and k.as_long() == 1:
            return Custom(ChunksV(self.g))
        raise Unsupported("row group field")

    def attr(self, eng, p, name):
        if name == "num_rows":
            return PyI(NROWS(self.g))
        if name == "columns":
            return Custom(ChunksV(self.g))
        raise Unsupported("row group." + name)


class ChunksV(Sym):
    def __init__(self, g):
        self.g = g

    def getitem(self, eng, p, i, node):
        ctx_ = p.ghost.get("dt_ctx")
        R = p.ghost["R"]
        idx = eng.as_int(i, p, node)
        if ctx_ is None or ctx_[0] != "main":
            raise Unsupported("chunk list indexed outside the column loop")
        k = ctx_[1]
        eng.oblige(p, "dtypes.column_independence.null_statistics_are_those_of_the_columns_own_chunk", "post", idx == CHUNK0(k), node,
                   "the null statistics consulted for the k-th entry of the answer are those of ITS OWN column chunk: the chunk at the position "
                   "of its (first) leaf in rg.columns - not the chunk of another column")
        eng.oblige(p, "dtypes.column_independence.null_statistics_are_those_of_the_columns_own_chunk[every top-level field is a leaf]", "post",
                   z3.Implies(R.FLAT, idx == CHUNK0(k)), node,
                   "companion: in a flat schema (every top-level field is one leaf, none dropped) entry k's chunk is rg.columns[k]")
        return Custom(ChunkV(self.g, idx))


class ChunkV(Sym):
    def __init__(self, g, idx):
        self.g, self.idx = g, idx

    def getitem(self, eng, p, i, node):
        return Custom(CMDv(self))

    def attr(self, eng, p, name):
        return Custom(CMDv(self))


class CMDv(Sym):
    """chunk.meta_data ([3]): .get(12) / .statistics is the Statistics struct or None"""

    def __init__(self, ch):
        self.ch = ch

    def _stats(self):
        return Opt(STAT_NONE(self.ch.g, self.ch.idx), Custom(StatsV(self.ch)))

    def call_method(self, eng, p, name, args, kw, node):
        if name == "get" and args:
            k = z3.simplify(eng.as_int(args[0], p, node)) if isinstance(args[0], (PyI, PyB)) else None
            if k is not None and z3.is_int_value(k) and k.as_long() == 12:
                return [(p, self._stats())]
            return [(p, Opt(fresh_bool("field_is_None"), Opaque(("meta_data.get", next(_cnt)))))]
        raise Unsupported("column meta data." + name)

    def attr(self, eng, p, name):
        if name == "statistics":
            return self._stats()
        return Opt(fresh_bool(name + "_is_None"), Opaque(("meta_data." + name, next(_cnt))))


class StatsV(Sym):
    def __init__(self, ch):
        self.ch = ch

    def call_method(self, eng, p, name, args, kw, node):
        if name == "get" and args:
            k = z3.simplify(eng.as_int(args[0], p, node)) if isinstance(args[0], (PyI, PyB)) else None
            if k is not None and z3.is_int_value(k) and k.as_long() == 3:
                return [(p, Custom(NullCountV(self.ch)))]
            return [(p, Opaque(("statistics.get", next(_cnt))))]
        raise Unsupported("statistics." + name)

    def attr(self, eng, p, name):
        if name == "null_count":
            return Custom(NullCountV(self.ch))
        return Opaque(("statistics." + name, next(_cnt)))


class NullCountV(Sym):
    """null_count of the chunk: None (absent) and 0 are falsy"""

    def __init__(self, ch):
        self.ch = ch

    def truth(self, eng, p):
        return NULLS_REC(self.ch.g, self.ch.idx)

    def is_none(self, eng, p):
        return fresh_bool("null_count_is_None")


def dtypes_main_loop(eng, p, st, d):
    R = p.ghost["R"]
    assigned = sorted(stored_names(st.body) | {n.id for n in ast.walk(st.target) if isinstance(n, ast.Name)})
    outs = []
    e = p.fork()
    for v in assigned:
        e.env[v] = Opaque(f"havoc_{v}!{next(_cnt)}")
    e.ghost["main_loop_done"] = True
    outs.append(e)
    b = p.fork()
    for v in assigned:
        b.env[v] = Opaque(f"havoc_{v}!{next(_cnt)}")
    k = fresh_int("entry_k")
    b.pc += [0 <= k, k < R.NK, z3.Implies(R.FLAT, CHUNK0(k) == k)]
    b.ghost["dt_ctx"] = ("main", k)
    b.ghost["lookups"] = []
    col = Custom(Label(KEY(k), ("entry", k)))
    item = Tup([PyI(k), Tup([col, Custom(DTv(k, "typemap"))])])
    for b1 in eng.assign(st.target, item, b):
        for r in eng.block(st.body, [b1]):
            if r.ctl == "break":
                raise Unsupported("break in the column loop of _dtypes")
            if r.ctl not in (None, "continue"):
                outs.append(r)
                continue
            r.ctl = None
            bad = [f"{dn}{how}@L{ln}" for dn, lab, how, ln in r.ghost.get("lookups", []) if not z3.eq(lab.term, KEY(k))]
            eng.oblige(r, "dtypes.column_independence.reads_only_the_columns_own_metadata_entry", "post", z3.BoolVal(not bad), st,
                       "while the answer of column c is decided, the pandas block is consulted only under c's own name (md[c], md.get(c), tz.get(c), tz[c])"
                       + (f"; foreign lookups: {bad}" if bad else ""))
    return outs


class LabelsLoop(Sym):
    """for field in <labels>: one arbitrary member"""

    def __init__(self, what):
        self.what = what

    def for_loop(self, eng, p, st):
        assigned = sorted(stored_names(st.body) | {n.id for n in ast.walk(st.target) if isinstance(n, ast.Name)})
        outs = []
        e = p.fork()
        for v in assigned:
            e.env[v] = Opaque(f"havoc_{v}!{next(_cnt)}")
        e.ghost["loops_done"] = e.ghost.get("loops_done", []) + [self.what]
        outs.append(e)
        b = p.fork()
        m = fresh_int(self.what + "_member")
        src = (self.what, m)
        b.ghost["dt_ctx"] = (self.what, src)
        n0 = len(b.ghost.get("stores", []))
        for b1 in eng.assign(st.target, Custom(Label(z3.Const(f"{self.what}_label!{next(_cnt)}", T), src)), b):
            for r in eng.block(st.body, [b1]):
                if r.ctl in (None, "continue"):
                    n1 = len(r.ghost.get("stores", []))
                    eng.oblige(r, f"dtypes.{'requested_categories' if self.what == 'categories' else 'partition_columns'}_are_announced_as_category[every member]",
                               "post", z3.BoolVal(n1 == n0 + 1), st, "every member of the loop gets its 'category' entry")
                else:
                    outs.append(r)
        return outs

    def truth(self, eng, p):
        return fresh_bool(self.what + "_nonempty")


def run_dtypes(ctx, funcs, timeout, mode):
    """mode 'computed': self._base_dtype is None (first call); 'override' / 'cached': self._base_dtype given (ParquetFile(dtypes=D) / later calls)"""
    res = Results()
    R = RWorld()
    CATS_NONE = z3.Bool("categories_argument_is_None")
    md_names = []

    class MEngD(MEng):
        def e_DictComp(self, e, p):
            out = []
            for q, v in super().e_DictComp(e, p):
                if isinstance(v, Custom) and isinstance(v.h, AbstractDict):
                    h = v.h
                    dn = "md" if not md_names else "tz" if len(md_names) == 1 else f"dict{len(md_names)}"
                    md_names.append(dn)
                    v = Custom(ADict(dn, h.key, h.val, h.guard, h.coll))
                out.append((q, v))
            return out

    def h_typemap(eng, p, args, kw, node):
        f = args[0]
        if not (isinstance(f, Custom) and isinstance(f.h, SEv)):
            raise Unsupported("typemap of something that is not a schema child")
        md = kw.get("md", args[1] if len(args) > 1 else NONE)
        is_md = isinstance(md, Custom) and isinstance(md.h, ADict) and md.h.dname == "md"
        eng.oblige(p, "dtypes.typemap_gets_the_element_and_the_metadata_block", "post",
                   z3.If(R.HASPM, z3.BoolVal(bool(is_md)), z3.BoolVal(isinstance(md, NoneV))), node,
                   "typemap(f, md=md): the element of THIS field and - when the file has a pandas block - the name-keyed block {c['name']: c} (typemap "
                   "looks up md.get(f.name) only: typemap.uses_only_the_elements_own_entry); None without a block")
        return [(p, Custom(DTv(f.h.k, "typemap")))]

    def h_getattr(eng, p, args, kw, node):
        if len(args) == 3 and isinstance(args[0], Custom) and isinstance(args[0].h, SEv) and isinstance(args[1], Str) and args[1].s == "isflat":
            return [(p, PyB(ISFLATGRP(args[0].h.k)))]
        return [(p, Opaque(("getattr", next(_cnt))))]

    def h_odict(eng, p, args, kw, node):
        v = args[0] if args else None
        if isinstance(v, Custom) and isinstance(v.h, AbstractComp) and isinstance(v.h.coll, Custom) and isinstance(v.h.coll.h, ChildItems):
            k = p.ghost.get("child")
            elt = v.h.elt
            ok = isinstance(elt, Tup) and len(elt.items) == 2 and isinstance(elt.items[0], Custom) and isinstance(elt.items[0].h, Label) \
                and elt.items[0].h.src == ("child", k)
            val = elt.items[1] if ok else None
            own = ok and ((isinstance(val, Custom) and isinstance(val.h, DTv) and z3.eq(val.h.k, k)) or isinstance(val, Opaque))
            eng.oblige(p, "dtypes.one_entry_per_kept_top_level_field_in_schema_order", "post", z3.BoolVal(bool(ok and own)), node,
                       "the computed answer is an OrderedDict over self.schema.root['children'] in schema order: key = the field's name, value = "
                       "typemap(that field, md) for a leaf, object for a group; flattened struct groups are dropped (their leaves are fields of their own)")
            eng.oblige(p, "dtypes.kept_fields_are_those_not_flattened", "post", v.h.guard == z3.Not(ISFLATGRP(k)) if k is not None else z3.BoolVal(False), node,
                       "a field is kept iff it is not a struct group that flatten() expanded (isflat)")
            return [(p, Custom(ODictV("computed")))]
        raise Unsupported("OrderedDict(...) of something else than the generator over the schema children")

    def h_float64(eng, p, args, kw, node):
        if not args and not kw:
            return [(p, Custom(ScalarNotDtype()))]
        return [(p, Opaque(("np.float64", next(_cnt))))]
    cats_loop, categories_loop = LabelsLoop("cats"), LabelsLoop("categories")
    base = NONE if mode == "computed" else Custom(ODictV("given"))
    pf = PFV(R, {"_base_dtype": base, "has_pandas_metadata": PyB(R.HASPM), "pandas_metadata": Custom(PandasMD(R)), "pandas_nulls": PyB(R.PN),
                 "schema": Custom(SchemaOf()), "row_groups": Custom(RGsV()), "cats": Custom(cats_loop)},
             {"check_categories": lambda eng, p, a, k, n: [(p, Custom(categories_loop))]})
    eng = MEngD(funcs=funcs, handlers={"converted_types.typemap": h_typemap, "getattr": h_getattr, "OrderedDict": h_odict, "np.float64": h_float64},
                opaque_calls=True)
    p = Path()
    p.ghost["R"] = R
    p.pc += [R.NK >= 0]
    outs = eng.run("ParquetFile._dtypes", p, [Custom(pf)], {"categories": Opt(CATS_NONE, Opaque("categories_argument"))})
    tag = f"[{mode}]"
    n_ret = 0
    for q in outs:
        if q.ctl[0] != "ret":
            continue
        n_ret += 1
        v = q.ctl[1]
        sets = q.ghost.get("pf_set", {})
        evs = q.ghost.get("pf_events", [])

        def ob(name, goal, note="", q=q):
            eng.oblige(q, name, "post", goal, None, note)
        ret = v.h if isinstance(v, Custom) and isinstance(v.h, ODictV) else None
        cached = sets.get("_base_dtype", base)
        cached = cached.h if isinstance(cached, Custom) and isinstance(cached.h, ODictV) else None
        ob("dtypes.answer_is_a_copy_of_the_base_answer_plus_categories" + tag,
           z3.BoolVal(bool(ret is not None and cached is not None and ret.copy_of is cached and ret is not cached
                           and set(q.ghost.get("loops_done", [])) == {"categories", "cats"})),
           "the dict returned is a COPY of self._base_dtype (computed now, or given / cached) on which the two loops wrote 'category' for the requested "
           "categories (check_categories(categories)) and for the partition columns (self.cats)")
        if mode != "computed":
            n_main = [s_ for s_ in q.ghost.get("stores", []) if s_["ctx"] is not None and s_["ctx"][0] == "main"]
            ob("dtypes.override_is_honoured.base_answer_taken_as_given", z3.BoolVal(bool(cached is not None and cached.origin == "given" and not n_main
                                                                                          and not q.ghost.get("main_loop_done"))),
               "ParquetFile(dtypes=D): D is the base answer as it is - nothing is recomputed from the schema, no entry of D is rewritten except "
               "'category' for requested categories / partition columns")
        else:
            ob("dtypes.base_answer_is_cached", z3.BoolVal(bool(cached is not None and cached.origin == "computed" and q.ghost.get("main_loop_done"))),
               "the answer computed from schema + metadata is stored in self._base_dtype after the column loop")
            tzv = sets.get("tz")
            okz = isinstance(tzv, Custom) and isinstance(tzv.h, ADict) and isinstance(tzv.h.key, Custom) and isinstance(tzv.h.key.h, Label) \
                and tzv.h.key.h.src[0] == "mdrec" and isinstance(tzv.h.val, Custom) and isinstance(tzv.h.val.h, RecPart) \
                and z3.eq(tzv.h.val.h.r, tzv.h.key.h.src[1]) and tzv.h.val.h.k == "metadata.timezone"
            ob("dtypes.timezone_map_is_kept_for_the_allocation", z3.If(R.HASPM, z3.BoolVal(bool(okz)), z3.BoolVal(isinstance(tzv, NoneV))),
               "self.tz = {name of a 'columns' record: ITS metadata.timezone, for the records that have one} (None without pandas metadata): what "
               "pre_allocate hands to dataframe.empty")
        dstore = [e_ for e_ in evs if e_[0] == "set" and e_[1] == "dtypes"]
        ob("dtypes.handle_attribute_is_the_answer_returned" + tag, z3.BoolVal(len(dstore) == 1 and same(dstore[0][2], v)), "self.dtypes = the dict returned")
        ob("dtypes.answer_for_explicit_categories_does_not_replace_the_handles_answer" + tag, z3.Implies(z3.Not(CATS_NONE), z3.BoolVal(not dstore)),
           "pf.dtypes is the metadata-only answer for the DEFAULT options: a call for explicit categories (what every read with categories=... makes "
           "through pre_allocate) returns its answer without overwriting it")
    discharge(res, eng, timeout, rename=lambda nm: nm.replace("ParquetFile._dtypes.", "dtypes."))
    if n_ret == 0:
        res.add("dtypes.returns_on_some_path" + tag, UNKNOWN, None, 0.0, "engine", "no returning path")
    ctx.vacuity["covers"] += n_ret
    res.stats = {"paths": len(outs), "ret": n_ret}
    return res


class SchemaOf(Sym):
    def attr(self, eng, p, name):
        if name == "root":
            return Custom(RootV())
        raise Unsupported("schema." + name)


class RootV(Sym):
    def getitem(self, eng, p, i, node):
        if isinstance(i, Str) and i.s == "children":
            return Custom(ChildrenV())
        raise Unsupported("root[...]")


class ChildrenV(Sym):
    def call_method(self, eng, p, name, args, kw, node):
        if name == "items" and not args:
            return [(p, Custom(ChildItems()))]
        raise Unsupported("children." + name)


def run_typemap_md(ctx, funcs, timeout):
    """converted_types.typemap(se, md): of the name-keyed pandas block only the entry under se.name is read"""
    res = Results()
    reads = []

    class MdArg(Sym):
        def truth(self, eng, p):
            return z3.Bool("md_truthy")

        def call_method(self, eng, p, name, args, kw, node):
            if name == "get" and args:
                k = args[0]
                own = isinstance(k, Opaque) and k.tag == ("se", "name")
                eng.oblige(p, "typemap.uses_only_the_elements_own_entry", "post", z3.BoolVal(bool(own)), node,
                           "typemap(se, md) reads md.get(se.name, {}) and nothing else of the block: the dtype announced for a column does not depend "
                           "on another column's pandas entry")
                reads.append(own)
                return [(p, Custom(TextV(("own_entry",))))]
            eng.oblige(p, "typemap.uses_only_the_elements_own_entry", "post", z3.BoolVal(False), node, "md." + name)
            return [(p, Opaque(("md." + name, next(_cnt))))]

        def getitem(self, eng, p, i, node):
            eng.oblige(p, "typemap.uses_only_the_elements_own_entry", "post", z3.BoolVal(False), node, "md[...] with another key")
            return Opaque(("md[]", next(_cnt)))

    class Entry(TextV):
        def getitem(self, eng, p, i, node):
            return Custom(TextV(("own_entry", getattr(i, "s", "?"))))

        def call_method(self, eng, p, name, args, kw, node):
            return [(p, Custom(TextV(("own_entry", name, getattr(args[0], "s", "?") if args else ""))))]

    class MdArg2(MdArg):
        def call_method(self, eng, p, name, args, kw, node):
            r = super().call_method(eng, p, name, args, kw, node)
            return [(q, Custom(Entry(("own_entry",))) if name == "get" else v) for q, v in r]
    eng = MEng(funcs=funcs, handlers={}, opaque_calls=True)
    outs = eng.run("typemap", Path(), [Opaque("se")], {"md": Custom(MdArg2())})
    discharge(res, eng, timeout)
    if not reads:
        res.add("typemap.uses_only_the_elements_own_entry", UNKNOWN, None, 0.0, "engine", "typemap never read the block (vacuity guard)")
    ctx.vacuity["covers"] += len(outs)
    return res



# ---- ParquetFile.check_categories ------------------------------------------------------------------------------------------------------
def run_check_categories(ctx, funcs, timeout):
    res = Results()
    R = RWorld()
    CN, CT, CD = z3.Bool("request_is_None"), z3.Bool("request_truthy"), z3.Bool("request_is_dict")
    GT = z3.Bool("stored_categories_nonempty")
    NEW = z3.Bool("some_requested_field_is_not_stored_as_category")
    INREQ = z3.Function("label_is_requested", T, B)
    INCATEG = z3.Function("label_is_stored_category", T, B)
    NRG = z3.Int("n_row_groups")

    class Req(Sym):
        def is_none(self, eng, p):
            return CN

        def truth(self, eng, p):
            return z3.And(z3.Not(CN), CT)

        def isinstance(self, eng, p, tn):
            return CD if "dict" in tn else z3.BoolVal(False)

        def contains(self, eng, p, item):
            return INREQ(item.h.term)

        def arbitrary(self, eng, p):
            return Custom(Label(z3.Const(f"requested!{next(_cnt)}", T), ("req",)))

    class Categ(Sym):
        def truth(self, eng, p):
            return GT

        def contains(self, eng, p, item):
            return INCATEG(item.h.term)

        def call_method(self, eng, p, name, args, kw, node):
            if name == "items" and not args:
                return [(p, Custom(CategItems()))]
            raise Unsupported("categories." + name)

    class CategItems(Sym):
        def arbitrary(self, eng, p):
            t = z3.Const(f"stored!{next(_cnt)}", T)
            p.pc.append(INCATEG(t))
            return Tup([Custom(Label(t, ("stored",))), Custom(StoredCount(t))])

    class StoredCount(Sym):
        def __init__(self, t):
            self.t = t

    class SetV(Sym):
        def __init__(self, of):
            self.of = of

        def binop(self, eng, p, op, b, node, swapped=False):
            if isinstance(op, ast.Sub) and isinstance(self.of, Req) and isinstance(b, Custom) and isinstance(b.h, SetV) and isinstance(b.h.of, Categ):
                return Custom(DiffV())
            raise Unsupported("set operation")

    class DiffV(Sym):
        def truth(self, eng, p):
            return NEW

    class OutDict(Sym):
        def __init__(self, first):
            self.first, self.updates = first, []

        def call_method(self, eng, p, name, args, kw, node):
            if name == "update" and len(args) == 1 and isinstance(args[0], Custom) and isinstance(args[0].h, AbstractDict):
                p.ghost["updates"] = p.ghost.get("updates", []) + [args[0].h]
                return [(p, NONE)]
            raise Unsupported("dict." + name)

    class MEngC(MEng):
        def e_DictComp(self, e, p):
            out = []
            for q, v in super().e_DictComp(e, p):
                if isinstance(v, Custom) and isinstance(v.h, AbstractDict) and not q.ghost.get("first_comp_done"):
                    # the first comprehension is bound to `out`, which is then updated in place
                    pass
                out.append((q, v))
            return out

        def s_Assign(self, st, p):
            outs = super().s_Assign(st, p)
            for q in outs:
                for t in st.targets:
                    if isinstance(t, ast.Name) and isinstance(q.env.get(t.id), Custom) and isinstance(q.env[t.id].h, AbstractDict):
                        q.env[t.id] = Custom(OutDict(q.env[t.id].h))
            return outs
    req, categ = Req(), Categ()
    eng = MEngC(funcs=funcs, handlers={"set": lambda e, p, a, k, n: [(p, Custom(SetV(a[0].h if isinstance(a[0], Custom) else None)))],
                                       "len": lambda e, p, a, k, n: [(p, PyI(NRG))]}, opaque_calls=True)
    p = Path()
    p.pc += [NRG >= 0]
    outs = eng.run("ParquetFile.check_categories", p, [Custom(PFV(R, {"categories": Custom(categ), "has_pandas_metadata": PyB(R.HASPM),
                                                                       "row_groups": Opaque("row_groups")})), Custom(req)])
    n = 0
    for q in outs:
        if q.ctl[0] == "raise":
            eng.oblige(q, "check_categories.refuses_only_new_category_fields_on_multi_row_group_files", "post",
                       z3.And(R.HASPM, z3.Not(CN), NEW, NRG > 1, z3.BoolVal(q.ctl[1] == "TypeError")), None,
                       "TypeError only when the file has pandas metadata, a requested field is not stored as category and there are several row groups")
            continue
        n += 1
        v = q.ctl[1]
        empty = isinstance(v, Custom) and isinstance(v.h, DictV) and not v.h.st(q)
        is_req = isinstance(v, Custom) and v.h is req
        is_categ = isinstance(v, Custom) and v.h is categ
        eng.oblige(q, "check_categories.no_pandas_metadata_request_or_nothing", "post",
                   z3.Implies(z3.Not(R.HASPM), z3.If(z3.And(z3.Not(CN), CT), z3.BoolVal(bool(is_req)), z3.BoolVal(bool(empty)))), None,
                   "without pandas metadata: the request as given, {} for None / an empty request (nothing is categorical by default)")
        eng.oblige(q, "check_categories.default_is_the_stored_categories", "post",
                   z3.Implies(z3.And(R.HASPM, CN), z3.If(GT, z3.BoolVal(bool(is_categ)), z3.BoolVal(bool(empty)))), None,
                   "categories=None on a file with pandas metadata: the categories the metadata stores (self.categories)")
        eng.oblige(q, "check_categories.passes_new_fields_only_on_single_row_group_files", "post",
                   z3.Implies(z3.And(R.HASPM, z3.Not(CN)), z3.Not(z3.And(NEW, NRG > 1))), None,
                   "a request naming a field that is not stored as category gets past the check only on a file with at most one row group")
        eng.oblige(q, "check_categories.dict_request_is_returned_as_given", "post", z3.Implies(z3.And(R.HASPM, z3.Not(CN), CD), z3.BoolVal(bool(is_req))), None,
                   "a {column: labels / count} request is honoured as it is")
        if isinstance(v, Custom) and isinstance(v.h, OutDict):
            f, ups = v.h.first, q.ghost.get("updates", [])
            fk = f.key.h.term if isinstance(f.key, Custom) and isinstance(f.key.h, Label) else None
            ok1 = fk is not None and isinstance(f.val, Custom) and isinstance(f.val.h, StoredCount) and z3.eq(f.val.h.t, fk)
            ok2 = len(ups) == 1 and isinstance(ups[0].key, Custom) and isinstance(ups[0].key.h, Label) and ups[0].key.h.src == ("req",)
            eng.oblige(q, "check_categories.list_request_keeps_stored_counts_and_adds_new_fields", "post",
                       z3.Implies(z3.And(R.HASPM, z3.Not(CN), z3.Not(CD)),
                                  z3.And(z3.BoolVal(bool(ok1 and ok2)), f.guard == INREQ(fk) if fk is not None else z3.BoolVal(False),
                                         ups[0].guard == z3.Not(INCATEG(ups[0].key.h.term)) if ok2 else z3.BoolVal(False))), None,
                       "a list request: {stored category field: its stored label count, if requested} + {requested field not stored as category: the "
                       "default label range}")
        else:
            eng.oblige(q, "check_categories.list_request_keeps_stored_counts_and_adds_new_fields", "post",
                       z3.Implies(z3.And(R.HASPM, z3.Not(CN), z3.Not(CD)), z3.BoolVal(False)), None)
    discharge(res, eng, timeout)
    ctx.vacuity["covers"] += n
    return res



# ---- ParquetFile._parse_header ------------------------------------------------------------------------------------------------------------
def run_parse_header(ctx, funcs, timeout):
    """the footer parsed from the file becomes self.fmd and THEN _set_attrs() runs: columns / dtypes are answered from the footer just read"""
    res = Results()
    R = RWorld()

    class Footer(Sym):
        def __init__(self, data):
            self.data = data

        def getitem(self, eng, p, i, node):
            return Custom(AnyLoop())

        def attr(self, eng, p, name):
            return Custom(AnyLoop()) if name == "row_groups" else Opaque(("footer", name))

    class AnyLoop(Sym):
        def for_loop(self, eng, p, st):
            assigned = sorted(stored_names(st.body) | {n.id for n in ast.walk(st.target) if isinstance(n, ast.Name)})
            outs = []
            for k, q in enumerate((p.fork(), p.fork())):
                for v in assigned:
                    q.env[v] = Opaque(f"havoc_{v}!{next(_cnt)}")
                if k == 0:
                    outs.append(q)
                    continue
                n0 = len(q.ghost.get("pf_events", []))
                for b1 in eng.assign(st.target, Opaque(("row_group", next(_cnt))), q):
                    for r in eng.block(st.body, [b1]):
                        if r.ctl in (None, "continue", "break"):
                            eng.oblige(r, "parse_header.row_group_loop_does_not_touch_the_handle", "post",
                                       z3.BoolVal(len(r.ghost.get("pf_events", [])) == n0), st, "decoding file_path of the first chunk sets no attribute of self")
                        else:
                            outs.append(r)
            return outs
    made = []

    def h_from_buffer(eng, p, args, kw, node):
        f = Footer(args[0] if args else None)
        made.append(f)
        bad = raise_path(p.fork(), "Exception", node)
        return [(p, Custom(f)), (bad, Opaque("raised"))]
    eng = MEng(funcs=funcs, handlers={"from_buffer": h_from_buffer}, opaque_calls=True)
    outs = eng.run("ParquetFile._parse_header", Path(), [Custom(PFV(R, {})), Opaque("f")], {"verify": Opaque("verify")})
    n = 0
    for q in outs:
        if q.ctl[0] != "ret":
            continue
        n += 1
        ev = q.ghost.get("pf_events", [])
        names = [("set:" + e[1]) if e[0] == "set" else ("call:" + e[1]) for e in ev]
        fm = [e for e in ev if e[0] == "set" and e[1] == "fmd"]
        ok = len(fm) == 1 and isinstance(fm[0][2], Custom) and isinstance(fm[0][2].h, Footer) and names.count("call:_set_attrs") == 1 \
            and names and names[-1] == "call:_set_attrs" and names.index("set:fmd") < names.index("call:_set_attrs")
        eng.oblige(q, "parse_header.footer_read_becomes_fmd_then_attrs_are_set", "post", z3.BoolVal(bool(ok)), None,
                   "self.fmd = from_buffer(<footer bytes>, 'FileMetaData'), then - last - self._set_attrs(): every metadata-only answer is derived from "
                   "the footer of THIS file")
    discharge(res, eng, timeout, skip_kinds=("assert",))       # the asserts on the magic bytes are caught and turned into ParquetException
    if n == 0:
        res.add("parse_header.returns_on_some_path", UNKNOWN, None, 0.0, "engine", "no returning path")
    ctx.vacuity["covers"] += n
    return res



# ---- writer.write: what make_metadata is handed (append=False) -----------------------------------------------------------------------------
def run_write_callsite(ctx, funcs, timeout):
    res = Results()
    ISRANGE_IDX = z3.Bool("frame_index_is_RangeIndex")
    WI_NONE, WI_TRUE = z3.Bool("write_index_is_None"), z3.Bool("write_index_truthy")
    INORIG = z3.Function("label_is_original_column", T, B)

    class IndexW(Sym):
        def isinstance(self, eng, p, tn):
            return ISRANGE_IDX if "RangeIndex" in tn else z3.BoolVal(False)

    class FrameW(Sym):
        def __init__(self, reset_of=None):
            self.reset_of = reset_of

        def attr(self, eng, p, name):
            if name == "index":
                return Custom(IndexW()) if self.reset_of is None else Opaque("reset_frame.index")
            if name == "columns":
                return Custom(ColsW(self))
            return Opaque(("frame", name))

        def arbitrary(self, eng, p):
            return Custom(Label(z3.Const(f"frame_label!{next(_cnt)}", T), ("frame", id(self))))

        def call_method(self, eng, p, name, args, kw, node):
            return [(p, Opaque(("frame." + name, next(_cnt))))]          # some other frame: not the one given / reset

    class ColsW(Sym):
        def __init__(self, fr):
            self.fr = fr

        def attr(self, eng, p, name):
            return Custom(ColsDtype(self.fr)) if name == "dtype" else Opaque(("columns", name))

    class ColsDtype(Sym):
        def __init__(self, fr):
            self.fr = fr

    class SetW(Sym):
        def __init__(self, fr):
            self.fr = fr

        def contains(self, eng, p, item):
            return INORIG(item.h.term)

    class WriteIndex(Sym):
        def is_none(self, eng, p):
            return WI_NONE

        def truth(self, eng, p):
            return z3.And(z3.Not(WI_NONE), WI_TRUE)
    orig = FrameW()
    part, fixed, oenc, hn = Custom(LabelsLoop("partition_on")), Opaque("fixed_text"), Opaque("object_encoding"), Opaque("has_nulls")

    def rec(kind):
        def h(eng, p, args, kw, node):
            p.ghost["trace"] = p.ghost.get("trace", []) + [(kind, list(args), dict(kw))]
            if kind == "make_metadata":
                bad = raise_path(p.fork(), "ValueError", node)
                bad.ghost["metadata_refused"] = True
                return [(p, Custom(RecV("FileMetaData", node.lineno).init(p, {"key_value_metadata": NONE}))), (bad, Opaque("raised"))]
            return [(p, NONE)]
        return h
    handlers = {"get_fs": lambda e, p, a, k, n: [(p, Tup([Opaque("fs"), a[0], a[1], a[2]]))],
                "getattr": lambda e, p, a, k, n: [(p, NONE)],
                "set": lambda e, p, a, k, n: [(p, Custom(SetW(a[0].h)))] if isinstance(a[0], Custom) and isinstance(a[0].h, FrameW) else [(p, Opaque("set"))],
                "reset_row_idx": lambda e, p, a, k, n: [(p, Custom(FrameW(reset_of=a[0].h)))] if isinstance(a[0], Custom) and isinstance(a[0].h, FrameW)
                else [(p, Opaque("reset"))],
                "make_metadata": rec("make_metadata"), "check_column_names": rec("check_column_names"), "write_simple": rec("write_simple"),
                "write_multi": rec("write_multi")}
    eng = MEng(funcs=funcs, handlers=handlers, opaque_calls=True)
    outs = eng.run("write", Path(), [Opaque("filename"), Custom(orig)],
                   {"partition_on": part, "fixed_text": fixed, "object_encoding": oenc, "has_nulls": hn, "write_index": Custom(WriteIndex()),
                    "append": PyB(False), "custom_metadata": NONE, "file_scheme": Opaque("file_scheme"), "times": Opaque("times")})
    n = 0
    for q in outs:
        if q.ghost.get("metadata_refused"):
            trn = [t[0] for t in q.ghost.get("trace", [])]
            eng.oblige(q, "write.metadata_is_built_before_the_target_is_touched[a refusal leaves it untouched]", "post",
                       z3.BoolVal(q.ctl == ("raise", "ValueError") and "write_simple" not in trn and "write_multi" not in trn), None,
                       "when make_metadata refuses the frame (duplicate / non-text names, unsupported dtype, object column whose encoding cannot be "
                       "inferred) write() raises with neither write_simple nor write_multi called: an existing dataset at the target stays as it was")
        if q.ctl[0] != "ret":
            continue
        tr = q.ghost.get("trace", [])
        mm = [t for t in tr if t[0] == "make_metadata"]

        def ob(name, goal, note="", q=q):
            eng.oblige(q, "write." + name, "post", goal, None, note)
        if len(mm) != 1:
            ob("builds_the_metadata_once", z3.BoolVal(False))
            continue
        n += 1
        args, kw = mm[0][1], mm[0][2]
        data = args[0].h if args and isinstance(args[0], Custom) and isinstance(args[0].h, FrameW) else None
        ic = kw.get("index_cols")
        stored = z3.Or(z3.And(z3.Not(WI_NONE), WI_TRUE), z3.And(WI_NONE, z3.Not(ISRANGE_IDX)))
        comp = ic.h if isinstance(ic, Custom) and isinstance(ic.h, AbstractComp) else None
        ok_stored = data is not None and data.reset_of is orig and comp is not None and isinstance(comp.coll, Custom) and comp.coll.h is data \
            and isinstance(comp.elt, Custom) and isinstance(comp.elt.h, Label)
        ob("index_columns_are_the_columns_reset_index_added",
           z3.Implies(stored, z3.And(z3.BoolVal(bool(ok_stored)), comp.guard == z3.Not(INORIG(comp.elt.h.term)) if ok_stored else z3.BoolVal(False))),
           "write_index=True, or None with a non-Range index: make_metadata gets the frame AFTER reset_row_idx and index_cols = exactly the columns "
           "of that frame that the original frame did not have, in frame order")
        ob("range_index_goes_to_the_metadata_not_to_a_column",
           z3.Implies(z3.And(WI_NONE, ISRANGE_IDX), z3.BoolVal(bool(data is orig and isinstance(ic, Custom) and isinstance(ic.h, IndexW)))),
           "write_index=None and a RangeIndex: the frame is written as it is and index_cols IS data.index (stored as a 'range' record)")
        ob("write_index_false_stores_no_index",
           z3.Implies(z3.And(z3.Not(WI_NONE), z3.Not(WI_TRUE)), z3.BoolVal(bool(data is orig and isinstance(ic, Custom) and isinstance(ic.h, LstV)
                                                                              and not ic.h.st(q)["items"] and ic.h.st(q)["base"] is None))),
           "write_index=False: no index column, no range record")
        cd = kw.get("cols_dtype")
        ob("column_index_dtype_is_of_the_original_frame", z3.BoolVal(isinstance(cd, Custom) and isinstance(cd.h, ColsDtype) and cd.h.fr is orig),
           "cols_dtype is data.columns.dtype of the frame as given (before reset_row_idx adds index columns)")
        hv = kw.get("has_nulls")
        infer = q.opq.get(("streq", ("call", "str", 0), "infer"))
        ob("options_reach_make_metadata",
           z3.BoolVal(bool(kw.get("partition_cols") is part and kw.get("fixed_text") is fixed and kw.get("object_encoding") is oenc
                           and isinstance(kw.get("times"), Opaque) and kw["times"].tag == "times" and (hv is hn or isinstance(hv, NoneV)))),
           "partition_cols=partition_on, fixed_text, object_encoding, times as given; has_nulls as given or None for 'infer'")
        ig = kw.get("ignore_columns")
        simple = q.opq.get(("streq", "file_scheme", "simple"))
        ok_ig = (ig is part) or (isinstance(ig, Custom) and isinstance(ig.h, LstV) and not ig.h.st(q)["items"])
        ob("ignore_columns_is_partition_on_unless_simple",
           z3.BoolVal(bool(ok_ig)) if simple is None else z3.If(simple, z3.BoolVal(bool(isinstance(ig, Custom) and isinstance(ig.h, LstV))), z3.BoolVal(ig is part)),
           "hive / drill: the partition columns get no schema element (ignore_columns=partition_on); simple: nothing is ignored")
        names = [t[0] for t in tr]
        wpos = [i_ for i_, t_ in enumerate(names) if t_ in ("write_simple", "write_multi")]
        ob("metadata_is_built_before_the_target_is_touched", z3.BoolVal(bool(wpos) and names.index("make_metadata") < min(wpos)),
           "make_metadata(...) - and with it every refusal of the frame - runs BEFORE write_simple / write_multi (the only calls that open the target)")
        ck = [t for t in tr if t[0] == "check_column_names"]
        okc = len(ck) == 1 and names.index("check_column_names") < names.index("make_metadata") and len(ck[0][1]) == 5 \
            and isinstance(ck[0][1][0], Custom) and isinstance(ck[0][1][0].h, ColsW) and ck[0][1][0].h.fr is data and ck[0][1][1] is part
        ob("requested_names_checked_against_the_frame_written", z3.BoolVal(bool(okc)),
           "check_column_names(<columns of the frame handed to make_metadata>, partition_on, fixed_text, object_encoding, has_nulls) runs before the metadata is built")
        wr = [t for t in tr if t[0] in ("write_simple", "write_multi")]
        okw = len(wr) == 1 and len(wr[0][1]) >= 3 and isinstance(wr[0][1][1], Custom) and wr[0][1][1].h is data
        ob("data_written_is_the_frame_described", z3.BoolVal(bool(okw)), "write_simple / write_multi get the SAME frame make_metadata described (index columns included)")
    discharge(res, eng, timeout)
    if n == 0:
        res.add("write.builds_the_metadata_on_some_path", UNKNOWN, None, 0.0, "engine", "no returning path with a make_metadata call")
    ctx.vacuity["covers"] += n
    return res



# ---- api._pre_allocate: the lists handed to dataframe.empty -------------------------------------------------------------------------------
class AList(Obj):
    """[elt(member) for member in coll if guard] (+ what was .extend()ed later): position k of the list is the k-th kept member of coll"""
    kind = "alist"

    def __init__(self, comp):
        super().__init__()
        self.elt, self.guard, self.coll = comp.elt, comp.guard, comp.coll

    def ext(self, p):
        return p.ghost.get(self.key, [])

    def arbitrary(self, eng, p):
        if self.ext(p):
            raise Unsupported("iteration over a list that was extended")
        p.pc.append(self.guard)
        return self.elt

    def call_method(self, eng, p, name, args, kw, node):
        if name == "extend" and len(args) == 1:
            p.ghost[self.key] = self.ext(p) + [args[0]]
            return [(p, NONE)]
        raise Unsupported("list." + name)

    def len(self, eng, p):
        n = fresh_int("len_list")
        p.pc.append(n >= 0)
        return PyI(n)

    def truth(self, eng, p):
        return fresh_bool("list_nonempty")

    def isinstance(self, eng, p, tn):
        return z3.BoolVal("list" in tn)


class GT(Sym):
    """get_type(name, index)"""

    def __init__(self, name, index):
        self.name, self.index = name, index


def run_pre_allocate(ctx, funcs, timeout):
    res = Results()
    ININDEX = z3.Function("label_in_index", T, B)
    INCATG = z3.Function("label_in_requested_categories", T, B)
    NCS = z3.Int("n_partition_columns_read")
    INCS = z3.Function("label_is_partition_column_read", T, B)
    CAT_TRUTHY, CAT_DICT = z3.Bool("categories_truthy"), z3.Bool("categories_is_dict")
    IDX_TRUTHY = z3.Bool("index_truthy")

    class ReqCols(Sym):
        def arbitrary(self, eng, p):
            return Custom(Label(z3.Const(f"requested_column!{next(_cnt)}", T), ("req",)))

    class IdxL(Sym):
        def isinstance(self, eng, p, tn):
            return z3.BoolVal("list" in tn)

        def truth(self, eng, p):
            return IDX_TRUTHY

        def contains(self, eng, p, item):
            return ININDEX(item.h.term)

        def arbitrary(self, eng, p):
            return Custom(Label(z3.Const(f"index_name!{next(_cnt)}", T), ("idx",)))

    class IdxS(Label):
        def isinstance(self, eng, p, tn):
            return z3.BoolVal(tn == "str")

        def truth(self, eng, p):
            return z3.BoolVal(True)

    class CategD(Sym):
        def truth(self, eng, p):
            return CAT_TRUTHY

        def isinstance(self, eng, p, tn):
            return CAT_DICT if "dict" in tn else z3.BoolVal(False)

        def contains(self, eng, p, item):
            return INCATG(item.h.term)

    class CsD(Sym):
        def call_method(self, eng, p, name, args, kw, node):
            if name == "copy" and not args:
                c = CatsCopy(self)
                return [(p, Custom(c))]
            raise Unsupported("cs." + name)

        def len(self, eng, p):
            return PyI(NCS)

        def contains(self, eng, p, item):
            return INCS(item.h.term)

    class CatsCopy(Obj):
        kind = "catscopy"

        def __init__(self, of):
            super().__init__()
            self.of = of

        def call_method(self, eng, p, name, args, kw, node):
            if name == "update" and len(args) == 1:
                p.ghost[self.key] = p.ghost.get(self.key, []) + [args[0]]
                return [(p, NONE)]
            raise Unsupported("cats." + name)

    class DtD(Sym):
        def getitem(self, eng, p, i, node):
            if isinstance(i, Custom) and isinstance(i.h, Label):
                return Custom(DtOf(i.h))
            raise Unsupported("dt[...]")

        def arbitrary(self, eng, p):
            return Custom(Label(z3.Const(f"dtypes_key!{next(_cnt)}", T), ("dt",)))

        def contains(self, eng, p, item):
            return fresh_bool("in_dt")

    class DtOf(Sym):
        def __init__(self, lab):
            self.lab = lab

    class MEngA(MEng):
        def s_FunctionDef(self, st, p):
            return [p]                      # get_type: a handler here (cut), its body is run on its own below

        def e_ListComp(self, e, p):
            out = []
            for q, v in super().e_ListComp(e, p):
                if isinstance(v, Custom) and isinstance(v.h, AbstractComp):
                    v = Custom(AList(v.h))
                out.append((q, v))
            return out
    P = "pre_allocate."
    for variant in ("index list", "index text"):
        OBJS.clear()
        req, cs, dt, categ = ReqCols(), CsD(), DtD(), CategD()
        idx = IdxL() if variant == "index list" else IdxS(z3.Const("index_name_given", T), ("idx",))
        calls = []

        def h_get_type(eng, p, args, kw, node):
            ix = kw.get("index", args[1] if len(args) > 1 else PyB(False))
            return [(p, Custom(GT(args[0], ix)))]

        def h_empty(eng, p, args, kw, node):
            def ob(name, goal, note=""):
                eng.oblige(p, P + name, "post", goal, node, note)
            dts = args[0].h if args and isinstance(args[0], Custom) and isinstance(args[0].h, AList) else None
            cols = kw.get("cols")
            cols = cols.h if isinstance(cols, Custom) and isinstance(cols.h, AList) else None
            # ---- data columns: same generator, same order, same filter
            same_src = dts is not None and cols is not None and isinstance(dts.coll, Custom) and dts.coll.h is cols \
                and isinstance(dts.elt, Custom) and isinstance(dts.elt.h, GT) and dts.elt.h.name is cols.elt \
                and isinstance(dts.elt.h.index, PyB) and z3.is_false(z3.simplify(dts.elt.h.index.z))
            ob("dtype_list_is_aligned_with_column_list",
               z3.And(z3.BoolVal(bool(same_src)), dts.guard if same_src else z3.BoolVal(False)),
               "as handed to dataframe.empty: for every position k, dtypes[k] == get_type(cols[k]): the dtype list is built by ONE pass over the column "
               "list itself (same members, same order, no filter) - a list built from another iteration source (e.g. the dtype mapping in "
               "schema order) is aligned only if that source provably has the caller's order, which nothing guarantees for a column subset")
            ec = cols.ext(p) if cols is not None else None
            ed = dts.ext(p) if dts is not None else None
            ok_tail = ec is not None and ed is not None and len(ec) == 1 and len(ed) == 1 and isinstance(ec[0], Custom) and ec[0].h is cs \
                and isinstance(ed[0], Custom) and isinstance(ed[0].h, ConstList) and isinstance(ed[0].h.elt, Str) and ed[0].h.elt.s == "category"
            ob("partition_columns_appended_with_category_at_the_same_positions",
               z3.And(z3.BoolVal(bool(ok_tail)), ed[0].h.n == NCS if ok_tail else z3.BoolVal(False)),
               "after the data columns: cols gets the partition columns read (cs, in its order) and dtypes gets exactly len(cs) times 'category'")
            okc = cols is not None and isinstance(cols.coll, Custom) and cols.coll.h is req and isinstance(cols.elt, Custom) and isinstance(cols.elt.h, Label) \
                and cols.elt.h.src == ("req",)
            if okc:
                t = cols.elt.h.term
                inidx = ININDEX(t) if variant == "index list" else t == idx.term
                want = z3.Not(z3.And(IDX_TRUTHY, inidx)) if variant == "index list" else z3.Not(inidx)
            ob("columns_are_the_requested_columns_minus_index_in_request_order",
               z3.And(z3.BoolVal(bool(okc)), z3.And(z3.Implies(cols.guard, want), z3.Implies(z3.And(want, z3.Not(INCS(t))), cols.guard)) if okc else z3.BoolVal(False)),
               "cols = the columns requested, in the caller's order, without the index columns: every requested column that is neither an index nor a "
               "partition column is kept, no index column is (a requested partition column may be dropped here: the partition columns are appended)")
            # ---- index
            names, types = kw.get("index_names"), kw.get("index_types")
            if variant == "index list":
                ty = types.h if isinstance(types, Custom) and isinstance(types.h, AList) else None
                full = ty is not None and isinstance(names, Custom) and names.h is idx and isinstance(ty.coll, Custom) and ty.coll.h is idx \
                    and isinstance(ty.elt, Custom) and isinstance(ty.elt.h, GT) and isinstance(ty.elt.h.name, Custom) and isinstance(ty.elt.h.name.h, Label) \
                    and ty.elt.h.name.h.src == ("idx",) and isinstance(ty.elt.h.index, PyB) and z3.is_true(z3.simplify(ty.elt.h.index.z)) \
                    and z3.is_true(z3.simplify(ty.guard))
                none = isinstance(names, Custom) and isinstance(names.h, LstV) and not names.h.st(p)["items"] and \
                    ((isinstance(types, Tup) and not types.items) or (isinstance(types, Custom) and isinstance(types.h, LstV) and not types.h.st(p)["items"]))
                ob("index_types_aligned_with_index_names", z3.If(IDX_TRUTHY, z3.BoolVal(bool(full)), z3.BoolVal(bool(none))),
                   "index_types[k] == get_type(index[k], index=True) for the index list handed over as index_names (both empty without an index)")
            else:
                one = isinstance(names, Custom) and isinstance(names.h, LstV) and len(names.h.st(p)["items"]) == 1 and names.h.st(p)["items"][0].h is idx
                its = types.items if isinstance(types, Tup) else (types.h.st(p)["items"] if isinstance(types, Custom) and isinstance(types.h, LstV) else None)
                okt = its is not None and len(its) == 1 and isinstance(its[0], Custom) and isinstance(its[0].h, GT) and isinstance(its[0].h.name, Custom) \
                    and its[0].h.name.h is idx and isinstance(its[0].h.index, PyB) and z3.is_true(z3.simplify(its[0].h.index.z))
                ob("index_types_aligned_with_index_names", z3.BoolVal(bool(one and okt)),
                   "one index name given as text: index_names == [name], index_types == [get_type(name, index=True)]")
            cv = kw.get("cats")
            okk = isinstance(cv, Custom) and isinstance(cv.h, CatsCopy) and cv.h.of is cs
            ups = p.ghost.get(cv.h.key, []) if okk else []
            ob("label_map_is_partitions_plus_requested_category_labels",
               z3.And(z3.BoolVal(bool(okk)), z3.If(z3.And(CAT_TRUTHY, CAT_DICT), z3.BoolVal(len(ups) == 1 and isinstance(ups[0], Custom) and ups[0].h is categ),
                                                   z3.BoolVal(len(ups) == 0 or (len(ups) == 1 and isinstance(ups[0], Custom) and isinstance(ups[0].h, DictV))))),
               "cats = a COPY of the partition label map, updated with the requested categories when they come as {column: labels}")
            calls.append(1)
            return [(p, Tup([Opaque("df"), Opaque("views")]))]
        eng = MEngA(funcs=funcs, handlers={"get_type": h_get_type, "dataframe.empty": h_empty}, opaque_calls=True)
        p = Path()
        p.pc += [NCS >= 0]
        outs = eng.run("_pre_allocate", p, [Opaque("size"), Custom(req), Custom(categ), Custom(idx), Custom(cs), Custom(dt)],
                       {"tz": Opaque("tz"), "columns_dtype": Opaque("columns_dtype")})
        discharge(res, eng, timeout, rename=lambda nm: nm.replace("_pre_allocate.", P) if nm.startswith("_pre_allocate.") else nm)
        if not calls:
            res.add(P + f"hands_the_lists_to_dataframe_empty[{variant}]", UNKNOWN, None, 0.0, "engine", "dataframe.empty is never reached (vacuity guard)")
        ctx.vacuity["covers"] += len(calls)
    # ---- get_type on its own -----------------------------------------------------------------------------------------------------------
    ISIDX_, MASKED = z3.Bool("index_flag"), z3.Bool("dtype_is_masked")
    categ, dt = CategD(), DtD()

    def h_isinstance(eng, p, args, kw, node):
        if isinstance(args[0], Custom) and isinstance(args[0].h, DtOf):
            return [(p, PyB(MASKED))]
        return BUILTINS["isinstance"](eng, p, args, kw, node)
    eng = MEng(funcs=funcs, handlers={"isinstance": h_isinstance}, opaque_calls=True)
    nm = Label(z3.Const("the_name", T), ("name",))
    outs = eng.run("_pre_allocate.get_type", Path(), [Custom(nm), PyB(ISIDX_)], {}, closure={"categories": Custom(categ), "dt": Custom(dt)})
    for q in outs:
        if q.ctl[0] != "ret":
            continue
        v = q.ctl[1]
        is_cat = isinstance(v, Str) and v.s == "category"
        is_own = isinstance(v, Custom) and isinstance(v.h, DtOf) and v.h.lab is nm
        is_i64 = isinstance(v, Str) and v.s == "int64"
        eng.oblige(q, P + "get_type.category_iff_requested_else_the_predicted_dtype_of_that_name", "post",
                   z3.If(INCATG(nm.term), z3.BoolVal(is_cat), z3.If(z3.And(ISIDX_, MASKED), z3.BoolVal(is_i64), z3.BoolVal(is_own))), None,
                   "get_type(name): 'category' when name is a requested category, else dt[name] - the prediction for THAT name (a masked dtype of an "
                   "index: 'int64', an index cannot be masked)")
    discharge(res, eng, timeout)
    ctx.vacuity["covers"] += len(outs)
    return res


def prealloc_rows(fp, pd, np):
    """executed: pre_allocate for permuted / subset column requests"""
    from fastparquet import writer
    out = []
    df = pd.DataFrame({"i": [1, 2, 3], "f": [1.5, 2.5, 3.5], "s": ["a", "b", "c"], "t": pd.to_datetime(["2020-01-01", "2020-01-02", "2020-01-03"]),
                       "b": [True, False, True], "c": pd.Categorical(["u", "v", "u"])}, index=pd.Index([10, 20, 30], name="k"))
    data = df.reset_index()
    fmd = footer_roundtrip(fp, writer.make_metadata(data, index_cols=["k"], cols_dtype=df.columns.dtype))
    reqs = [("all columns, file order", list(data.columns), None), ("all columns, reversed", list(data.columns)[::-1], None),
            ("subset in file order", ["i", "s", "b"], None), ("subset, reversed", ["b", "s", "i"], None), ("subset, shuffled", ["t", "i", "c", "f"], None),
            ("two columns swapped", ["f", "i"], None), ("subset with the index column last", ["f", "i", "k"], ["k"]),
            ("subset, reversed, index column first", ["k", "c", "f"], ["k"]), ("reversed, index disabled", ["b", "f", "k"], False)]
    for label, req, index in reqs:
        t0 = time.time()
        nm = f"pre_allocate.allocation_follows_the_requested_column_order[{label}]"
        why = None
        try:
            pf = stub_handle(fp, fmd)
            pred = dict(pf.dtypes)
            ix = pf._get_index(index) if index is not False else []
            df0, views = pf.pre_allocate(3, list(req), None, ix)          # to_pandas: index = self._get_index(index), then pre_allocate(.., index)
            want = [c for c in req if c not in (ix or [])]
            if list(df0.columns) != want:
                why = f"columns {list(df0.columns)} instead of {want}"
            else:
                for c in want:
                    w = compare_dtype(pd, np, pred[c], df0[c].dtype)
                    if w:
                        why = f"column {c}: predicted {pred[c]}, allocated {df0[c].dtype} ({w})"
                        break
                if not why and ix and (list(df0.index.names) != list(ix) or compare_dtype(pd, np, pred[ix[0]], df0.index.dtype)):
                    why = f"index {df0.index.names} {df0.index.dtype}"
        except Exception as ex:
            why = f"raises {type(ex).__name__}: {str(ex)[:120]}"
        out.append((nm, REFUTED if why else PROVED, {"request": req, "index": index, "why": why} if why else None, time.time() - t0, EXEC,
                    "the frame allocated for a column request in THIS order has these columns in this order, each with the dtype the handle predicts "
                    "for it" + (f" - {why}" if why else "")))
    return out



# ---- writer.infer_object_encoding ------------------------------------------------------------------------------------------------------------
def run_infer_object_encoding(ctx, funcs, timeout):
    """abstract element sequence: ONE arbitrary element with the loop-carried (t, s) havoc'd under the invariant
         (t is None <=> s == 0)  and  0 <= s <= 10  and  [t is not None => t is the encoding of every typed element seen]"""
    res = Results()
    P = "infer_object_encoding."
    TY = z3.Function("type_of_element", I, I)                 # a type code
    INTAB = z3.Function("type_is_in_the_table", I, B)
    ENC = z3.Function("encoding_of_type", I, I)               # encoding code of a type of the table
    NULLT = [z3.Function(f"element_null_test_{n}", I, B) for n in ("is_None", "is_pd_NA", "is_pd_NaT", "is_np_nan", "pd_isna")]
    table = {}

    class TypeV(Sym):
        def __init__(self, t):
            self.t = t

    class EncV(Sym):
        def __init__(self, e):
            self.e = e

        def eq(self, eng, p, other):
            if isinstance(other, Custom) and isinstance(other.h, EncV):
                return self.e == other.h.e
            if isinstance(other, NoneV):
                return z3.BoolVal(False)
            if isinstance(other, Opt):
                return z3.And(z3.Not(other.isnone), self.eq(eng, p, other.val))
            raise Unsupported("encoding compared with " + type(other).__name__)

    class Encs(Sym):
        def contains(self, eng, p, item):
            if isinstance(item, Custom) and isinstance(item.h, TypeV):
                return INTAB(item.h.t)
            raise Unsupported("membership of something that is not a type in the table")

        def getitem(self, eng, p, i, node):
            if isinstance(i, Custom) and isinstance(i.h, TypeV):
                eng.oblige(p, P + f"table_lookup_only_for_listed_types@L{node.lineno}", "safety", INTAB(i.h.t), node)
                return Custom(EncV(ENC(i.h.t)))
            raise Unsupported("table[...]")

        def call_method(self, eng, p, name, args, kw, node):
            if name == "get" and args and isinstance(args[0], Custom) and isinstance(args[0].h, TypeV):
                dflt = args[1] if len(args) > 1 else NONE
                if not isinstance(dflt, NoneV):
                    raise Unsupported("table.get with a default")
                return [(p, Opt(z3.Not(INTAB(args[0].h.t)), Custom(EncV(ENC(args[0].h.t)))))]
            raise Unsupported("table." + name)

    class Elem(Sym):
        def __init__(self, k):
            self.k = k

        def is_none(self, eng, p):
            return NULLT[0](self.k)

        def identical(self, eng, p, other):
            if isinstance(other, Opaque) and isinstance(other.tag, tuple) and len(other.tag) == 2:
                nm = {("global:pd", "NA"): 1, ("global:pd", "NaT"): 2, ("global:np", "nan"): 3}.get(other.tag)
                if nm is not None:
                    return NULLT[nm](self.k)
            return None

    def is_null(k):
        return z3.Or(*[f(k) for f in NULLT])

    class DataV(Sym):
        def attr(self, eng, p, name):
            if name == "empty":
                return PyB(z3.Bool("data_is_empty"))
            return Opaque(("data", name))

        def for_loop(self, eng, p, st):
            assigned = sorted(stored_names(st.body) | {n.id for n in ast.walk(st.target) if isinstance(n, ast.Name)})
            t0, s0 = p.env.get("t"), p.env.get("s")
            eng.oblige(p, P + "loop.invariant_on_entry", "inv",
                       z3.BoolVal(isinstance(t0, NoneV) and isinstance(s0, PyI) and z3.is_true(z3.simplify(s0.z == 0))), st,
                       "before the first element: no encoding yet (t is None) and no typed element counted (s == 0)")
            outs = []

            def havoc(q):
                tn, te, sv = fresh_bool("t_is_None"), fresh_int("t_encoding"), fresh_int("s")
                for v in assigned:
                    q.env[v] = Opaque(f"havoc_{v}!{next(_cnt)}")
                q.env["t"] = Opt(tn, Custom(EncV(te)))
                q.env["s"] = PyI(sv)
                q.pc += [tn == (sv == 0), 0 <= sv, sv <= 10]
                return tn, te, sv
            e = p.fork()
            tn, te, sv = havoc(e)
            e.ghost["exit"] = (tn, te, sv)
            outs.append(e)
            b = p.fork()
            tn, te, sv = havoc(b)
            k = fresh_int("element")
            for b1 in eng.assign(st.target, Custom(Elem(k)), b):
                for r in eng.block(st.body, [b1]):
                    ty = TY(k)

                    def ob(name, goal, note=""):
                        eng.oblige(r, P + name, "post", goal, st, note)
                    if isinstance(r.ctl, tuple) and r.ctl[0] == "raise":
                        ob("raises_only_for_an_unknown_or_a_second_element_type",
                           z3.And(z3.BoolVal(r.ctl[1] == "ValueError"), z3.Not(is_null(k)),
                                  z3.Or(z3.Not(INTAB(ty)), z3.And(z3.Not(tn), te != ENC(ty)))),
                           "ValueError only for a non-null element whose type is not in the table, or whose encoding differs from the one seen so far")
                        r.ghost["refused"] = True
                        outs.append(r)
                        continue
                    if r.ctl not in (None, "continue", "break"):
                        outs.append(r)
                        continue
                    t1, s1 = r.env.get("t"), r.env.get("s")
                    s1z = eng.as_int(s1, r) if isinstance(s1, (PyI, PyB)) else None
                    if isinstance(t1, Opt) and isinstance(t1.val, Custom) and isinstance(t1.val.h, EncV):
                        t1n, t1e = t1.isnone, t1.val.h.e
                    elif isinstance(t1, Custom) and isinstance(t1.h, EncV):
                        t1n, t1e = z3.BoolVal(False), t1.h.e
                    elif isinstance(t1, NoneV):
                        t1n, t1e = z3.BoolVal(True), te
                    else:
                        t1n = t1e = None
                    shape = s1z is not None and t1n is not None
                    ob("rejects_unknown_element_type", z3.Or(is_null(k), INTAB(ty)),
                       "a non-null element whose type is not in the encoding table never gets past its iteration: ValueError (tuples, sets, complex, "
                       "custom objects ... are refused HERE, before anything is written)")
                    ob("rejects_mixed_element_types", z3.Or(is_null(k), z3.Not(INTAB(ty)), tn, te == ENC(ty)),
                       "a typed element whose encoding differs from the one inferred so far never gets past its iteration: ValueError")
                    ob("null_elements_are_skipped", z3.Implies(is_null(k), z3.And(z3.BoolVal(bool(shape)), (t1n == tn) if shape else False,
                                                                                  z3.Implies(z3.Not(tn), t1e == te) if shape else False,
                                                                                  (s1z == sv) if shape else False)),
                       "None / NA / NaT / nan leave the inference state untouched (not counted)")
                    ob("typed_element_sets_or_confirms_the_encoding", z3.Implies(z3.And(z3.Not(is_null(k)), INTAB(ty)),
                                                                                 z3.And(z3.BoolVal(bool(shape)), z3.Not(t1n) if shape else False,
                                                                                        (t1e == ENC(ty)) if shape else False, (s1z == sv + 1) if shape else False)),
                       "a non-null element of a listed type: the result becomes (stays) the table's encoding of its type and it is counted")
                    if r.ctl == "break":
                        ob("stops_only_after_more_than_ten_typed_elements", (s1z > 10) if s1z is not None else z3.BoolVal(False),
                           "the scan stops early only after 11 typed elements agreed")
                        r.ctl = None
                        r.ghost["exit"] = (t1n, t1e, s1z)
                        outs.append(r)
                    else:
                        ob("loop.invariant_preserved", z3.And(z3.BoolVal(bool(shape)), (t1n == (s1z == 0)) if shape else False,
                                                               z3.And(0 <= s1z, s1z <= 10) if shape else False),
                           "(t is None <=> s == 0) and 0 <= s <= 10 when the loop goes on")
            return outs

    class MEngT(MEng):
        def e_Dict(self, e, p):
            if e.keys and all(isinstance(k, (ast.Name, ast.Attribute)) for k in e.keys) and all(isinstance(v, ast.Constant) and isinstance(v.value, str) for v in e.values):
                table.update({ast.unparse(k): v.value for k, v in zip(e.keys, e.values)})
                return [(p, Custom(Encs()))]
            return super().e_Dict(e, p)
    eng = MEngT(funcs=funcs, handlers={"type": lambda e, p, a, k, n: [(p, Custom(TypeV(TY(a[0].h.k))))] if a and isinstance(a[0], Custom) and isinstance(a[0].h, Elem)
                                       else [(p, Opaque(("type", next(_cnt))))],
                                       "pd.isna": lambda e, p, a, k, n: [(p, PyB(NULLT[4](a[0].h.k)))] if a and isinstance(a[0], Custom) and isinstance(a[0].h, Elem)
                                       else [(p, Opaque(("isna", next(_cnt))))]}, opaque_calls=True)
    outs = eng.run("infer_object_encoding", Path(), [Custom(DataV())])
    n = 0
    for q in outs:
        if q.ctl[0] != "ret":
            continue
        n += 1
        v = q.ctl[1]
        ex = q.ghost.get("exit")
        if ex is None:
            eng.oblige(q, P + "empty_column_is_text", "post", z3.And(z3.Bool("data_is_empty"), z3.BoolVal(isinstance(v, Str) and v.s == "utf8")), None,
                       "an empty column: 'utf8' (nothing to infer from)")
            continue
        tn, te, sv = ex
        if isinstance(v, Opt) and isinstance(v.val, Custom) and isinstance(v.val.h, EncV):
            vn, ve = v.isnone, v.val.h.e
        elif isinstance(v, Custom) and isinstance(v.h, EncV):
            vn, ve = z3.BoolVal(False), v.h.e
        elif isinstance(v, NoneV):
            vn, ve = z3.BoolVal(True), te
        else:
            vn = ve = None
        eng.oblige(q, P + "result_is_the_encoding_inferred_None_only_without_typed_elements", "post",
                   z3.BoolVal(False) if vn is None else z3.And(vn == tn, z3.Implies(z3.Not(tn), ve == te), vn == (sv == 0)), None,
                   "the result is the loop's t: None only when NO typed (non-null) element was seen, else the one encoding all typed elements share")
    discharge(res, eng, timeout)
    want = {"str": "utf8", "bytes": "bytes", "list": "json", "dict": "json", "bool": "bool", "Decimal": "decimal", "int": "int", "float": "float",
            "np.floating": "float", "np.str_": "utf8"}
    res.add(P + "table_is_the_documented_type_table", PROVED if table == want else REFUTED, None if table == want else {"table": table}, 0.0, "ast",
            "the element-type table: str / np.str_ -> utf8, bytes -> bytes, list / dict -> json, bool -> bool, Decimal -> decimal, int -> int, float / np.floating -> float")
    if n == 0:
        res.add(P + "returns_on_some_path", UNKNOWN, None, 0.0, "engine", "no returning path")
    ctx.vacuity["covers"] += n
    return res


def infer_rows(fp, pd, np):
    """executed: infer_object_encoding / find_type(object_encoding='infer') / make_metadata on object columns of each element kind"""
    from decimal import Decimal
    from fastparquet import writer

    class Thing:
        pass
    rows = [("text", ["a", "b"], "utf8"), ("bytes", [b"a"], "bytes"), ("lists", [[1], [2]], "json"), ("dicts", [{"a": 1}], "json"),
            ("list and dict", [[1], {"a": 1}], "json"), ("bools", [True, False], "bool"), ("Decimal", [Decimal("1.5")], "decimal"), ("ints", [1, 2], "int"),
            ("floats", [1.5, 2.5], "float"), ("np.str_", [np.str_("a")], "utf8"), ("text after missing cells", [None, np.nan, "a"], "utf8"),
            ("only missing cells", [None, None], None), ("text and int", ["a", 1], ValueError), ("int and bool", [1, True], ValueError),
            ("tuples", [(1, 2), (3, 4)], ValueError), ("sets", [{1}, {2}], ValueError), ("complex", [1j, 2j], ValueError),
            ("custom objects", [Thing(), Thing()], ValueError), ("text then a tuple", ["a", (1,)], ValueError),
            ("tuple after missing cells", [None, (1, 2)], ValueError), ("twelve texts then an int", ["a"] * 12 + [1], "utf8")]
    out = []
    for label, vals, want in rows:
        t0 = time.time()
        ser = pd.Series(vals, dtype=object, name="x")
        try:
            got = writer.infer_object_encoding(ser)
        except Exception as ex:
            got = type(ex)
        ok = got is want if isinstance(want, type) else got == want
        out.append((f"infer_object_encoding.table[{label}]", PROVED if ok else REFUTED, None if ok else {"values": repr(vals)[:80], "got": repr(got), "expected": repr(want)},
                    time.time() - t0, EXEC, "infer_object_encoding on an object column of these elements: the table's encoding / ValueError for an element type "
                    "that is not in the table or for mixed types" + ("" if ok else f" - got {got!r}, expected {want!r}")))
        if want is ValueError:
            t0 = time.time()
            try:
                writer.make_metadata(pd.DataFrame({"x": ser}), object_encoding="infer", index_cols=[])
                got2 = "returned"
            except Exception as ex:
                got2 = type(ex).__name__
            out.append((f"make_metadata.refuses_uninferable_object_column[{label}]", PROVED if got2 == "ValueError" else REFUTED,
                        None if got2 == "ValueError" else {"values": repr(vals)[:80], "got": got2}, time.time() - t0, EXEC,
                        "make_metadata(frame, object_encoding='infer') raises ValueError for this column - while building the metadata, i.e. before "
                        "write() opens any file" + ("" if got2 == "ValueError" else f" - {got2}")))
    return out



# ---- executed: refusal table of find_type / make_metadata; views of dataframe.empty over sizes ---------------------------------------------
OBJECT_ENCODINGS = (None, "infer", "utf8", "bytes", "json", "bson", "bool", "int", "int32", "float", "decimal")


def unsupported_rows(pd, np):
    rows = [("period[D]", lambda: pd.Series(pd.period_range("2020-01-01", periods=2, freq="D"))),
            ("period[M]", lambda: pd.Series(pd.period_range("2020-01", periods=2, freq="M"))),
            ("interval[int64]", lambda: pd.Series(pd.interval_range(0, 2))),
            ("interval[datetime64]", lambda: pd.Series(pd.interval_range(pd.Timestamp("2020-01-01"), periods=2))),
            ("complex64", lambda: pd.Series(np.array([1j, 2j], dtype="complex64"))),
            ("complex128", lambda: pd.Series(np.array([1j, 2j], dtype="complex128"))),
            ("longdouble", lambda: pd.Series(np.array([1, 2], dtype="longdouble"))),
            ("void (V4)", lambda: pd.Series(np.array([b"abcd", b"efgh"], dtype="V4"))),
            ("Sparse[int64]", lambda: pd.Series(pd.arrays.SparseArray([0, 1]))),
            ("Sparse[float64]", lambda: pd.Series(pd.arrays.SparseArray([0.0, 1.5]))),
            ("category of intervals", lambda: pd.Series(pd.Categorical(pd.interval_range(0, 2)))),
            ("category of periods", lambda: pd.Series(pd.Categorical(pd.period_range("2020-01-01", periods=2, freq="D"))))]
    out = []
    for name, mk in rows:
        try:
            ser = mk()
        except Exception:
            continue                      # this pandas / numpy cannot build the dtype: nothing to refuse
        if name == "longdouble" and ser.dtype == np.float64:
            continue
        out.append((name, ser.rename("x")))
    return out


def refusal_rows(fp, pd, np):
    """find_type.refuses_unsupported_dtype[D|object_encoding] / make_metadata.refuses_unsupported_dtype[..]: a dtype outside the supported table is
    refused whatever object_encoding / times say - by find_type, hence by make_metadata, hence before write() touches the target"""
    from fastparquet import writer
    out = []
    for D, ser in unsupported_rows(pd, np):
        is_cat = isinstance(ser.dtype, pd.CategoricalDtype)
        for oe in OBJECT_ENCODINGS:
            t0 = time.time()
            got = {}
            for times in ("int64", "int96"):
                try:
                    se, _ = writer.find_type(ser.cat.categories if is_cat else ser, object_encoding=oe, times=times)
                    got[times] = f"accepted as type {se.type} / converted {se.converted_type}"
                except Exception as ex:
                    got[times] = type(ex)
            ok = all(isinstance(v, type) for v in got.values())
            kinds = sorted({v.__name__ for v in got.values() if isinstance(v, type)})
            out.append((f"find_type.refuses_unsupported_dtype[{D}|{oe}]", PROVED if ok else REFUTED,
                        None if ok else {"dtype": str(ser.dtype), "object_encoding": oe, "got": {k: str(v) for k, v in got.items()}}, time.time() - t0, EXEC,
                        f"find_type(column of {ser.dtype}{' (its categories)' if is_cat else ''}, object_encoding={oe!r}, times=int64|int96) raises ({', '.join(kinds) or '-'}): "
                        "the dtype is outside the supported table and no option makes it writable" + ("" if ok else f" - {got}")))
            t0 = time.time()
            res2 = {}
            for label, kw in (("one text", {"object_encoding": oe}), ("per column", {"object_encoding": {"x": oe}})):
                if oe is None and label == "one text":
                    kw = {}
                try:
                    writer.make_metadata(pd.DataFrame({"k": [1, 2], "x": ser}), index_cols=[], **kw)
                    res2[label] = "returned"
                except Exception as ex:
                    res2[label] = type(ex)
            ok = all(isinstance(v, type) for v in res2.values())
            out.append((f"make_metadata.refuses_unsupported_dtype[{D}|{oe}]", PROVED if ok else REFUTED,
                        None if ok else {"dtype": str(ser.dtype), "object_encoding": oe, "got": {k: str(v) for k, v in res2.items()}}, time.time() - t0, EXEC,
                        f"make_metadata(frame with a {ser.dtype} column, object_encoding={oe!r} as one text / per column) raises: write() builds the metadata "
                        "before write_simple / write_multi open the target (write.metadata_is_built_before_the_target_is_touched), so the refusal leaves an "
                        "existing dataset as it was" + ("" if ok else f" - {res2}")))
    return out


def empty_rows(fp, pd, np):
    """empty.view_shape_is_size[kind|size=n] / empty.view_aliases_frame[kind|size=n]: dataframe.empty(types, size, ...) for each column / index kind the
    reader allocates x sizes 0..3: every fill view has exactly `size` slots along ONE axis and writing through it shows in the frame"""
    from fastparquet import dataframe
    col_kinds = [("int64", "int64", {}), ("float64", "float64", {}), ("bool", "bool", {}), ("text (object)", "O", {}), ("datetime64[us]", "M8[us]", {}),
                 ("datetime64[ns]", "M8[ns]", {}), ("datetime64[us, Europe/Paris]", "M8[us]", {"timezones": {"x": "Europe/Paris"}}),
                 ("datetime64[ns, UTC]", "M8[ns]", {"timezones": {"x": "UTC"}}), ("datetime64[us, +05:30]", "M8[us]", {"timezones": {"x": "+05:30"}}),
                 ("timedelta64[us]", "m8[us]", {}), ("category", "category", {"cats": {"x": 3}}), ("Int32", pd.Int32Dtype(), {}),
                 ("UInt8", pd.UInt8Dtype(), {}), ("boolean", pd.BooleanDtype(), {})]
    idx_kinds = [("int64 index", ["int64"], ["i"], {}), ("datetime64[us] index", ["M8[us]"], ["i"], {}),
                 ("datetime64[us, Europe/Paris] index", ["M8[us]"], ["i"], {"timezones": {"i": "Europe/Paris"}}),
                 ("category index", ["category"], ["i"], {"cats": {"i": 3}}), ("text (object) index", ["O"], ["i"], {}),
                 ("two-level index", ["int64", "O"], ["i", "j"], {})]

    def sample(view_dtype, n, kind):
        if kind == "O":
            return np.array(["v%d" % k for k in range(n)], dtype=object)
        if kind == "b":
            return np.array([k % 2 == 0 for k in range(n)])
        if kind in "Mm":
            return (np.arange(n, dtype="int64") * 86400 * 10 ** 6 + 10 ** 15).astype("int64").view(view_dtype) if np.dtype(view_dtype).kind in "Mm" else None
        return (np.arange(n) % 3).astype(view_dtype)

    def check_view(view, n):
        """-> (shape message or None, kind of raw array, raw array)"""
        if hasattr(view, "_data") and hasattr(view, "_mask") and not isinstance(view, np.ndarray):
            if view._data.shape != (n,) or view._mask.shape != (n,):
                return f"masked pair of shapes {view._data.shape} / {view._mask.shape}", None
            return None, view._data
        if not isinstance(view, np.ndarray) and hasattr(view, "_ndarray"):          # DatetimeArray / TimedeltaArray row of a datetime-like block
            if view.shape != (n,) or view._ndarray.shape != (n,):
                return f"{type(view).__name__} of shape {view.shape}", None
            return None, view._ndarray
        if not isinstance(view, np.ndarray):
            return f"view is a {type(view).__name__}", None
        if view.shape != (n,):
            return f"view of shape {view.shape}", None
        return None, view

    def frame_values(df, name, as_index, kind):
        s = df.index.get_level_values(name) if as_index else df[name]
        if isinstance(s.dtype, pd.CategoricalDtype):
            return np.asarray(s.codes if as_index else s.cat.codes)
        if isinstance(s.dtype, pd.DatetimeTZDtype):
            s = s.tz_convert("UTC").tz_localize(None) if as_index else s.dt.tz_convert("UTC").dt.tz_localize(None)
        if hasattr(s.dtype, "numpy_dtype") and not as_index:
            return s.to_numpy(dtype=s.dtype.numpy_dtype, na_value=0)
        return np.asarray(s)
    cases = [(lab, [t], ["x"], None, None, kw, "x", False) for lab, t, kw in col_kinds] + \
            [(lab, ["int64"], ["x"], its, ins, kw, ins[-1], True) for lab, its, ins, kw in idx_kinds]
    out = []
    for lab, types, cols, its, ins, kw, target, as_index in cases:
        for n in (0, 1, 2, 3):
            t0 = time.time()
            tag = f"[{lab}|size={n}]"
            why_shape = why_alias = None
            try:
                df, views = dataframe.empty(list(types), n, cols=list(cols), index_types=its, index_names=ins, **kw)
                if len(df) != n:
                    why_shape = f"frame of {len(df)} rows"
                names = list(cols) + list(ins or [])
                raws = {}
                for nm in names:
                    w, raw = check_view(views[nm], n)
                    if w and not why_shape:
                        why_shape = f"views[{nm!r}]: {w} instead of ({n},)"
                    raws[nm] = raw
                if not why_shape:
                    raw = raws[target]
                    two_level = as_index and len(ins) > 1
                    vals = sample(raw.dtype, n, raw.dtype.kind)
                    if two_level:
                        for k_, nm in enumerate(ins):       # codes of a MultiIndex under construction: labels arrive through <name>-catdef
                            views[nm][:] = (np.arange(n) % 2)
                            views[nm + "-catdef"]._set_categories(pd.Index([10, 20]) if k_ == 0 else pd.Index(["p", "q"]))
                        got = np.asarray(df.index.get_level_values(target))
                        want = np.array(["p", "q"], dtype=object)[np.arange(n) % 2]
                        if list(got) != list(want):
                            why_alias = f"index level {target}: {list(got)} instead of {list(want)}"
                    else:
                        raw[:] = vals
                        if hasattr(views[target], "_mask") and not isinstance(views[target], np.ndarray):
                            views[target]._mask[:] = False
                        got = frame_values(df, target, as_index, raw.dtype.kind)
                        if len(got) != n or any(a != b for a, b in zip(np.asarray(got).view("int64") if raw.dtype.kind in "Mm" else got,
                                                                       vals.view("int64") if raw.dtype.kind in "Mm" else vals)):
                            why_alias = f"wrote {list(vals)[:3]} through views[{target!r}], the frame shows {list(got)[:3]}"
            except Exception as ex:
                why_shape = why_shape or f"raises {type(ex).__name__}: {str(ex)[:100]}"
            out.append(("empty.view_shape_is_size" + tag, REFUTED if why_shape else PROVED, {"why": why_shape} if why_shape else None, time.time() - t0, EXEC,
                        f"dataframe.empty(.., size={n}): the frame has {n} rows and every fill view (data column, index level) is one-dimensional with exactly "
                        f"{n} slots (nullable dtypes: the values / mask pair)" + (f" - {why_shape}" if why_shape else "")))
            if not why_shape:
                out.append(("empty.view_aliases_frame" + tag, REFUTED if why_alias else PROVED, {"why": why_alias} if why_alias else None, 0.0, EXEC,
                            "values written through the view are the values of the frame's column / index (the reader fills the frame ONLY through "
                            "the views)" + (f" - {why_alias}" if why_alias else "")))
    return out


# =================================================================================================================================
#  check
# =================================================================================================================================
def check(ctx, timeout=10000, side="both", only=None, families=None, table_parts=None):
    """side: 'writer' (C02) | 'both' (C01, C17).  families: None = all of the side, else the family-name prefixes to run (C06: pre_allocate,
    C07: dtypes, C18: infer_object_encoding / find_type / write / make_metadata).  Every family runs on its own (guard)."""
    out = []

    def fam(name, thunk):
        if only and only not in name:
            return
        if families is not None and not name.startswith(tuple(families)):
            return
        out.extend(guard(name, thunk))
    mods = {}

    def mod(rel):
        if rel not in mods:
            mods[rel] = parse_module("fastparquet/" + rel)
        return mods[rel]

    def reg(rel, *qns):
        for qn in qns:
            f = mod(rel)[0].get(qn)
            if f is None:
                raise Unsupported(f"{rel[:-3]}.{qn} no longer exists")
            ctx.function(f"{rel[:-3]}.{qn}", f.sha, f.report)

    def wfuncs():
        load_specs()
        reg("writer.py", "make_metadata")
        return dict(mod("writer.py")[0])
    for scen in SCENARIOS:
        tag = "[defaults]" if scen[4] else f"[labels={scen[0]},index={scen[1]}]"
        fam("make_metadata" + tag, lambda scen=scen: run_make_metadata(ctx, wfuncs(), timeout, scen))
    def ufuncs(*qns):
        reg("util.py", *qns)
        return dict(mod("util.py")[0])

    def afuncs(*qns):
        reg("api.py", *["ParquetFile." + q for q in qns])
        return dict(mod("api.py")[0])
    fam("norm_col_name", lambda: run_norm_col_name(ctx, ufuncs("norm_col_name"), timeout))
    fam("find_type", lambda: (reg("writer.py", "find_type"), run_find_type_tail(ctx, dict(mod("writer.py")[0]), timeout))[1])
    fam("infer_object_encoding", lambda: (reg("writer.py", "infer_object_encoding"), run_infer_object_encoding(ctx, dict(mod("writer.py")[0]), timeout))[1])
    fam("write", lambda: (reg("writer.py", "write"), run_write_callsite(ctx, dict(mod("writer.py")[0]), timeout))[1])
    fam("check_column_names", lambda: run_check_column_names(ctx, ufuncs("check_column_names"), timeout))
    if side == "both":
        fam("columns", lambda: run_columns(ctx, afuncs("columns"), timeout))
        fam("get_index", lambda: run_get_index(ctx, afuncs("_get_index"), timeout))
        fam("set_attrs", lambda: run_set_attrs(ctx, afuncs("_set_attrs"), timeout))
        fam("parse_header", lambda: run_parse_header(ctx, afuncs("_parse_header"), timeout))
        fam("pandas_metadata", lambda: run_pandas_metadata(ctx, afuncs("pandas_metadata", "has_pandas_metadata"), timeout))
        fam("check_categories", lambda: run_check_categories(ctx, afuncs("check_categories"), timeout))
        for mode in ("computed", "override"):
            fam(f"dtypes[{mode}]", lambda mode=mode: run_dtypes(ctx, afuncs("_dtypes"), timeout, mode))
        fam("typemap", lambda: (reg("converted_types.py", "typemap"), run_typemap_md(ctx, dict(mod("converted_types.py")[0]), timeout))[1])
        fam("pre_allocate", lambda: (reg("api.py", "_pre_allocate", "_pre_allocate.get_type"), run_pre_allocate(ctx, dict(mod("api.py")[0]), timeout))[1])

    def tables():
        for rel, qns in (("util.py", ("get_column_metadata", "get_numpy_type", "reset_row_idx")),
                         ("api.py", ("ParquetFile.pre_allocate", "_pre_allocate")), ("dataframe.py", ("empty", "tz_to_dt_tz"))):
            if side == "writer" and rel != "util.py":
                continue
            for qn in qns:
                f = mod(rel)[0].get(qn)
                if f is not None:
                    ctx.function(f"{rel[:-3]}.{qn}", f.sha, dict(f.report, mode="executed, not symbolically"))
        return run_tables(ctx, side, table_parts)
    fam("tables", tables)
    return out


# =================================================================================================================================
#  which property carries which obligation; recorded findings; native replay
# =================================================================================================================================
def props_of(name):
    if name.startswith("dtypes.null_scan."):
        return ("C17", "C01", "C07")
    if name.startswith(("pre_allocate.", "empty.")):
        return ("C06", "C17", "C01")
    if name.startswith(("infer_object_encoding.", "make_metadata.refuses_uninferable", "find_type.object_encoding_is_inferred", "find_type.refusal_of",
                        "write.metadata_is_built_before", "make_metadata.refusal_of", "find_type.refuses_unsupported_dtype",
                        "make_metadata.refuses_unsupported_dtype")) or ".refusal_of_find_type_propagates" in name:
        return ("C18", "C01", "C17", "C02")
    if name.startswith("get_column_metadata."):
        return ("C02",)
    if name.startswith(("make_metadata", "norm_col_name.", "find_type.", "check_column_names.", "write.")):
        return ("C01", "C02", "C17")
    if name.startswith(("dtypes.", "check_categories.", "typemap.")):
        return ("C17",)
    return ("C01", "C17")            # metadata.* columns.* get_index.* set_attrs.* parse_header.* pandas_metadata.* has_pandas_metadata.*


def function_of(name):
    for pre, fn in (("make_metadata", "writer.make_metadata"), ("norm_col_name", "util.norm_col_name"), ("find_type", "writer.find_type"),
                    ("check_column_names", "util.check_column_names"), ("write.", "writer.write"), ("infer_object_encoding", "writer.infer_object_encoding"),
                    ("pre_allocate.get_type", "api._pre_allocate.get_type"), ("pre_allocate.", "api._pre_allocate"), ("get_column_metadata", "util.get_column_metadata"),
                    ("columns.", "api.ParquetFile.columns"), ("get_index.", "api.ParquetFile._get_index"), ("ParquetFile._get_index", "api.ParquetFile._get_index"),
                    ("set_attrs.", "api.ParquetFile._set_attrs"), ("parse_header.", "api.ParquetFile._parse_header"),
                    ("pandas_metadata.", "api.ParquetFile.pandas_metadata"), ("has_pandas_metadata.", "api.ParquetFile.has_pandas_metadata"),
                    ("check_categories.", "api.ParquetFile.check_categories"), ("dtypes.", "api.ParquetFile._dtypes"), ("typemap.", "converted_types.typemap"),
                    ("empty.", "dataframe.empty"), ("metadata.", "api.ParquetFile._dtypes")):
        if name.startswith(pre):
            return fn
    return "?"


_NULLABLE_IDX = r"(Int8|Int16|Int32|UInt8|UInt16|UInt32|UInt64|boolean)"
# (finding id WITHOUT the property prefix, properties it is recorded for, regex over obligation names).  Every region is exact: the named
# obligations are refuted on the unchanged tree, their companions / sibling rows are proved.
_KNOWN = [
    ("P-multiindex-columns-index-column-name-mismatch", ("C01", "C02", "C17"),
     re.compile(r"^make_metadata\[labels=tuple,index=list\]\.pandas\.column_entry_name_is_schema_element_name$|"
                r"^metadata\.roundtrip_names\[MultiIndex columns, datetime index\]$")),
    ("P-multiindex-columns-tuple-name-in-schema-crashes", ("C01", "C02", "C17"),
     re.compile(r"^make_metadata\[labels=tuple,index=(list|range)\]\.schema\.element_name_is_text$|"
                r"^make_metadata\[labels=tuple,index=range\]\.pandas\.column_entry_name_is_schema_element_name$|"
                r"^make_metadata\[labels=tuple,index=list\]\.pandas\.index_columns_one_entry_per_index_column$")),
    ("P-index-column-named-in-partition-on", ("C01", "C02", "C17"),
     re.compile(r"^make_metadata\[labels=(text|tuple),index=list\]\.pandas\.index_columns_are_written_columns$|"
                r"^get_index\.every_name_is_a_column_of_the_file$|^metadata\.roundtrip_names\[index column also named in ignore_columns")),
    ("P-ordered-categorical-index-read-unordered", ("C01", "C17"), re.compile(r"^metadata\.allocated_is_predicted\[category\[text, ordered\] as index\]$")),
    ("P-nullable-integer-index-read-as-int64", ("C01", "C17"), re.compile(r"^metadata\.allocated_is_predicted\[" + _NULLABLE_IDX + r" as index\]$")),
    ("P-fixed-offset-zone-named-like-a-zone", ("C01", "C02", "C17"),
     re.compile(r"^(metadata\.roundtrip_dtype|get_column_metadata\.entry_matches_pandas_spec)\[datetime64\[us, fixed \+01:00 named CET\]( as index)?\]$")),
    ("P-pandas-type-timedelta64-not-in-pandas-spec", ("C02",), re.compile(r"^get_column_metadata\.entry_matches_pandas_spec\[timedelta64\[(s|ms|us|ns)\]\]$")),
    ("P-dtypes-null-statistics-chunk-index-is-field-index", ("C17",),
     re.compile(r"^dtypes\.column_independence\.null_statistics_are_those_of_the_columns_own_chunk$")),
    ("P-dtypes-attribute-overwritten-by-explicit-categories", ("C17",),
     re.compile(r"^dtypes\.answer_for_explicit_categories_does_not_replace_the_handles_answer\[(computed|override)\]$")),
]
_KNOWN_OTHER = [          # findings recorded elsewhere (bounded layer) that these obligations re-derive
    ("C17-open-with-dtypes-override-drops-timezone", ("C17",), re.compile(r"^dtypes\.override_is_honoured\[datetime64\[.*, .*\]\]$")),
    ("C17-pandas-nulls-false-dtype-is-a-scalar", ("C17",), re.compile(r"^dtypes\.every_answer_is_a_dtype$")),
]


def known_for(prop, name):
    for tail, props, rx in _KNOWN:
        if prop in props and rx.search(name):
            return f"{prop}-{tail}"
    for fid, props, rx in _KNOWN_OTHER:
        if prop in props and rx.search(name):
            return fid
    return None


# ---- native replay -------------------------------------------------------------------------------------------------------------------
def _subprocess_check(code, timeout=120):
    """run a snippet on the tree under check in a fresh interpreter (a crash of the interpreter is an observation, not an engine failure)"""
    import subprocess
    import sys
    pre = f"import sys, warnings\nwarnings.simplefilter('ignore')\nsys.path.insert(0, {REPO!r})\n"
    r = subprocess.run([sys.executable, "-c", pre + code], capture_output=True, text=True, timeout=timeout)
    return r.returncode, (r.stdout + r.stderr)[-600:]


NATIVE_WRITER = r'''
import json, numpy as np, pandas as pd
from fastparquet import writer, parquet_thrift
from fastparquet.util import get_column_metadata
bad = []
df = pd.DataFrame({"z": [1, 2], "b": ["u", None], "A": pd.Categorical(["p", "q"]), "m": [1.5, 2.5], "_t": pd.to_datetime(["2020-01-01", "2020-01-02"])})
df["b"] = df["b"].astype(object)
for hn, want in ((True, lambda c: 1), (False, lambda c: 0), (None, lambda c: int(df[c].dtype == "O")), (["b", "m"], lambda c: int(c in ("b", "m")))):
    for ign in ([], ["A"], ["z", "m"]):
        fmd = writer.make_metadata(df, has_nulls=hn, ignore_columns=ign, index_cols=["z"] if "z" not in ign else [], partition_cols=ign,
                                   object_encoding={"b": "utf8"}, fixed_text=None)
        cols = [c for c in df.columns if c not in ign]
        sc = fmd.schema
        names = [s.name if isinstance(s.name, str) else s.name.decode() for s in sc[1:]]
        if names != cols: bad.append(f"has_nulls={hn} ignore={ign}: schema names {names} instead of {cols}")
        if sc[0].num_children != len(sc) - 1 or len(sc) - 1 != len(cols): bad.append(f"has_nulls={hn} ignore={ign}: root.num_children {sc[0].num_children}, {len(sc) - 1} elements, {len(cols)} written columns")
        for s, c in zip(sc[1:], cols):
            if s.repetition_type != want(c): bad.append(f"has_nulls={hn}: column {c} repetition_type {s.repetition_type} instead of {want(c)}")
            ser = df[c].cat.categories if isinstance(df[c].dtype, pd.CategoricalDtype) else df[c]
            se, _ = writer.find_type(ser, object_encoding="utf8" if c == "b" else None)
            if (s.type, s.converted_type, s.type_length) != (se.type, se.converted_type, se.type_length): bad.append(f"column {c}: element is not find_type's")
        pm = json.loads(fmd.key_value_metadata[0].value)
        if fmd.key_value_metadata[0].key not in (b"pandas", "pandas"): bad.append("key is not pandas")
        if [c["name"] for c in pm["columns"]] != cols: bad.append(f"ignore={ign}: pandas columns {[c['name'] for c in pm['columns']]} instead of {cols}")
        for c in pm["columns"]:
            ref = get_column_metadata(df[c["name"]], c["name"], object_dtype="utf8" if c["name"] == "b" else None)
            if c != json.loads(json.dumps(ref)): bad.append(f"pandas entry of {c['name']} is not get_column_metadata's")
        if [c["name"] for c in pm["partition_columns"]] != ign: bad.append(f"partition_columns {pm['partition_columns']}")
        if pm["index_columns"] != (["z"] if "z" not in ign else []): bad.append(f"index_columns {pm['index_columns']}")
        if fmd.num_rows != len(df): bad.append("num_rows")
        if set(pm) != {"index_columns", "column_indexes", "columns", "creator", "pandas_version", "partition_columns"} or pm["creator"]["library"] != "fastparquet": bad.append("block keys / creator")
fmd = writer.make_metadata(df, index_cols=pd.RangeIndex(3, 9, 2, name="r"))
ic = json.loads(fmd.key_value_metadata[0].value)["index_columns"]
if ic != [{"kind": "range", "name": "r", "start": 3, "stop": 9, "step": 2}]: bad.append(f"RangeIndex stored as {ic}")
try:
    writer.make_metadata(pd.DataFrame([[1, 2]], columns=["a", "a"])); bad.append("duplicate column names accepted")
except ValueError: pass
print("NATIVE", json.dumps(bad))
'''

NATIVE_WRITE = r'''
import json, os, tempfile, numpy as np, pandas as pd
from fastparquet import write, ParquetFile
bad = []
d = tempfile.mkdtemp()
def footer(df, **kw):
    p = os.path.join(d, "f.parq"); write(p, df, **kw); pf = ParquetFile(p)
    return [s.name for s in pf._schema[1:]], pf.pandas_metadata
df = pd.DataFrame({"b": [1, 2], "a": ["u", "v"]}, index=pd.Index([10, 20], name="idx"))
names, pm = footer(df)
if names != ["idx", "b", "a"] or pm["index_columns"] != ["idx"] or [c["name"] for c in pm["columns"]] != names: bad.append(f"named index: schema {names}, index_columns {pm['index_columns']}, columns {[c['name'] for c in pm['columns']]}")
names, pm = footer(df, write_index=False)
if names != ["b", "a"] or pm["index_columns"] != []: bad.append(f"write_index=False: schema {names}, index_columns {pm['index_columns']}")
df2 = pd.DataFrame({"b": [1, 2], "a": ["u", "v"]})
names, pm = footer(df2)
if names != ["b", "a"] or pm["index_columns"] != [{"kind": "range", "name": None, "start": 0, "stop": 2, "step": 1}]: bad.append(f"RangeIndex: schema {names}, index_columns {pm['index_columns']}")
names, pm = footer(df2, write_index=True)
if names != ["index", "b", "a"] or pm["index_columns"] != ["index"]: bad.append(f"write_index=True: schema {names}, index_columns {pm['index_columns']}")
if pm["column_indexes"][0]["numpy_type"] != str(df2.columns.dtype): bad.append(f"column_indexes numpy_type {pm['column_indexes'][0]['numpy_type']} instead of {df2.columns.dtype}")
p = os.path.join(d, "h"); write(p, df2.assign(k=["x", "y"]), file_scheme="hive", partition_on=["k"]); pf = ParquetFile(p)
if [s.name for s in pf._schema[1:]] != ["b", "a"] or [c["name"] for c in pf.pandas_metadata["partition_columns"]] != ["k"]: bad.append("hive: partition column in the schema / no partition_columns record")
try:
    write(os.path.join(d, "x.parq"), df2, has_nulls=["nope"]); bad.append("has_nulls naming a missing column accepted")
except ValueError: pass
print("NATIVE", json.dumps(bad))
'''

NATIVE_APPEND = r'''
import json, os, tempfile, numpy as np, pandas as pd
from fastparquet import write, ParquetFile
bad = []
for scheme in ("simple", "hive"):
    p = os.path.join(tempfile.mkdtemp(), "d.parq" if scheme == "simple" else "d")
    write(p, pd.DataFrame({"id": pd.Series([1, 2, 3], dtype=object), "v": [1.0, 2.0, 3.0]}), file_scheme=scheme)
    write(p, pd.DataFrame({"id": pd.Series([4, 5, 6], dtype=object), "v": [4.0, 5.0, 6.0]}), file_scheme=scheme, append=True)
    write(p, pd.DataFrame({"id": pd.Series([7, None, 9], dtype=object), "v": [7.0, 8.0, 9.0]}), file_scheme=scheme, append=True)
    pf = ParquetFile(p)
    try:
        out = pf.to_pandas()
        if out["id"].isna().sum() != 1 or len(out) != 9: bad.append(f"{scheme}: read after append has {out['id'].isna().sum()} nulls in {len(out)} rows")
    except Exception as ex:
        bad.append(f"{scheme}: nulls only in the THIRD row group: handle announces id as {pf.dtypes['id']}; to_pandas raises {type(ex).__name__}: {str(ex)[:80]}")
print("NATIVE", json.dumps(bad))
'''

NATIVE_SUBSET = r'''
import json, os, tempfile, numpy as np, pandas as pd
from fastparquet import write, ParquetFile
bad = []
p = os.path.join(tempfile.mkdtemp(), "s.parq")
df = pd.DataFrame({"i": [1, 2, 3], "f": [1.5, 2.5, 3.5], "s": ["a", "b", "c"], "t": pd.to_datetime(["2020-01-01", "2020-01-02", "2020-01-03"])})
write(p, df)
pf = ParquetFile(p)
for req in (["f", "i"], ["t", "s", "f", "i"], ["s", "i"], ["i", "f"]):
    try:
        out = ParquetFile(p).to_pandas(columns=list(req))
        same = list(out.columns) == req and all(out[c].tolist() == df[c].tolist() and (df[c].dtype.kind in "OTU" or str(out[c].dtype) == str(df[c].dtype)) for c in req)
        if not same: bad.append(f"columns={req}: dtypes {dict(out.dtypes.astype(str))}, values {out.iloc[0].tolist()} instead of {df[req].iloc[0].tolist()}")
    except Exception as ex:
        bad.append(f"columns={req}: raises {type(ex).__name__}: {str(ex)[:80]}")
print("NATIVE", json.dumps(bad))
'''

NATIVE_REFUSE = r'''
import json, os, tempfile, hashlib, numpy as np, pandas as pd
from fastparquet import write, ParquetFile
bad = []
p = os.path.join(tempfile.mkdtemp(), "old.parq")
write(p, pd.DataFrame({"x": ["a", "b"]}))
before = hashlib.sha256(open(p, "rb").read()).hexdigest()
cases = [(label, pd.DataFrame({"x": pd.Series(vals, dtype=object)}), {}) for label, vals in
         (("tuples", [(1, 2), (3, 4)]), ("sets", [{1}, {2}]), ("complex", [1j, 2j]), ("text and int", ["a", 1]))]
per = pd.DataFrame({"x": pd.period_range("2020-01-01", periods=2, freq="D")})
itv = pd.DataFrame({"x": pd.interval_range(0, 2)})
cases += [("period column", per, {}), ("period column, object_encoding=utf8", per, {"object_encoding": "utf8"}),
          ("period column, object_encoding={x: json}", per, {"object_encoding": {"x": "json"}}), ("interval column, object_encoding=bytes", itv, {"object_encoding": "bytes"}),
          ("complex128 column, object_encoding=float", pd.DataFrame({"x": np.array([1j, 2j])}), {"object_encoding": "float"})]
for label, frame, kw in cases:
    try:
        write(p, frame, **kw)
        bad.append(f"{label}: the write is accepted")
    except Exception as ex:
        after = hashlib.sha256(open(p, "rb").read()).hexdigest() if os.path.exists(p) else None
        if after != before:
            bad.append(f"{label}: refused with {type(ex).__name__} but the existing file was {'removed' if after is None else 'overwritten'} ({os.path.getsize(p) if after else 0} bytes left)")
            write(p, pd.DataFrame({"x": ["a", "b"]})); before = hashlib.sha256(open(p, "rb").read()).hexdigest()
print("NATIVE", json.dumps(bad))
'''

NATIVE_ONEROW = r'''
import json, os, tempfile, numpy as np, pandas as pd
from fastparquet import write, ParquetFile
bad = []
p = os.path.join(tempfile.mkdtemp(), "t.parq")
df = pd.DataFrame({"i": range(7), "t": pd.date_range("2020-01-01", periods=7, freq="D", tz="Europe/Paris"), "n": pd.date_range("2020-01-01", periods=7, freq="D"),
                   "c": pd.Categorical(list("abcabca")), "m": pd.array([1, None, 3, 4, 5, 6, 7], dtype="Int32")})
write(p, df, row_group_offsets=[0, 3, 4])
pf = ParquetFile(p)
for k, (a, b) in enumerate(((0, 3), (3, 4), (4, 7))):
    try:
        out = pf[k].to_pandas()
        if len(out) != b - a or out["t"].tolist() != df["t"].iloc[a:b].tolist() or out["i"].tolist() != df["i"].iloc[a:b].tolist():
            bad.append(f"row group {k} ({b - a} row(s)): read differs from rows {a}:{b} of the full frame")
    except Exception as ex:
        bad.append(f"row group {k} ({b - a} row(s)) with a tz-aware column: pf[{k}].to_pandas() raises {type(ex).__name__}: {str(ex)[:80]} (count() == {pf[k].count()})")
try:
    h = pf.head(1)
    if len(h) != 1: bad.append("head(1)")
except Exception as ex:
    bad.append(f"head(1) raises {type(ex).__name__}: {str(ex)[:80]}")
print("NATIVE", json.dumps(bad))
'''

NATIVE_READER = r'''
import json, numpy as np, pandas as pd
from fastparquet import writer, api
from fastparquet.cencoding import from_buffer
bad = []
def stub(fmd, **kw):
    pf = object.__new__(api.ParquetFile)
    pf.pandas_nulls = kw.get("pandas_nulls", True); pf._base_dtype = kw.get("dtypes"); pf.tz = None; pf._columns_dtype = None
    pf.fn = None; pf.fmd = fmd; pf.open = None; pf._statistics = None
    pf._set_attrs(); return pf
df = pd.DataFrame({"z": [1, 2], "b": ["u", "v"], "A": pd.Categorical(["p", "q"]), "t": pd.to_datetime(["2020-01-01", "2020-01-02"]).tz_localize("Europe/Paris"),
                   "i": pd.array([1, None], dtype="Int32")})
fmd = from_buffer(writer.make_metadata(df, index_cols=["z"]).to_bytes(), "FileMetaData")
pf = stub(fmd)
if list(pf.columns) != list(df.columns): bad.append(f"pf.columns {pf.columns}")
if pf._get_index() != ["z"]: bad.append(f"_get_index() {pf._get_index()}")
if pf._get_index("b") != ["b"] or pf._get_index(["b", "z"]) != ["b", "z"] or pf._get_index(False) not in (False, []): bad.append("explicit index not honoured")
want = {"z": "int64", "b": "object", "A": "category", "t": "datetime64[us, Europe/Paris]", "i": "Int32"}
got = {k: str(v) for k, v in pf.dtypes.items()}
if got != want: bad.append(f"pf.dtypes {got}")
if dict(pf.categories) != {"A": 2}: bad.append(f"categories {pf.categories}")
before = dict(pf.dtypes)
pf._dtypes(categories=[])
if {k: str(v) for k, v in pf.dtypes.items()} != {k: str(v) for k, v in before.items()}: bad.append(f"pf.dtypes after _dtypes(categories=[]): {dict(pf.dtypes)}")
ov = dict(before, z=np.dtype("float32"), b="category")
pf2 = stub(fmd, dtypes=dict(ov))
if {k: str(v) for k, v in pf2.dtypes.items()} != {k: str(v) for k, v in ov.items()}: bad.append(f"override not honoured: {dict(pf2.dtypes)}")
fmd2 = from_buffer(writer.make_metadata(df, index_cols=["z"]).to_bytes(), "FileMetaData"); fmd2.key_value_metadata = []
pf3 = stub(fmd2)
if list(pf3.columns) != list(df.columns) or pf3._get_index() != [] or pf3.pandas_metadata != {} or pf3.has_pandas_metadata: bad.append("without pandas metadata: columns / index / block")
if pf3.check_categories(None) != {} or pf3.check_categories(["b"]) != ["b"]: bad.append("check_categories without pandas metadata")
if pf.check_categories(None) != {"A": 2} or set(pf.check_categories(["A", "b"])) != {"A", "b"} or pf.check_categories({"A": 5}) != {"A": 5}: bad.append("check_categories")
md = json.loads(fmd.key_value_metadata[0].value); md["index_columns"] = ["gone"]
fmd4 = from_buffer(writer.make_metadata(df, index_cols=["z"]).to_bytes(), "FileMetaData")
fmd4.key_value_metadata[0].value = json.dumps(md).encode()
pf4 = stub(fmd4)
if any(i not in pf4.columns for i in pf4._get_index()): bad.append(f"_get_index() {pf4._get_index()} names no column of {pf4.columns}")
print("NATIVE", json.dumps(bad))
'''

NATIVE_CHUNK = r'''
import sys, json
sys.path.insert(0, "/verif")
from spec import pqwrite as W
from fastparquet import ParquetFile
import tempfile, os
cols = [W.MapSpec("m", W.ColumnSpec("key", "BYTE_ARRAY", converted="UTF8"), W.ColumnSpec("value", "INT32", optional=True), optional=True),
        W.ColumnSpec("z", "INT64", optional=True)]
rg = {"m": [[("a", 1)], [("b", 2)], [("c", 3)]], "z": [1, None, 3]}
d = tempfile.mkdtemp(); fn = os.path.join(d, "mapz.parquet")
open(fn, "wb").write(W.encode_file(cols, [rg], layout=W.ChunkLayout(stats="null_count")))
pf = ParquetFile(fn)
bad = []
try:
    out = pf.to_pandas()
    if str(out["z"].dtype) != str(pf.dtypes["z"]): bad.append(f"handle says {pf.dtypes['z']}, read gives {out['z'].dtype}")
except Exception as ex:
    bad.append(f"handle says z: {pf.dtypes['z']} (null count taken from chunk 1 = m.key_value.value, 0 nulls; z's own chunk 2 has 1); the read raises {type(ex).__name__}: {str(ex)[:80]}")
print("NATIVE", json.dumps(bad))
'''

NATIVE_TUPLE = r'''
import json, numpy as np, pandas as pd
from fastparquet import writer
bad = []
mi = pd.MultiIndex.from_tuples([("a", "x"), ("a", "y")], names=["l0", "l1"])
df = pd.DataFrame({("a", "x"): pd.Categorical(["u", "v"]), ("a", "y"): [1, 2]}); df.columns = mi
fmd = writer.make_metadata(df, index_cols=df.index)
for s in fmd.schema[1:]:
    if not isinstance(s.name, (str, bytes)): bad.append(f"SchemaElement.name is {s.name!r} ({type(s.name).__name__})")
df2 = pd.DataFrame(np.arange(4).reshape(2, 2), columns=mi, index=pd.Index([10, 20], name="idx")).reset_index()
fmd = writer.make_metadata(df2, index_cols=[("idx", "")])
pm = json.loads(fmd.key_value_metadata[0].value)
if fmd.schema[1].name != pm["columns"][0]["name"]: bad.append(f"index column: schema element named {fmd.schema[1].name!r}, pandas entry named {pm['columns'][0]['name']!r}")
fmd = writer.make_metadata(df2.assign(**{"j": [1, 2]}), index_cols=[("idx", ""), ("j", "")])
pm = json.loads(fmd.key_value_metadata[0].value)
if len(pm["index_columns"]) != 2: bad.append(f"two index columns given, index_columns has {len(pm['index_columns'])} entries")
df3 = pd.DataFrame({"v": [1, 2, 3]}, index=pd.Index(["p", "q", "p"], name="idx")).reset_index()
fmd = writer.make_metadata(df3, index_cols=["idx"], ignore_columns=["idx"], partition_cols=["idx"])
pm = json.loads(fmd.key_value_metadata[0].value)
if "idx" in pm["index_columns"] and "idx" not in [s.name for s in fmd.schema[1:]]: bad.append("index column idx is named in index_columns but has no schema element (listed in ignore_columns)")
print("NATIVE", json.dumps(bad))
'''

NATIVE_SEGV = r'''
import pandas as pd, tempfile, os
from fastparquet import write
mi = pd.MultiIndex.from_tuples([("a", "x"), ("a", "y")], names=["l0", "l1"])
df = pd.DataFrame({("a", "x"): pd.Categorical(["u", "v"]), ("a", "y"): [1, 2]}); df.columns = mi
write(os.path.join(tempfile.mkdtemp(), "x.parq"), df)
print("WRITE RETURNED")
'''


KNOWN_NATIVE = ("after _dtypes(categories", "names no column of")          # messages of the two reader defects recorded as findings


def _native(code, only=None, without=()):
    try:
        rc, out = _subprocess_check(code)
    except Exception as ex:
        return None, f"native replay failed to run: {type(ex).__name__}: {ex}"
    line = next((l for l in out.splitlines() if l.startswith("NATIVE ")), None)
    if line is None:
        return None, f"native replay: interpreter exit code {rc}: {out[-300:]}"
    bad = [b for b in json.loads(line[7:]) if (only is None or only in b) and not any(w in b for w in without)]
    return bool(bad), "native: " + ("; ".join(bad)[:700] if bad else "all native checks pass")


EXEC_ROW = re.compile(r"^(pre_allocate\.allocation_follows|infer_object_encoding\.table\[|make_metadata\.refuses_uninferable)")


def is_executed_row(name):
    return name.startswith(("metadata.", "get_column_metadata.", "dtypes.override_is_honoured[", "empty.", "find_type.refuses_unsupported_dtype",
                            "make_metadata.refuses_unsupported_dtype")) or EXEC_ROW.match(name) is not None


def replay(name, model=None, cheap=False):
    """-> (confirmed on the real code: True / False / None = could not be run, text); cheap: an executed table row is its own native run"""
    if name.startswith(("metadata.", "get_column_metadata.", "dtypes.override_is_honoured[")) or (cheap and is_executed_row(name)):
        why = ((model or {}).get("why") or (model or {}).get("got")) if isinstance(model, dict) else None
        return True, "executed on the real functions (the table row IS the native run): " + str(why)[:400]
    if "element_name_is_text" in name:
        c, t = _native(NATIVE_TUPLE)
        try:
            rc, out = _subprocess_check(NATIVE_SEGV)
            t += f" | fastparquet.write of that frame: interpreter exit code {rc}" + (" (SIGSEGV in write_thrift)" if rc in (-11, 139) else "")
        except Exception:
            pass
        return c, t
    if name.startswith("make_metadata") and any(k in name for k in ("column_entry_name_is_schema_element_name", "index_columns_one_entry", "index_columns_are_written")):
        return _native(NATIVE_TUPLE)
    if name.startswith("dtypes.null_scan."):
        return _native(NATIVE_APPEND)
    if name.startswith("pre_allocate."):
        return _native(NATIVE_SUBSET)
    if name.startswith("empty."):
        return _native(NATIVE_ONEROW)
    if name.startswith(("infer_object_encoding.", "make_metadata.refuses_uninferable", "find_type.object_encoding_is_inferred", "find_type.refusal_of",
                        "write.metadata_is_built_before", "find_type.refuses_unsupported_dtype", "make_metadata.refuses_unsupported_dtype")) \
            or "refusal_of_find_type" in name:
        return _native(NATIVE_REFUSE)
    if name.startswith("write."):
        return _native(NATIVE_WRITE)
    if name.startswith(("make_metadata", "find_type.", "norm_col_name.", "check_column_names.")):
        return _native(NATIVE_WRITER)
    if "null_statistics_are_those_of_the_columns_own_chunk" in name:
        return _native(NATIVE_CHUNK)
    if name.startswith("get_index.every_name_is_a_column"):
        return _native(NATIVE_READER, only=KNOWN_NATIVE[1])
    if name.startswith("dtypes.answer_for_explicit_categories"):
        return _native(NATIVE_READER, only=KNOWN_NATIVE[0])
    return _native(NATIVE_READER, without=KNOWN_NATIVE)
