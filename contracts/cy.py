"""Common harness for contracts on the Cython kernels (cencoding.pyx / speedups.pyx): extraction through
vc.front_cy on every run, NumpyIO objects over memory regions, translation validation against the real .so."""
import os

import z3

from vc import front_cy
from vc.symexec import Engine, Path, Ref, CI, Ptr, View, PyI, PyB, LoopSpec, Opaque, CT
from vlib.common import REPO, sha

BV8 = z3.BitVecSort(8)
MemSort = z3.ArraySort(z3.IntSort(), BV8)

_cache = {}


def load(pyx="cencoding.pyx"):
    path = os.path.join(REPO, "fastparquet", pyx)
    key = (path, os.path.getmtime(path))
    if key not in _cache:
        _cache[key] = front_cy.parse_pyx(path)
    return _cache[key]


def engine(loops=None, inline=("*",), handlers=None, pyx="cencoding.pyx"):
    funcs, fields, consts = load(pyx)
    eng = Engine(funcs=funcs, inline=inline, loops=loops or {}, handlers=handlers or {})
    eng.class_fields = fields
    for name, (t, expr) in consts.items():
        ct = eng.ctype(t)
        if ct:
            eng.consts[name] = CI(z3.BitVecVal(int(expr, 0), ct[0]), ct[0], ct[1])
    return eng


def register(ctx, qualnames, pyx="cencoding.pyx"):
    funcs, _, _ = load(pyx)
    for q in qualnames:
        f = funcs[q]
        ctx.function(pyx.replace(".pyx", ".") + q, sha(f.text), dict(f.report, source_lines=list(f.lines), kind=f.kind, ret=f.ret))


def new_io(p, name, loc=None, nbytes=None, wf=True):
    """a NumpyIO over its own memory region `name`; wf: 0 <= loc <= nbytes (the class invariant after seek())"""
    loc = CI.var(name + "_loc", 32, False) if loc is None else loc
    nbytes = CI.var(name + "_nbytes", 32, False) if nbytes is None else nbytes
    size = nbytes.iv
    p.heap[name] = {"loc": loc, "nbytes": nbytes, "ptr": Ptr(name, z3.IntVal(0)),
                    "data": View(name, z3.IntVal(0), size)}
    p.mem[name] = z3.Const(name + "_mem", MemSort)
    p.rsize[name] = size
    p.pc += [loc.range_constraint(), nbytes.range_constraint()]
    if wf:
        p.pc.append(loc.iv <= nbytes.iv)
    return Ref(name, "NumpyIO")


def loc(p, name):
    """cursor of NumpyIO `name` as Int"""
    c = p.heap[name]["loc"]
    return c.iv if c.iv is not None else z3.BV2Int(c.bv, is_signed=False)


def nbytes(p, name):
    c = p.heap[name]["nbytes"]
    return c.iv if c.iv is not None else z3.BV2Int(c.bv, is_signed=False)


def arg(name, ctype, p=None):
    """symbolic C integer argument with an integer view"""
    from vc.symexec import CT
    bits, sg = CT[ctype]
    c = CI.var(name, bits, sg)
    if p is not None:
        p.pc.append(c.range_constraint())
    return c


def byte(p, region, idx):
    return z3.Select(p.mem[region], idx)


def u(bv):
    return z3.BV2Int(bv, is_signed=False)


def frame_unchanged(mem0, mem1, lo, hi, k):
    """memory outside [lo, hi) is unchanged (posed at Skolem index k)"""
    return z3.Implies(z3.Or(k < lo, k >= hi), z3.Select(mem1, k) == z3.Select(mem0, k))
