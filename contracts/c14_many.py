"""C14 - `util.metadata_from_many` (both code paths, structure only) and `util._get_fmd`, executed symbolically from the real
source of /repo/fastparquet/util.py.

Files are ABSTRACT objects: file k (0 <= k < N, N symbolic) has a FileMetaData with NRG(k) >= 0 row groups, a scheme, a schema,
a footer length HEAD(k), a length FLEN(k), a path and - from `analyse_paths` (ASSUMED) - a relative path.  Row-group (r of file f)
objects carry, per column chunk c, what the code assigned to `file_path`.  OFF(k) = NRG(0) + ... + NRG(k-1).

  many.row_groups_is_concatenation_in_file_list_order   the returned fmd.row_groups has OFF(N) elements and its element at position
        OFF(f) + r is (a copy of) row group r of file f - for ALL positions (posed at a Skolem position; whole view: nothing lost,
        nothing reordered, nothing extra).  On the footer-gathering path this includes "the pieces of fs.cat - a dict, iteration
        order ASSUMED arbitrary - are put back into the order of file_list".
  many.first_chunk_gets_relative_path / every_chunk_gets_relative_path     columns[0] (resp. every chunk) of that element has
        file_path == relative path of ITS file (prefixed to the chunk's own path when the file is itself a multi-file dataset)
  many.num_rows_is_sum_over_result_row_groups            fmd.num_rows = sum(rg.num_rows for rg in <the returned row_groups list>)
  many.verify_schema_differs_raises                      verify_schema and a returning path => every file's WHOLE `_schema` equals the
        first file's (so a differing one raised); many.verify_schema_raise_reachable
  many.fast_path.piece_covers_footer_and_trailer / fast.tail_holds_length_field / fast.piece_for_every_file   every byte string handed to _get_fmd
        ends with F ++ le32(|F|) ++ 'PAR1' completely (the re-fetch of too-short tails is sufficient)
  loop invariants `...invariant_on_entry / _preserved`: len == OFF(K) + R and every element placed so far is as above.
  get_fmd[|F| < 2**32].parses_exactly_footer    on the byte-file model, for EVERY footer length the 4-byte field can hold:
        content == body ++ F ++ le32(|F|) ++ 'PAR1' => from_buffer gets exactly F
"""
import ast

import z3

from vc import backends
from vc.front_py import parse_module
from vc.symexec import (Engine, Path, Opt, PyI, PyB, Str, Tup, Custom, Opaque, NoneV, NONE, Unsupported, BytesV, BUILTINS)
from vlib.common import PROVED, REFUTED, UNKNOWN
from .c04_sorted import (H, LSeq, Univ, register, ix, discharge_inst, h_comp, comp_over, h_all, h_any, h_zip, ListEngine, subst_v,
                         merge_v, _mentions, _assigned_names)
from .filemodel import FileH, Bts, concat, le32, le_value, eq_goal, h_struct_unpack, install_byte_constants, FILE_ASSUMED
from .util import Results, solve


ASSUMED = [
    "files are abstract: file k has NRG(k) >= 0 row groups, one relative path (analyse_paths: basepath is a prefix of every path, "
    "`path[len(basepath):].lstrip('/')` and the returned list both give the path relative to it), NCOLS >= 1 column chunks per row group",
    "api.ParquetFile(path, open_with=...) opens that file: its fmd / row_groups / file_scheme / _schema / _head_size are the file's",
    "fs.cat(paths, start=-n): a dict path -> the last n bytes of that file (the whole file if it is shorter), iteration order ARBITRARY; "
    "dict.update / comprehension / [] are Python's; max(d.values()) is an upper bound of the values",
    "every file is a Parquet file: content == body ++ F ++ le32(|F|) ++ 'PAR1' with |body| >= 4 and |F| >= 10; _get_fmd on such a tail "
    "returns that file's FileMetaData (its own contract get_fmd.parses_exactly_footer below); int(1.4 * n) == floor(14 n / 10)",
    "_get_fmd / api.ParquetFile return a freshly parsed FileMetaData on every call: row groups of different files are distinct objects "
    "(get_fmd.returns_a_fresh_object_every_call checks the source for a memoising decorator)",
    "copy.copy(x) is a shallow copy; a row group of a parsed footer whose list is empty may be None (`or []`)",
    "a `for` loop over a list is summarised by an invariant that is proved on entry and after an arbitrary iteration (all variables "
    "the body assigns are arbitrary at its start); universal facts are instantiated at the index terms of each query",
] + FILE_ASSUMED

N = z3.Int("n_files")
NCOLS = z3.Int("n_columns")
BLEN = z3.Int("len_basepath")
I, B = z3.IntSort(), z3.BoolSort()
ISPF = z3.Function("item_is_ParquetFile", I, B)
NRG = z3.Function("n_row_groups_of_file", I, I)
OFF = z3.Function("row_groups_before_file", I, I)
SIMPLE = z3.Function("file_scheme_is_simple", I, B)
EMPTY = z3.Function("file_scheme_is_empty", I, B)
HEAD = z3.Function("footer_len_of_file", I, I)
FLEN = z3.Function("len_of_file", I, I)
SCHEMA_EQ = z3.Function("schema_equals_first_files", I, B)
SLEN = z3.Function("schema_len", I, I)
NUMROWS = z3.Function("num_rows_of_row_group", I, I, I)
RGNONE = z3.Function("parsed_row_groups_is_None", I, B)
PERM = z3.Function("dict_iteration_order", I, I)


def prec(kind, pfile):
    """what a chunk's file_path is: kind 0 untouched, 1 relative path of file `pfile`, 2 that path + '/' + the chunk's own, 3 other"""
    return Tup([PyI(kind), PyI(pfile)])


def rec_eq(a, b):
    return z3.And(a.items[0].z == b.items[0].z, a.items[1].z == b.items[1].z)


def _same(a, b):
    return z3.is_true(z3.simplify(a == b))


# =================================================================================================
# values
# =================================================================================================
class Indexed(H):
    """proof-script object parametrised by a file index term k"""

    def __init__(self, k):
        self.k = z3.simplify(k) if z3.is_expr(k) else z3.IntVal(k)

    def subst(self, pairs):
        o = type(self).__new__(type(self))
        o.__dict__.update(self.__dict__)
        o.k = z3.simplify(z3.substitute(self.k, *pairs))
        return o

    def merge(self, c, other):
        if not (isinstance(other, Custom) and type(other.h) is type(self)):
            raise Unsupported("merge of different objects")
        o = type(self).__new__(type(self))
        o.__dict__.update(self.__dict__)
        o.k = z3.simplify(z3.If(c, self.k, other.h.k))
        return o

    def is_none(self, eng, p):
        return z3.BoolVal(False)

    def truth(self, eng, p):
        return z3.BoolVal(True)


class PathV(Indexed):
    def slice(self, eng, p, lo, hi, node):
        ok = hi is None and isinstance(lo, PyI) and lo.z.eq(BLEN)
        return Custom(PathTail(self.k, ok))

    def isinstance(self, eng, p, tn):
        return z3.BoolVal("str" in tn)


class PathTail(Indexed):
    def __init__(self, k, ok):
        super().__init__(k)
        self.ok = ok

    def call_method(self, eng, p, name, args, kw, node):
        if name == "lstrip" and self.ok and len(args) == 1 and isinstance(args[0], Str) and args[0].s == "/":
            return [(p, Custom(RelV(self.k)))]
        return [(p, Opaque(("path_op", name, next(eng.counter))))]


class RelV(Indexed):
    pass


class JoinedV(Indexed):
    def __init__(self, k, old):
        super().__init__(k)
        self.old = old


class Base(H):
    def len(self, eng, p):
        return PyI(BLEN)


class SchemeV(Indexed):
    def eq(self, eng, p, other):
        if isinstance(other, Str) and other.s == "simple":
            return SIMPLE(self.k)
        if isinstance(other, Str) and other.s == "empty":
            return EMPTY(self.k)
        return eng.fresh("scheme_eq", B)


class SchemaV(Indexed):
    def eq(self, eng, p, other):
        if isinstance(other, Custom) and isinstance(other.h, SchemaV):
            a, b = self.k, other.h.k
            if _same(a, b):
                return z3.BoolVal(True)
            if _same(b, z3.IntVal(0)):
                return SCHEMA_EQ(a)
            if _same(a, z3.IntVal(0)):
                return SCHEMA_EQ(b)
        raise Unsupported("schema compared with something that is not the first file's schema")

    def len(self, eng, p):
        return PyI(SLEN(self.k))


class FileK(Indexed):
    """item k of file_list (role 'item': a path or a ParquetFile, ISPF(k)) / the ParquetFile opened on it (role 'pf')"""

    def __init__(self, k, role):
        super().__init__(k)
        self.role = role

    def isinstance(self, eng, p, tn):
        if "ParquetFile" in tn:
            return ISPF(self.k) if self.role == "item" else z3.BoolVal(True)
        return z3.BoolVal(False)

    def slice(self, eng, p, lo, hi, node):        # an item used as a path string
        if self.role != "item":
            raise Unsupported("slice of a ParquetFile")
        eng.oblige(p, f"{eng.cur_func}.item_used_as_path_is_a_path", "safety", z3.Not(ISPF(self.k)), node)
        return PathV(self.k).slice(eng, p, lo, hi, node)

    def attr(self, eng, p, name):
        if self.role == "item":
            eng.oblige(p, f"{eng.cur_func}.attribute_taken_of_a_ParquetFile_item", "safety", ISPF(self.k), None)
        k = self.k
        if name == "fn":
            return Custom(PathV(k))
        if name == "fmd":
            return Custom(FMDv(k, raw=False))
        if name == "row_groups":
            return Custom(rglist(eng, p, k))
        if name == "file_scheme":
            return Custom(SchemeV(k))
        if name == "_schema":
            return Custom(SchemaV(k))
        if name == "_head_size":
            return PyI(HEAD(k))
        raise Unsupported("ParquetFile." + name)


class FMDv(Indexed):
    """the FileMetaData of file k: raw (parsed by _get_fmd), the one held by an opened ParquetFile, or a copy.copy of that"""

    def __init__(self, k, raw, copy_id=None):
        super().__init__(k)
        self.raw, self.copy_id = raw, copy_id

    def okey(self):
        return ("fmd", str(self.k), self.copy_id)

    def attr(self, eng, p, name):
        st = p.ghost.get(self.okey(), {})
        if name in st:
            return st[name]
        if name == "row_groups":
            lst = Custom(rglist(eng, p, self.k))
            if self.raw:
                p.pc.append(z3.Implies(RGNONE(self.k), NRG(self.k) == 0))
                return Custom(MaybeList(RGNONE(self.k), lst.h))
            return lst
        if name == "schema":
            return Custom(SchemaV(self.k))
        if name == "num_rows":
            return PyI(z3.Int("num_rows_field_of_file_" + str(self.k)))
        raise Unsupported("FileMetaData." + name)

    def setattr(self, eng, p, name, v):
        st = dict(p.ghost.get(self.okey(), {}))
        st[name] = v
        p.ghost[self.okey()] = st


class RGV(H):
    """a row-group object.  kind 'orig': row group r of file f as parsed (chunk paths in the global store path.ghost['opath']);
    'obj': a copy made by the code in this iteration (state in path.ghost[key]); 'sym': an element of a havoc'd list (fields are
    terms); 'mix': If(c, a, b)"""

    def __init__(self, kind, f=None, r=None, key=None, paths=None, c=None, a=None, b=None):
        self.kind, self.f, self.r, self.key, self.paths, self.c, self.a, self.b = kind, f, r, key, paths, c, a, b

    def subst(self, pairs):
        s = lambda t: z3.simplify(z3.substitute(t, *pairs))
        if self.kind == "mix":
            return RGV("mix", c=s(self.c), a=self.a.subst(pairs), b=self.b.subst(pairs))
        pf = self.paths
        return RGV(self.kind, s(self.f), s(self.r), self.key, (lambda c: subst_v(pf(c), pairs)) if pf else None)

    def merge(self, c, other):
        if not (isinstance(other, Custom) and isinstance(other.h, RGV)):
            raise Unsupported("merge of a row group with something else")
        return RGV("mix", c=c, a=self, b=other.h)

    def resolve(self, p):
        """-> (file, r, chunk -> path record) in the state of path p"""
        if self.kind == "mix":
            (f1, r1, p1), (f2, r2, p2) = self.a.resolve(p), self.b.resolve(p)
            c = self.c
            return z3.If(c, f1, f2), z3.If(c, r1, r2), (lambda ch: merge_v(c, p1(ch), p2(ch)))
        if self.kind == "sym":
            return self.f, self.r, self.paths
        if self.kind == "obj" and p.ghost[self.key]["cols"] == "copied":
            return self.f, self.r, p.ghost[self.key]["paths"]
        if self.kind == "obj" and p.ghost[self.key]["cols"] == "other":
            return self.f, self.r, (lambda ch: prec(3, -1))
        op, f, r = p.ghost["opath"], self.f, self.r
        return f, r, (lambda ch: op(f, r, ch))

    def is_none(self, eng, p):
        return z3.BoolVal(False)

    def attr(self, eng, p, name):
        if name == "num_rows":
            f, r, _ = self.resolve(p)
            return PyI(NUMROWS(f, r))
        if name == "columns":
            if self.kind == "mix":
                raise Unsupported("columns of a conditional row group")
            copied = self.kind == "obj" and p.ghost[self.key]["cols"] == "copied"
            if self.kind == "obj" and p.ghost[self.key]["cols"] == "other":
                raise Unsupported("columns of a row group whose column list was replaced by something unknown")
            out = LSeq(NCOLS, lambda c: Custom(ChunkV(self, c, copied)))
            out.loop = out.slice_loop = chunk_loop
            return Custom(out)
        raise Unsupported("RowGroup." + name)

    def setattr(self, eng, p, name, v):
        if name != "columns" or self.kind != "obj":
            raise Unsupported("assignment to RowGroup." + name)
        ok = False
        if isinstance(v, Custom) and isinstance(v.h, LSeq) and _same(v.h.n, NCOLS):
            c = z3.Int("ix_chunk_probe")
            e = v.h.at(c)
            ok = (isinstance(e, Custom) and isinstance(e.h, ChunkV) and e.h.copied and _same(e.h.c, c)
                  and e.h.owner.kind in ("orig", "obj") and _same(e.h.owner.f, self.f) and _same(e.h.owner.r, self.r))
        st = dict(p.ghost[self.key])
        st["cols"] = "copied" if ok else "other"
        op, f, r = p.ghost["opath"], self.f, self.r
        st["paths"] = (lambda ch: op(f, r, ch))         # a copied chunk starts with the original's file_path
        p.ghost[self.key] = st


class OldPath(H):
    def __init__(self, f, r, c):
        self.f, self.r, self.c = f, r, c

    def isinstance(self, eng, p, tn):
        return eng.fresh("old_path_is_str", B)

    def call_method(self, eng, p, name, args, kw, node):
        if name == "decode":
            return [(p, Custom(self))]
        raise Unsupported("file_path." + name)


class ChunkV(H):
    def __init__(self, owner, c, copied):
        self.owner, self.c, self.copied = owner, c, copied

    def subst(self, pairs):
        return ChunkV(self.owner.subst(pairs), z3.simplify(z3.substitute(self.c, *pairs)) if z3.is_expr(self.c) else self.c, self.copied)

    def attr(self, eng, p, name):
        if name == "file_path":
            return Custom(OldPath(self.owner.f, self.owner.r, self.c))
        raise Unsupported("ColumnChunk." + name)

    def setattr(self, eng, p, name, v):
        if name != "file_path":
            raise Unsupported("assignment to ColumnChunk." + name)
        o, c = self.owner, self.c
        rec = prec(3, -1)
        if isinstance(v, Custom) and isinstance(v.h, RelV):
            rec = prec(1, v.h.k)
        elif isinstance(v, Custom) and isinstance(v.h, JoinedV) and isinstance(v.h.old, OldPath) and \
                _same(v.h.old.f, o.f) and _same(v.h.old.r, o.r) and _same(v.h.old.c, c):
            rec = prec(2, v.h.k)
        if self.copied:
            if o.kind != "obj" or p.ghost[o.key]["cols"] != "copied":
                raise Unsupported("a copied chunk that does not belong to a copied row group")
            st = dict(p.ghost[o.key])
            old = st["paths"]
            st["paths"] = (lambda ch: merge_v(ch == c, rec, old(ch)))
            p.ghost[o.key] = st
        else:
            if o.kind not in ("orig", "obj"):
                raise Unsupported("assignment to a chunk of a row group of unknown origin")
            old, f, r = p.ghost["opath"], o.f, o.r
            p.ghost["opath"] = (lambda f2, r2, ch: merge_v(z3.And(f2 == f, r2 == r, ch == c), rec, old(f2, r2, ch)))


NO_ELT = Opaque("no element")


def merge_or(c, a, b):
    if b is NO_ELT:
        return a
    if a is NO_ELT:
        return b
    return merge_v(c, a, b)


class MList(H):
    """a mutable list object: its current contents (an LSeq) live in path.ghost[key]"""

    def __init__(self, key, file=None):
        self.key, self.file = key, file

    def cur(self, p):
        return p.ghost[self.key]

    def as_lseq(self, eng, p):
        return self.cur(p)

    def len(self, eng, p):
        return PyI(self.cur(p).n)

    def truth(self, eng, p):
        return self.cur(p).n > 0

    def is_none(self, eng, p):
        return z3.BoolVal(False)

    def isinstance(self, eng, p, tn):
        return z3.BoolVal("list" in tn)

    def getitem(self, eng, p, i, node):
        return self.cur(p).getitem(eng, p, i, node)

    def slice(self, eng, p, lo, hi, node):
        return self.cur(p).slice(eng, p, lo, hi, node)

    def call_method(self, eng, p, name, args, kw, node):
        L = self.cur(p)
        if name == "append" and len(args) == 1:
            v, n0, at0 = args[0], L.n, L.at
            p.ghost[self.key] = LSeq(n0 + 1, lambda j: merge_or(j == n0, v, at0(j)))
            return [(p, NONE)]
        if name == "extend" and len(args) == 1:
            x = args[0]
            if isinstance(x, Custom) and isinstance(x.h, MList):
                x = Custom(x.h.cur(p))
            if not (isinstance(x, Custom) and isinstance(x.h, LSeq)):
                raise Unsupported("extend with " + type(x).__name__)
            n0, at0, xs = L.n, L.at, x.h
            p.ghost[self.key] = LSeq(n0 + xs.n, lambda j: merge_or(j < n0, at0(j), xs.at(j - n0)))
            return [(p, NONE)]
        raise Unsupported("list." + name)

    def for_loop(self, eng, p, st):
        L = self.cur(p)
        if z3.is_int_value(L.n) and L.n.as_long() == 0:
            return [p]
        if self.file is None:
            raise Unsupported("for over a list built by the code")
        return rg_loop(eng, p, st, self)


class MaybeList(MList):
    """`row_groups` of a parsed footer: the list object, or None when the file has no row groups (`v.row_groups or []`)"""

    def __init__(self, none, ml):
        super().__init__(ml.key, ml.file)
        self.none = none

    def truth(self, eng, p):
        return z3.And(z3.Not(self.none), self.cur(p).n > 0)

    def is_none(self, eng, p):
        return self.none

    def for_loop(self, eng, p, st):
        eng.oblige(p, f"{eng.cur_func}.no_iteration_over_None@L{st.lineno}", "safety", z3.Not(self.none), st)
        return super().for_loop(eng, p, st)


def rglist(eng, p, k):
    """THE row-group list object of file k (the same object every time it is asked for)"""
    k = z3.simplify(k)
    key = ("rglist", str(k))
    if key not in p.ghost:
        p.ghost[key] = LSeq(NRG(k), lambda r: Custom(RGV("orig", k, z3.simplify(r))))
    return MList(key, file=k)


def mlists(p):
    return [k for k in p.ghost if isinstance(k, tuple) and k[0] in ("rglist", "newlist")]


# =================================================================================================
# loops
# =================================================================================================
def expected_legacy(f):
    return prec(z3.If(z3.Or(SIMPLE(f), EMPTY(f)), 1, 2), f)


CQ = z3.Int("ix_chunk_q")          # the arbitrary chunk of "every chunk"


def elem_conj(p, e, j, K, R, fast):
    """invariant / postcondition for the element e at position j of the accumulated list"""
    f, r, pf = e.h.resolve(p)
    cs = [0 <= f, 0 <= r, r < NRG(f), j == OFF(f) + r, z3.Or(f < K, z3.And(f == K, r < R))]
    exp = prec(1, f) if fast else expected_legacy(f)       # footer-gathering path: the files are single files, plain relative path
    cs.append(rec_eq(pf(z3.IntVal(0)), exp))
    cs.append(z3.Implies(z3.And(0 <= CQ, CQ < NCOLS), rec_eq(pf(CQ), exp)))
    return z3.And(*cs)


def inv_goal(eng, p, L, K, R, fast):
    j = ix(eng, "inv_j")
    e = L.at(j)
    if e is NO_ELT and z3.is_int_value(L.n) and L.n.as_long() == 0:
        return z3.IntVal(0) == OFF(K) + R
    if not (isinstance(e, Custom) and isinstance(e.h, RGV)):
        return z3.BoolVal(False)
    return z3.And(L.n == OFF(K) + R, z3.Implies(z3.And(0 <= j, j < L.n), elem_conj(p, e, j, K, R, fast)))


def havoc_acc(eng, p, key, K, R, fast):
    """the accumulated list becomes an ARBITRARY list satisfying the invariant for (K, R)"""
    t = next(eng.counter)
    hf, hr = z3.Function(f"elem_file!{t}", I, I), z3.Function(f"elem_rg!{t}", I, I)
    hk, hp = z3.Function(f"elem_path_kind!{t}", I, I, I), z3.Function(f"elem_path_file!{t}", I, I, I)
    n = OFF(K) + R
    L = LSeq(n, lambda j: Custom(RGV("sym", hf(j), hr(j), paths=(lambda c, j=j: prec(hk(j, c), hp(j, c))))))
    p.ghost[key] = L
    register(p, Univ(1, lambda tt: z3.Implies(z3.And(0 <= tt, tt < n), elem_conj(p, L.at(tt), tt, K, R, fast))), False)


def havoc_names(eng, p, st):
    for nm in _assigned_names(st.body) | {x.id for x in ast.walk(st.target) if isinstance(x, ast.Name)}:
        if nm in p.env:
            p.env[nm] = Opaque((nm, "havoc", next(eng.counter)))


def classify(eng, p, st, item):
    """trial run of the loop body (obligations discarded): which list does it grow / does it write chunk paths of originals?"""
    q = p.fork()
    n_ob = len(eng.oblig)
    before = {k: q.ghost[k] for k in mlists(q)}
    op0 = q.ghost["opath"]
    try:
        ends = []
        for b in eng.assign(st.target, item, q):
            ends += eng.block(st.body, [b])
    finally:
        del eng.oblig[n_ob:]
    grown = set()
    for r in ends:
        if r.ctl in (None, "continue"):
            grown |= {k for k in before if k in r.ghost and r.ghost[k] is not before[k]}
    return grown, any(r.ghost["opath"] is not op0 for r in ends if r.ctl in (None, "continue"))


def _affine_start(term, C):
    """term == start + C  ->  start (None if the element index is not the loop position plus a constant offset)"""
    start = z3.simplify(z3.substitute(term, (C, z3.IntVal(0))))
    return start if _same(term, start + C) else None


def chunk_loop(eng, p, st, seq):
    """for chunk in rg.columns[..]: executed for an arbitrary position C; the body may only write that chunk's file_path, so after
    the loop every chunk the loop COVERS (index start + C, 0 <= C < len) has what the chunk at C got, the others keep theirs"""
    C = ix(eng, "chunk")
    e = seq.at(C)
    start = _affine_start(e.h.c, C) if isinstance(e, Custom) and isinstance(e.h, ChunkV) else None
    if start is None:
        raise Unsupported("loop over something that is not a contiguous run of a row group's chunks")
    havoc_names(eng, p, st)
    n_pc = len(p.pc)
    p.pc += [0 <= C, C < seq.n]
    snap = {k: v for k, v in p.ghost.items() if isinstance(k, tuple) and k[0] == "rgobj"}
    op0 = p.ghost["opath"]
    ends = []
    for b in eng.assign(st.target, e, p):
        ends += eng.block(st.body, [b])
    outs = []
    covered = lambda ch: z3.And(ch - start >= 0, ch - start < seq.n)
    for r in ends:
        if r.ctl not in (None, "continue"):
            raise Unsupported("loop over chunks that leaves early")
        r.ctl = None
        r.pc[n_pc:] = [c for c in r.pc[n_pc:] if not _mentions(c, C)]
        for k, v in list(r.ghost.items()):
            if isinstance(k, tuple) and k[0] == "rgobj" and k in snap and v is not snap[k]:
                pf, pf0 = v["paths"], snap[k]["paths"]
                r.ghost[k] = dict(v, paths=(lambda ch, pf=pf, pf0=pf0: merge_v(covered(ch), subst_v(pf(ch), [(C, ch - start)]), pf0(ch))))
        if r.ghost["opath"] is not op0:
            op1 = r.ghost["opath"]
            r.ghost["opath"] = (lambda f2, r2, ch, op1=op1: merge_v(covered(ch), subst_v(op1(f2, r2, ch), [(C, ch - start)]), op0(f2, r2, ch)))
        havoc_names(eng, r, st)
        outs.append(r)
    return outs


def rg_loop(eng, p, st, ml):
    """for rg in <row groups of file f>"""
    f = ml.file
    L0 = ml.cur(p)
    R = ix(eng, "rg_r")
    e0 = L0.at(R)
    if not (isinstance(e0, Custom) and isinstance(e0.h, RGV) and e0.h.kind == "orig" and _same(e0.h.r, R) and _same(e0.h.f, f)):
        raise Unsupported("loop over a row-group list that no longer is the file's own")
    grown, writes = classify(eng, p, st, L0.at(R))
    fast = bool(p.ghost.get("fastpath"))
    if len(grown) > 1 or (grown and ml.key in grown):
        raise Unsupported("loop over row groups that grows several lists / the list it iterates")
    if grown:
        (acc,) = grown
        eng.oblige(p, f"{eng.cur_func}.rowgroup_loop[{'fast' if fast else 'legacy'}].invariant_on_entry", "inv", inv_goal(eng, p, p.ghost[acc], f, z3.IntVal(0), fast), st,
                   note="len == OFF(file) and every element placed so far is row group r of file f at OFF(f) + r with its chunk paths set")
        exit_path, body = p.fork(), p.fork()
        body.pc += [0 <= R, R < L0.n]
        havoc_acc(eng, body, acc, f, R, fast)
        havoc_names(eng, body, st)
        op0 = body.ghost["opath"]
        outs = []
        for b in eng.assign(st.target, L0.at(R), body):
            for r in eng.block(st.body, [b]):
                if r.ctl in (None, "continue"):
                    eng.oblige(r, f"{eng.cur_func}.rowgroup_loop[{'fast' if fast else 'legacy'}].invariant_preserved", "inv", inv_goal(eng, r, r.ghost[acc], f, R + 1, fast), st,
                               note="after an arbitrary iteration: one more row group of this file, in order, with its chunk paths set")
                    eng.oblige(r, f"{eng.cur_func}.rowgroup_loop[{'fast' if fast else 'legacy'}].inputs_not_modified", "inv", z3.BoolVal(r.ghost["opath"] is op0), st,
                               note="the accumulating loop works on copies: no chunk of an input row group is written")
                elif r.ctl == "break":
                    raise Unsupported("break in the row-group loop")
                else:
                    outs.append(r)
        havoc_acc(eng, exit_path, acc, f, L0.n, fast)
        havoc_names(eng, exit_path, st)
        return [exit_path] + outs
    # no list grows: the body (at most) writes chunk paths of THIS row group -> after the loop every row group r of the file has
    # what row group R got with R := r
    havoc_names(eng, p, st)
    n_pc = len(p.pc)
    p.pc += [0 <= R, R < L0.n]
    op0 = p.ghost["opath"]
    ends = []
    for b in eng.assign(st.target, L0.at(R), p):
        ends += eng.block(st.body, [b])
    outs = []
    for r in ends:
        if r.ctl not in (None, "continue"):
            raise Unsupported("row-group loop without accumulation that leaves early")
        r.ctl = None
        r.pc[n_pc:] = [c for c in r.pc[n_pc:] if not _mentions(c, R)]
        if r.ghost["opath"] is not op0:
            op1 = r.ghost["opath"]
            r.ghost["opath"] = (lambda f2, r2, ch, op1=op1: merge_v(z3.And(0 <= r2, r2 < L0.n), subst_v(op1(f2, r2, ch), [(R, r2)]), op0(f2, r2, ch)))
        havoc_names(eng, r, st)
        outs.append(r)
    return outs


def file_index_of(v):
    if isinstance(v, Tup):
        for x in v.items:
            k = file_index_of(x)
            if k is not None:
                return k
        return None
    if isinstance(v, Custom) and isinstance(v.h, Indexed):
        return v.h.k
    return None


def files_loop(eng, p, st, seq):
    """for <item> in <list with one entry per file>"""
    POS = ix(eng, "file_pos")
    item = seq.at(POS)
    grown, writes = classify(eng, p, st, item)
    if not grown and not writes:
        return simple_loop(eng, p, st, seq)
    if len(grown) != 1:
        raise Unsupported("loop over files that grows no / several lists while writing chunk paths")
    (acc,) = grown
    fast = bool(p.ghost.get("fastpath"))
    K0 = z3.simplify(N - seq.n)          # files already in the list when the loop starts (the loop covers the remaining ones)
    eng.oblige(p, f"{eng.cur_func}.file_loop[{'fast' if fast else 'legacy'}].invariant_on_entry", "inv", inv_goal(eng, p, p.ghost[acc], K0, z3.IntVal(0), fast), st,
               note="before the loop over the (remaining) files the list holds exactly the row groups of the files before them")
    exit_path, body = p.fork(), p.fork()
    K = ix(eng, "file_k")
    body.pc += [0 <= POS, POS < seq.n, K == K0 + POS]
    havoc_acc(eng, body, acc, K, z3.IntVal(0), fast)
    havoc_names(eng, body, st)
    op0 = body.ghost["opath"]
    fk = file_index_of(item)
    outs = []
    for b in eng.assign(st.target, item, body):
        for r in eng.block(st.body, [b]):
            if r.ctl in (None, "continue"):
                eng.oblige(r, f"{eng.cur_func}.file_loop[{'fast' if fast else 'legacy'}].invariant_preserved", "inv", inv_goal(eng, r, r.ghost[acc], K + 1, z3.IntVal(0), fast), st,
                           note="after the iteration for the file at position K of file_list: its row groups follow those of files 0..K-1, in order")
                if r.ghost["opath"] is not op0:
                    f2, r2, c2 = ix(eng, "frame_f"), ix(eng, "frame_r"), ix(eng, "frame_c")
                    eng.oblige(r, f"{eng.cur_func}.file_loop[{'fast' if fast else 'legacy'}].writes_only_current_file", "inv",
                               z3.Implies(f2 != (fk if fk is not None else K), rec_eq(r.ghost["opath"](f2, r2, c2), op0(f2, r2, c2))), st,
                               note="an iteration writes chunk paths of its own file's row groups only")
            elif r.ctl == "break":
                raise Unsupported("break in the file loop")
            else:
                outs.append(r)
    havoc_acc(eng, exit_path, acc, z3.simplify(K0 + seq.n), z3.IntVal(0), fast)
    havoc_names(eng, exit_path, st)
    t = next(eng.counter)
    hk, hp = z3.Function(f"opath_kind!{t}", I, I, I, I), z3.Function(f"opath_file!{t}", I, I, I, I)
    exit_path.ghost["opath"] = (lambda f2, r2, ch: prec(hk(f2, r2, ch), hp(f2, r2, ch)))
    return [exit_path] + outs


def simple_loop(eng, p, st, seq):
    """a loop that changes no tracked state: executed for an arbitrary position; what a normally completing iteration
    establishes (its new path-condition conjuncts) holds for EVERY position after the loop"""
    POS = ix(eng, "pos")
    exit_path, body = p.fork(), p.fork()
    havoc_names(eng, body, st)
    n_pc = len(body.pc)
    body.pc += [0 <= POS, POS < seq.n]
    g0 = {k: v for k, v in body.ghost.items() if isinstance(k, tuple) or k == "opath"}
    outs, normal = [], []
    for b in eng.assign(st.target, seq.at(POS), body):
        for r in eng.block(st.body, [b]):
            if r.ctl in (None, "continue"):
                normal.append(r)
            elif r.ctl == "break":
                raise Unsupported("break in a loop without state")
            else:
                outs.append(r)
    if len(normal) > 1:
        raise Unsupported("loop body with several normally completing paths")
    for r in normal:
        if any(r.ghost.get(k) is not v for k, v in g0.items()) or len([k for k in r.ghost if isinstance(k, tuple)]) != len([k for k in g0 if isinstance(k, tuple)]):
            raise Unsupported("loop treated as stateless changes tracked state")
        facts = [c for c in r.pc[n_pc + 2:]]
        if facts:
            conj = z3.And(*facts)
            register(exit_path, Univ(1, lambda t: z3.Implies(z3.And(0 <= t, t < seq.n), z3.substitute(conj, (POS, t)))), False)
    havoc_names(eng, exit_path, st)
    return [exit_path] + outs


# =================================================================================================
# dicts keyed by file paths (fs.cat and what is derived from it)
# =================================================================================================
class KDict(H):
    """dict whose keys are the paths of the files {k : lo <= k < lo + n and guard(k)}, value val(k); iteration order unknown"""

    def __init__(self, key):
        self.key = key

    @staticmethod
    def new(eng, p, lo, n, guard, val):
        key = ("kdict", next(eng.counter))
        p.ghost[key] = (lo, n, guard, val)
        return KDict(key)

    def st(self, p):
        return p.ghost[self.key]

    def member(self, p, k):
        lo, n, g, _ = self.st(p)
        return z3.And(lo <= k, k < lo + n, g(k))

    def getitem(self, eng, p, i, node):
        if not (isinstance(i, Custom) and (isinstance(i.h, PathV) or (isinstance(i.h, FileK) and i.h.role == "item"))):
            raise Unsupported("dict of pieces indexed by something that is not a path")
        eng.oblige(p, f"{eng.cur_func}.fast.piece_for_every_file", "safety", self.member(p, i.h.k), node,
                   note="the dict of footers has an entry for the path (KeyError otherwise)")
        return self.st(p)[3](i.h.k)

    def call_method(self, eng, p, name, args, kw, node):
        if name == "items" and not args:
            return [(p, Custom(KItems(self)))]
        if name == "values" and not args:
            return [(p, Custom(KVals(self)))]
        if name == "keys" and not args:
            return [(p, Custom(self))]
        if name == "update" and len(args) == 1 and isinstance(args[0], Custom) and isinstance(args[0].h, KDict):
            lo, n, g, v = self.st(p)
            lo2, n2, g2, v2 = args[0].h.st(p)
            if not (_same(lo, lo2) and _same(n, n2)):
                raise Unsupported("update with a dict over another range of files")
            p.ghost[self.key] = (lo, n, (lambda k: z3.Or(g(k), g2(k))), (lambda k: merge_v(g2(k), v2(k), v(k))))
            return [(p, NONE)]
        raise Unsupported("dict." + name)

    def as_lseq(self, eng, p, items=False):
        """iteration (keys, or items): positions 0..n-1 in an order the code does not control"""
        lo, n, g, v = self.st(p)
        if not z3.is_true(z3.simplify(g(z3.Int("ix_any")))):
            raise Unsupported("iteration order of a filtered dict")
        register(p, Univ(1, lambda t: z3.Implies(z3.And(0 <= t, t < n), z3.And(lo <= PERM(t), PERM(t) < lo + n))), False)
        out = LSeq(n, (lambda j: Tup([Custom(PathV(PERM(j))), v(PERM(j))])) if items else (lambda j: Custom(PathV(PERM(j)))))
        out.loop = out.slice_loop = files_loop
        return out

    def truth(self, eng, p):
        return self.st(p)[1] > 0


class KItems(H):
    def __init__(self, d):
        self.d = d

    def as_lseq(self, eng, p):
        return self.d.as_lseq(eng, p, items=True)

    def for_loop(self, eng, p, st):
        return files_loop(eng, p, st, self.as_lseq(eng, p))


class KVals(H):
    """d.values(): the values in the dict's iteration order - a permutation the code does not control (PERM)"""

    def __init__(self, d):
        self.d = d

    def as_lseq(self, eng, p):
        lo, n, g, v = self.d.st(p)
        if not z3.is_true(z3.simplify(g(z3.Int("ix_any")))):
            raise Unsupported("iteration order of a filtered dict")
        register(p, Univ(1, lambda t: z3.Implies(z3.And(0 <= t, t < n), z3.And(lo <= PERM(t), PERM(t) < lo + n))), False)
        out = LSeq(n, lambda j: v(PERM(j)))
        out.loop = out.slice_loop = files_loop
        return out

    def for_loop(self, eng, p, st):
        return files_loop(eng, p, st, self.as_lseq(eng, p))


class KList(H):
    """[path for path, .. in d.items() if cond]: the paths of {k : member(k) and cond(k)} in some order"""

    def __init__(self, lo, n, guard, r):
        self.lo, self.n, self.guard, self.r = lo, n, guard, r

    def truth(self, eng, p):
        return self.r


class TailV(Indexed):
    """the bytes fs.cat returned for file k when asked for the last `want` bytes"""

    def __init__(self, k, want):
        super().__init__(k)
        self.want = want

    def subst(self, pairs):
        o = super().subst(pairs)
        o.want = z3.substitute(self.want, *pairs)
        return o

    def merge(self, c, other):
        o = super().merge(c, other)
        o.want = z3.If(c, self.want, other.h.want)
        return o

    def tlen(self):
        w, fl = self.want, FLEN(self.k)
        return z3.If(z3.Or(w <= 0, w >= fl), fl, w)

    def slice(self, eng, p, lo, hi, node):
        ok = all(isinstance(x, PyI) and z3.is_int_value(z3.simplify(x.z)) for x in (lo, hi)) and \
            (z3.simplify(lo.z).as_long(), z3.simplify(hi.z).as_long()) == (-8, -4)
        if not ok:
            raise Unsupported("slice of a footer piece other than [-8:-4]")
        eng.oblige(p, f"{eng.cur_func}.fast.tail_holds_length_field", "safety", self.tlen() >= 8, node,
                   note="the piece has at least 8 bytes, so piece[-8:-4] is the footer-length field")
        return Custom(LenField(self.k))


class LenField(Indexed):
    pass


class FloatProd(H):
    def __init__(self, num, den, x):
        self.num, self.den, self.x = num, den, x


# =================================================================================================
# metadata_from_many
# =================================================================================================
def run_many(funcs, timeout):
    res = Results()

    def h_emptylist(eng, p, e):
        key = ("newlist", next(eng.counter))
        p.ghost[key] = LSeq(0, lambda j: NO_ELT)
        return [(p, Custom(MList(key)))]

    def with_loops(out, loop):
        for q, v in out or []:
            if isinstance(v, Custom) and isinstance(v.h, LSeq):
                v.h.loop = v.h.slice_loop = loop
        return out

    def h_listcomp(eng, p, e):
        if len(e.generators) != 1:
            return None
        g = e.generators[0]
        rs = eng.ev(g.iter, p)
        if len(rs) != 1:
            raise Unsupported("forking comprehension source")
        q, coll = rs[0]
        if isinstance(coll, Custom) and isinstance(coll.h, MList):
            q.ghost["last_comp_source"] = coll.h.key          # which list object a following sum(...) ranges over
        if isinstance(coll, Custom) and isinstance(coll.h, KItems) and g.ifs:
            # [path for path, s in d.items() if cond]
            d = coll.h.d
            lo, n, gd, v = d.st(q)
            KK = ix(eng, "key_file")
            mark = len(q.pc)
            q.pc.append(d.member(q, KK))
            eng.assign(g.target, Tup([Custom(PathV(KK)), v(KK)]), q)
            cond = z3.BoolVal(True)
            for c in g.ifs:
                cs = eng.cond(c, q)
                if len(cs) != 1:
                    raise Unsupported("forking filter")
                cond = z3.And(cond, cs[0][1])
            ev = eng.ev(e.elt, q)
            q.pc[mark:] = [c for c in q.pc[mark:] if not _mentions(c, KK)]
            if len(ev) != 1 or not (isinstance(ev[0][1], Custom) and isinstance(ev[0][1].h, PathV) and _same(ev[0][1].h.k, KK)):
                raise Unsupported("filtered comprehension over dict items that does not yield the key")
            g2 = lambda k: z3.And(gd(k), z3.substitute(cond, (KK, k)))
            r = eng.fresh("some_piece_too_short", B)
            w = ix(eng, "w_short")
            register(q, Univ(1, lambda t: z3.Implies(z3.And(lo <= t, t < lo + n, g2(t)), r)), False)
            q.axioms.append(z3.Implies(r, z3.And(lo <= w, w < lo + n, g2(w))))
            return [(q, Custom(KList(lo, n, g2, r)))]
        return with_loops(comp_over(eng, q, e, coll), files_loop)

    def h_dictcomp(eng, p, e):
        g = e.generators[0]
        rs = eng.ev(g.iter, p)
        if len(rs) != 1 or not (isinstance(rs[0][1], Custom) and isinstance(rs[0][1].h, KItems)) or g.ifs:
            raise Unsupported("dict comprehension over something that is not d.items()")
        q, d = rs[0][0], rs[0][1].h.d
        lo, n, gd, v = d.st(q)
        KK = ix(eng, "key_file")
        mark = len(q.pc)
        q.pc.append(d.member(q, KK))
        eng.assign(g.target, Tup([Custom(PathV(KK)), v(KK)]), q)
        ks, vs = eng.ev(e.key, q), None
        if len(ks) == 1:
            vs = eng.ev(e.value, q)
        q.pc[mark:] = [c for c in q.pc[mark:] if not _mentions(c, KK)]
        if vs is None or len(vs) != 1 or not (isinstance(ks[0][1], Custom) and isinstance(ks[0][1].h, PathV) and _same(ks[0][1].h.k, KK)):
            raise Unsupported("dict comprehension that re-keys / forks")
        val = vs[0][1]
        return [(q, Custom(KDict.new(eng, q, lo, n, gd, lambda k: subst_v(val, [(KK, k)]))))]

    def h_zip14(eng, p, args, kw, node):
        a = [Custom(x.h.as_lseq(eng, p)) if isinstance(x, Custom) and hasattr(x.h, "as_lseq") else x for x in args]
        return with_loops(h_zip(eng, p, a, kw, node), files_loop)

    def h_pf(eng, p, args, kw, node):
        it = args[0]
        if not (isinstance(it, Custom) and isinstance(it.h, (FileK, PathV))):
            raise Unsupported("ParquetFile() of " + type(it).__name__)
        ow = kw.get("open_with")
        eng.oblige(p, f"{eng.cur_func}.opens_with_the_given_open_with", "post",
                   z3.BoolVal(isinstance(ow, Opaque) and ow.tag == "param:open_with"), node)
        return [(p, Custom(FileK(it.h.k, "pf")))]

    def h_analyse(eng, p, args, kw, node):
        fl = args[0]
        if isinstance(fl, Custom) and hasattr(fl.h, "as_lseq"):
            fl = Custom(fl.h.as_lseq(eng, p))
        j = ix(eng, "paths_j")
        ok = z3.BoolVal(False)
        if isinstance(fl, Custom) and isinstance(fl.h, LSeq):
            e = fl.h.at(j)
            if isinstance(e, Custom) and isinstance(e.h, (PathV, FileK)):
                if isinstance(e.h, FileK):
                    eng.oblige(p, f"{eng.cur_func}.analyse_paths_gets_paths", "post", z3.Implies(z3.And(0 <= j, j < N), z3.Not(ISPF(j))), node,
                               note="file_list handed to analyse_paths holds path strings")
                ok = z3.And(fl.h.n == N, z3.Implies(z3.And(0 <= j, j < N), e.h.k == j))
        eng.oblige(p, f"{eng.cur_func}.analyse_paths_gets_all_paths_in_order", "post", ok, node,
                   note="the relative paths are computed for the given files, in the given order")
        rel = LSeq(N, lambda k: Custom(RelV(k)))
        rel.loop = rel.slice_loop = files_loop
        return [(p, Tup([Custom(Base()), Custom(rel)]))]

    def h_copy(eng, p, args, kw, node):
        v = args[0]
        if isinstance(v, Custom) and isinstance(v.h, RGV) and v.h.kind in ("orig", "sym"):
            key = ("rgobj", next(eng.counter))
            p.ghost[key] = {"cols": "shared", "paths": None}
            f, r, _ = v.h.resolve(p)
            if v.h.kind == "sym":
                raise Unsupported("copy of a havoc'd row group")
            return [(p, Custom(RGV("obj", f, r, key)))]
        if isinstance(v, Custom) and isinstance(v.h, ChunkV) and not v.h.copied:
            return [(p, Custom(ChunkV(v.h.owner, v.h.c, True)))]
        if isinstance(v, Custom) and isinstance(v.h, FMDv) and v.h.copy_id is None:
            return [(p, Custom(FMDv(v.h.k, v.h.raw, copy_id=next(eng.counter))))]
        raise Unsupported("copy.copy of " + (type(v.h).__name__ if isinstance(v, Custom) else type(v).__name__))

    def h_join(eng, p, args, kw, node):
        sep, lst = args[0], args[1]
        if isinstance(sep, Str) and sep.s == "/" and isinstance(lst, Tup) and len(lst.items) == 2 and \
                isinstance(lst.items[0], Custom) and isinstance(lst.items[0].h, RelV) and \
                isinstance(lst.items[1], Custom) and isinstance(lst.items[1].h, OldPath):
            return [(p, Custom(JoinedV(lst.items[0].h.k, lst.items[1].h)))]
        return [(p, Opaque(("join", next(eng.counter))))]

    def h_floatmul(eng, p, c, b, node):
        if c == 1.4 and isinstance(b, PyI):
            return Custom(FloatProd(14, 10, b.z))
        raise Unsupported("float arithmetic")

    def h_int(eng, p, args, kw, node):
        v = args[0]
        if isinstance(v, Custom) and isinstance(v.h, FloatProd):
            q = eng.fresh_int("int_of_product")
            p.pc += [v.h.den * q <= v.h.num * v.h.x, v.h.num * v.h.x < v.h.den * q + v.h.den]
            return [(p, PyI(q))]
        return BUILTINS["int"](eng, p, args, kw, node)

    def h_cat(eng, p, args, kw, node):
        paths, start = args[0], kw.get("start")
        if not isinstance(start, PyI):
            raise Unsupported("fs.cat without start=")
        want = z3.simplify(-start.z)
        p.ghost["fastpath"] = True
        if isinstance(paths, Custom) and isinstance(paths.h, KList):
            lo, n, g = paths.h.lo, paths.h.n, paths.h.guard
        elif isinstance(paths, Custom) and isinstance(paths.h, LSeq):
            j = z3.Int("ix_probe")
            e = paths.h.at(j)
            if not (isinstance(e, Custom) and (isinstance(e.h, PathV) or (isinstance(e.h, FileK) and e.h.role == "item"))):
                raise Unsupported("fs.cat of something that is not a list of paths")
            lo = z3.simplify(z3.substitute(e.h.k, (j, z3.IntVal(0))))
            if not _same(e.h.k, lo + j):
                raise Unsupported("fs.cat of paths that are not a contiguous slice of file_list")
            n, g = paths.h.n, (lambda k: z3.BoolVal(True))
        else:
            raise Unsupported("fs.cat of " + type(paths).__name__)
        return [(p, Custom(KDict.new(eng, p, lo, n, g, lambda k: Custom(TailV(k, want)))))]

    def h_from_bytes(eng, p, args, kw, node):
        if isinstance(args[0], Custom) and isinstance(args[0].h, LenField) and isinstance(args[1], Str) and args[1].s == "little":
            return [(p, PyI(HEAD(args[0].h.k)))]
        raise Unsupported("int.from_bytes")

    def h_max(eng, p, args, kw, node):
        if len(args) == 1 and isinstance(args[0], Custom) and isinstance(args[0].h, KVals):
            d = args[0].h.d
            lo, n, g, v = d.st(p)
            m = eng.fresh_int("max_size")
            register(p, Univ(1, lambda t: z3.Implies(d.member(p, t), eng.as_int(v(t)) <= m)), False)
            return [(p, PyI(m))]
        return BUILTINS["max"](eng, p, args, kw, node)

    def h_get_fmd(eng, p, args, kw, node):
        t = args[0]
        if not (isinstance(t, Custom) and isinstance(t.h, TailV)):
            raise Unsupported("_get_fmd of " + type(t).__name__)
        eng.oblige(p, f"{eng.cur_func}.fast_path.piece_covers_footer_and_trailer", "post", t.h.tlen() >= HEAD(t.h.k) + 8, node,
                   note="after the optional re-fetch, for ALL footer lengths and head sizes: len(piece) >= footer length + 8 - the bytes handed to "
                        "_get_fmd hold the file's complete footer, its length field and the magic (the precondition of _get_fmd's contract; "
                        "a shorter piece makes the native thrift reader start mid-struct)")
        return [(p, Custom(FMDv(t.h.k, raw=True)))]

    def h_map(eng, p, args, kw, node):
        """map(f, xs) for a function under a handler: [f(x) for x in xs], evaluated for the member at an arbitrary position"""
        fn, coll = args[0], args[1] if len(args) == 2 else None
        name = fn.tag[5:] if isinstance(fn, Opaque) and isinstance(fn.tag, str) and fn.tag.startswith("func:") else None
        if coll is not None and isinstance(coll, Custom) and hasattr(coll.h, "as_lseq"):
            coll = Custom(coll.h.as_lseq(eng, p))
        if name not in handlers or not (isinstance(coll, Custom) and isinstance(coll.h, LSeq)):
            raise Unsupported("map over " + type(coll).__name__)
        seq = coll.h
        J = ix(eng, "J")
        mark = len(p.pc)
        alias = ix(eng, "file_at_J")          # an index constant for the file the dict's order puts at position J (instantiation term)
        p.pc += [0 <= J, J < seq.n, alias == PERM(J)]
        rs = handlers[name](eng, p, [seq.at(J)], {}, node)
        if len(rs) != 1 or rs[0][0] is not p:
            raise Unsupported("forking map function")
        p.pc[mark:] = [c for c in p.pc[mark:] if not _mentions(c, J)]
        elt = rs[0][1]
        out = LSeq(seq.n, lambda j: subst_v(elt, [(J, j)]))
        out.loop = out.slice_loop = files_loop
        return [(p, Custom(out))]

    def h_list(eng, p, args, kw, node):
        if len(args) == 1 and isinstance(args[0], Custom) and hasattr(args[0].h, "as_lseq") and not isinstance(args[0].h, MList):
            return [(p, Custom(args[0].h.as_lseq(eng, p)))]
        return BUILTINS["list"](eng, p, args, kw, node)

    def h_sum(eng, p, args, kw, node):
        v = args[0]
        if isinstance(v, Custom) and isinstance(v.h, LSeq):
            s = eng.fresh_int("sum")
            p.ghost["sums"] = dict(p.ghost.get("sums", {}))
            p.ghost["sums"][str(s)] = (v.h, p.ghost.get("last_comp_source"))
            return [(p, PyI(s))]
        raise Unsupported("sum of " + type(v).__name__)

    handlers = {"emptylist": h_emptylist, "listcomp": h_listcomp,
                "dictcomp": h_dictcomp, "all": h_all, "any": h_any, "zip": h_zip14, "api.ParquetFile": h_pf, "analyse_paths": h_analyse,
                "copy.copy": h_copy, ".join": h_join, "float*": h_floatmul, "int": h_int, "fs.cat": h_cat, "int.from_bytes": h_from_bytes,
                "max": h_max, "_get_fmd": h_get_fmd, "sum": h_sum, "map": h_map, "list": h_list}
    eng = ListEngine(funcs=funcs, handlers=handlers, opaque_calls=False)
    p = Path()
    p.pc += [N >= 1, NCOLS >= 1, BLEN >= 0, OFF(0) == 0]
    p.ghost["opath"] = (lambda f, r, c: prec(0, -1))
    register(p, Univ(1, lambda t: z3.Implies(z3.And(0 <= t, t < N), z3.And(OFF(t + 1) == OFF(t) + NRG(t), NRG(t) >= 0,
                                                                             HEAD(t) >= 10, FLEN(t) >= HEAD(t) + 12))), False)
    flist = LSeq(N, lambda k: Custom(FileK(k, "item")))
    flist.loop = flist.slice_loop = files_loop
    vs, fs_none = z3.Bool("verify_schema"), z3.Bool("fs_is_None")

    class FS(H):
        pass
    outs = eng.run("metadata_from_many", p, [Custom(flist), PyB(vs), Opaque("param:open_with"), PyB(False), Opt(fs_none, Custom(FS()))])

    def mf(m):
        ev = lambda t: backends.model_value(m, t)
        n = ev(N)
        d = {"n_files": n, "verify_schema": ev(vs), "fs_is_None": ev(fs_none), "note": "abstract counter-model (files are opaque objects)"}
        for k in range(min(int(n or 0), 4)):
            d[f"file{k}"] = {"is_ParquetFile": ev(ISPF(k)), "row_groups": ev(NRG(k)), "scheme_simple": ev(SIMPLE(k)), "scheme_empty": ev(EMPTY(k)),
                             "schema_equals_first": ev(SCHEMA_EQ(k)), "footer_len": ev(HEAD(k)), "dict_order_position_maps_to": ev(PERM(k))}
        return d
    for ob in eng.oblig:
        st, m, secs = discharge_inst(ob.pc, ob.axioms, ob.univ, False, ob.goal, timeout)
        res.add("many." + ob.name.split(".", 1)[-1], st, mf(m) if m is not None else None, secs, "z3", ob.note or ob.kind)
    n_ret = {"legacy": 0, "fast": 0}
    n_raise = 0
    jq = z3.Int("ix_result_j")
    for q in outs:
        univ = q.ghost.get("univ", [])
        if q.ctl[0] == "raise":
            n_raise += 1
            continue
        fast = bool(q.ghost.get("fastpath")) and isinstance(q.ghost["locals:metadata_from_many"].get("legacy"), PyB) and \
            z3.is_false(z3.simplify(q.ghost["locals:metadata_from_many"]["legacy"].z))
        tag = "fast" if fast else "legacy"
        n_ret[tag] += 1
        v = q.ctl[1]
        fmd = v.items[1] if isinstance(v, Tup) and len(v.items) == 2 else None
        base_ok = isinstance(v, Tup) and len(v.items) == 2 and isinstance(v.items[0], Custom) and isinstance(v.items[0].h, Base)
        fmd_ok = isinstance(fmd, Custom) and isinstance(fmd.h, FMDv) and _same(fmd.h.k, z3.IntVal(0)) and (fast or fmd.h.copy_id is not None)
        res.add(f"many[{tag}].returns_basepath_and_first_files_metadata", PROVED if base_ok and fmd_ok else REFUTED, None, 0.0, "trace",
                "returns (basepath of analyse_paths, the first file's FileMetaData" + ("" if fast else " - a copy, the input handle keeps its own") + ")")
        if not fmd_ok:
            continue
        state = q.ghost.get(fmd.h.okey(), {})
        rows = state.get("row_groups")
        L = rows.h.cur(q) if isinstance(rows, Custom) and isinstance(rows.h, MList) else None

        def pose(name, goal, detail):
            st, m, secs = discharge_inst(q.pc, q.axioms, univ, False, goal, timeout)
            res.add(f"many[{tag}].{name}", st, dict(mf(m), position=backends.model_value(m, jq)) if m is not None else None, secs, "z3", detail)
        if L is None or not isinstance(L.at(jq), Custom) or not isinstance(L.at(jq).h, RGV):
            res.add(f"many[{tag}].row_groups_is_concatenation_in_file_list_order", REFUTED, None, 0.0, "trace", "fmd.row_groups is not the accumulated list")
            continue
        f, r, pf = L.at(jq).h.resolve(q)
        inr = z3.And(0 <= jq, jq < L.n)
        pose("row_groups_is_concatenation_in_file_list_order",
             z3.And(L.n == OFF(N), z3.Implies(inr, z3.And(0 <= f, f < N, 0 <= r, r < NRG(f), jq == OFF(f) + r))),
             "len(row_groups) == OFF(N) and the element at every position OFF(f) + r is row group r of file f (files in file_list order)")
        exp = prec(1, f) if fast else expected_legacy(f)
        pose("first_chunk_gets_relative_path", z3.Implies(inr, rec_eq(pf(z3.IntVal(0)), exp)),
             "columns[0].file_path of every row group is its file's relative path (prefixed to the chunk's own path for a nested dataset)")
        pose("every_chunk_gets_relative_path", z3.Implies(z3.And(inr, 0 <= CQ, CQ < NCOLS), rec_eq(pf(CQ), exp)),
             "EVERY chunk's file_path of every row group is its file's relative path")
        # num_rows
        nr = state.get("num_rows")
        sums = q.ghost.get("sums", {})
        ok, goal = False, z3.BoolVal(False)
        if isinstance(nr, PyI) and str(nr.z) in sums:
            summed, src = sums[str(nr.z)]
            ok = src == rows.h.key
            e = summed.at(jq)
            if ok and isinstance(e, PyI):
                goal = z3.And(summed.n == L.n, z3.Implies(inr, e.z == NUMROWS(f, r)))
        if ok:
            pose("num_rows_is_sum_over_result_row_groups", goal, "fmd.num_rows == sum(rg.num_rows for rg in <the returned row_groups>)")
        else:
            res.add(f"many[{tag}].num_rows_is_sum_over_result_row_groups", REFUTED, None, 0.0, "trace",
                    "fmd.num_rows is not a sum over the returned row_groups list")
        # schema verification
        s = z3.Int("ix_schema_file")
        pose("verify_schema_differs_raises", z3.Implies(z3.And(vs, 1 <= s, s < N), SCHEMA_EQ(s)),
             "a normally returning call with verify_schema=True => every file's whole _schema equals the first file's")
    res.vacuity = {"requires_sat": int(solve(list(p.pc) + [N == 3, NRG(0) == 1, NRG(1) == 0, NRG(2) == 2], 2000)[0] == REFUTED), "must_fail_sat": 0}
    for q in outs:        # must-fail: "the result has no row groups" is refuted on a returning path
        if q.ctl[0] == "ret" and isinstance(q.ctl[1], Tup):
            if discharge_inst(q.pc, q.axioms, q.ghost.get("univ", []), False, OFF(N) == 0, 3000)[0] == REFUTED:
                res.vacuity["must_fail_sat"] += 1
                break
    res.add("many.both_code_paths_and_rejections_reached", PROVED if n_ret["legacy"] >= 2 and n_ret["fast"] >= 1 and n_raise >= 2 else UNKNOWN,
            None, 0.0, "trace", f"returning paths: legacy {n_ret['legacy']}, footer-gathering {n_ret['fast']}; raising paths {n_raise}")
    # a raising path for differing schemas exists and is satisfiable
    reach = any(q.ctl[0] == "raise" and q.ctl[1] == "ValueError" and solve([*q.pc, vs], 2000)[0] == REFUTED and
                any("schema_equals_first" in str(c) for c in q.pc) for q in outs)
    res.add("many.verify_schema_raise_reachable", PROVED if reach else REFUTED, None, 0.0, "trace",
            "some path raises ValueError under verify_schema with a schema different from the first file's")
    return res, n_ret, n_raise


# =================================================================================================
# _get_fmd on the byte-file model
# =================================================================================================
MAGIC = Bts.const(b"PAR1")


def run_get_fmd(funcs, timeout, lo, hi, tag):
    res = Results()
    body, F, lenfield = Bts.sym("body"), Bts.sym("footer"), Bts.sym("len_field")
    content = concat(body, F, Bts(4, lenfield.at), MAGIC)
    fh = FileH()

    def h_bytesio(eng, p, args, kw, node):
        if not (isinstance(args[0], BytesV) and args[0].seq is content):
            raise Unsupported("io.BytesIO of something else")
        fh.init(p, content, 0)
        return [(p, Custom(fh))]

    def h_from_buffer(eng, p, args, kw, node):
        d = args[0]
        if not isinstance(d, BytesV):
            raise Unsupported("from_buffer of " + type(d).__name__)
        p.ghost["parsed"] = d.seq
        p.ghost["parsed_as"] = args[1].s if len(args) > 1 and isinstance(args[1], Str) else None
        return [(p, Opaque("fmd"))]
    eng = Engine(funcs=funcs, handlers={"io.BytesIO": h_bytesio, "from_buffer": h_from_buffer, "struct.unpack": h_struct_unpack},
                 opaque_calls=False)
    install_byte_constants(eng)
    p = Path()
    p.pc += [body.n >= 0, F.n >= lo, F.n < hi, F.n == le_value(Bts(4, lenfield.at))]
    outs = eng.run("_get_fmd", p, [BytesV(content)])
    mfn = lambda m: {"footer_len": backends.model_value(m, F.n), "body_len": backends.model_value(m, body.n)}
    res.add_engine_obligations(eng, f"get_fmd[{tag}].", timeout, mfn)
    k = z3.Int("k_skolem")
    n = 0
    for q in outs:
        if q.ctl[0] != "ret":
            continue
        n += 1
        parsed = q.ghost.get("parsed", Bts(0, lambda i: z3.BitVecVal(0, 8)))
        st, m, secs = solve([*q.pc, z3.Not(eq_goal(parsed, F, k))], timeout)
        res.add(f"get_fmd[{tag}].parses_exactly_footer", st, dict(mfn(m), parsed_len=backends.model_value(m, parsed.n), differs_at=backends.model_value(m, k)) if m else None,
                secs, detail="content == body ++ F ++ le32(|F|) ++ 'PAR1'  =>  the bytes given to from_buffer are exactly F")
        res.add(f"get_fmd[{tag}].parsed_as_FileMetaData", PROVED if q.ghost.get("parsed_as") == "FileMetaData" else REFUTED, None, 0.0, "trace")
    # each call parses anew: metadata_from_many re-paths the row groups of every parsed footer IN PLACE, so the objects returned for
    # different files (even with byte-identical footers) must be distinct - no memoising decorator, the value returned is the parse
    f = funcs["_get_fmd"]
    decos = f.report.get("decorators_dropped", [])
    rets = [n for n in ast.walk(f.tree) if isinstance(n, ast.Return)]
    direct = len(rets) == 1 and isinstance(rets[0].value, ast.Call) and ast.unparse(rets[0].value.func).split(".")[-1] == "from_buffer"
    res.add("get_fmd.returns_a_fresh_object_every_call", PROVED if not decos and direct else REFUTED,
            None if not decos and direct else {"decorators": decos, "returns_the_parse_directly": direct}, 0.0, "ast",
            "no decorator (cache / memoisation) on _get_fmd and it returns from_buffer(...) itself: files with identical footers get distinct "
            "FileMetaData objects (required by many.file_loop[fast].writes_only_current_file)")
    return res, n


def _record(ctx, fq, res, known=None, only=None):
    out = []
    for name in res.order:
        if only is not None and not only(name):
            continue
        st = res.status(name)
        e = next((x for x in res.d[name] if x[0] == st), res.d[name][0])
        secs = sum(x[2] for x in res.d[name])
        fid = known(name) if known else None
        if st == REFUTED and fid and ctx.is_known(fid):
            ctx.obligation(name, fq, "refuted-known", e[3], secs, detail=e[4], model=e[1], sample=True)
            ctx.known_finding(fid)
            continue
        ctx.obligation(name, fq, st, e[3], secs, detail=e[4], model=e[1] if st == REFUTED else None, sample=(st != PROVED or "concatenation" in name))
        if st == REFUTED:
            out.append((name, e[1], e[4]))
    return out


def known_for(name):
    return None          # no open finding (the two found with this contract were repaired: 64ae902, de16924)


FETCH_FAMILY = ("many.fast_path.", "many.fast.", "get_fmd[", "get_fmd.")


def check(ctx, timeout, only=None):
    """-> list of (name, model, detail) refuted outside known findings.  `only`: predicate on obligation names (a family of the
    contract exposed to another property, e.g. the footer-fetch logic = memory-safety precondition of the native thrift reader)"""
    funcs, _, _ = parse_module("fastparquet/util.py")
    for fn in ("metadata_from_many", "_get_fmd"):
        ctx.function("util." + fn, funcs[fn].sha, funcs[fn].report)
    out = []
    try:
        res, n_ret, n_raise = run_many(funcs, timeout)
        ctx.vacuity["covers"] += n_ret["legacy"] + n_ret["fast"] + n_raise
        for k, v in res.vacuity.items():
            ctx.vacuity[k] += v
        if not all(res.vacuity.values()):
            ctx.engine_error(f"metadata_from_many: vacuity guard failed {res.vacuity}")
        out += _record(ctx, "util.metadata_from_many", res, known_for, only)
    except Unsupported as ex:
        ctx.obligation("metadata_from_many.out_of_reach", "util.metadata_from_many", UNKNOWN, "engine", 0.0, detail=str(ex), sample=True)
    try:
        for lo, hi, tag in ((0, 2 ** 32, "|F| < 2**32"),):
            res, n = run_get_fmd(funcs, timeout, lo, hi, tag)
            ctx.vacuity["covers"] += n
            if n == 0 and lo == 0:
                ctx.engine_error("_get_fmd: no returning path")
            out += _record(ctx, "util._get_fmd", res, known_for, only)
    except Unsupported as ex:
        ctx.obligation("_get_fmd.out_of_reach", "util._get_fmd", UNKNOWN, "engine", 0.0, detail=str(ex), sample=True)
    return out
