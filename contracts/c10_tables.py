"""C10 - metadata serialisation is IDL-conformant: obligations over finite domains, decided by enumeration on the
real sources (the .pyx tables, the IDL file shipped with the library, every construction site in the .py files).

  tables.ids_match_idl[S]          specs[S] (field name -> id, parsed from cencoding.pyx) == the IDL's ids for S
  tables.children_match_idl[S]     children[S] names exactly the struct-typed / list<struct>-typed fields, with the IDL's type
  write_thrift.field_range         every field id of every struct in `specs` is visited by `for i in range(1, N)`
  ctor.marker_matches_idl[site]    at each `parquet_thrift.X(...)` / `ThriftObject.from_fields("X", ...)` the integer-width
                                   marker (i32=1 | i32list=[...] | none) declares exactly the 32-bit integer fields
                                   (IDL i32 / enum) among the integer-typed keyword arguments given
  assign.kind_matches_idl[site]    an attribute assignment `obj.field = <expr>` to an integer/enum field is not a
                                   syntactically boolean expression (a Python bool is serialised with the BOOL wire type)
The varint / zigzag lemmas on the full 64-bit domain are the C11 obligations (re-run here).
"""
import ast
import os
import re

from spec import thrift_idl
from vc import front_cy
from vlib.common import REPO, PROVED, REFUTED, UNKNOWN, sha
from .util import Results

PY_FILES = ["fastparquet/writer.py", "fastparquet/util.py", "fastparquet/api.py", "fastparquet/core.py",
            "fastparquet/schema.py", "fastparquet/dataframe.py", "fastparquet/converted_types.py"]
# construction sites that are never serialised (justified exemptions; see DESIGN 5/C10 f)
EXEMPT = {("fastparquet/writer.py", "make_definitions", "SchemaElement"):
          "throw-away SchemaElement(type=BOOLEAN) that only parameterises encode_plain; never serialised"}


def parse_tables(pyx_text):
    out = {}
    for name in ("specs", "children"):
        m = re.search(r"^cdef dict " + name + r" = \{", pyx_text, flags=re.M)
        if not m:
            raise ValueError("table %s not found in the .pyx" % name)
        i = m.end() - 1
        depth, j = 0, i
        while True:
            if pyx_text[j] == "{":
                depth += 1
            elif pyx_text[j] == "}":
                depth -= 1
                if depth == 0:
                    break
            j += 1
        out[name] = ast.literal_eval(pyx_text[i:j + 1])
    return out["specs"], out["children"]


def check_tables(ctx):
    res = Results()
    idl = thrift_idl.load()
    pyx_path = os.path.join(REPO, "fastparquet", "cencoding.pyx")
    text = open(pyx_path).read()
    specs, children = parse_tables(text)
    ctx.function("cencoding.specs/children (tables)", sha(repr(specs) + repr(children)), {"structs": len(specs)})
    absent = sorted(set(idl.structs) - set(specs))
    ctx.note(f"IDL structs absent from the tables (using them raises KeyError = refused with an error): {absent}")
    # obligation domain: the structs reachable from the two roots that are ever serialised (DESIGN 5/C10 a);
    # tables of other structs (bloom-filter header family) are compared too but only reported as notes
    reach = set(idl.reachable(["FileMetaData", "PageHeader"]))
    for s in sorted(specs):
        if s not in reach and s in idl.structs:
            want = {f.name: f.id for f in idl.structs[s]}
            if want != specs[s]:
                ctx.note(f"table of {s} (not reachable from FileMetaData/PageHeader) differs from the IDL: {specs[s]} vs {want}")
            continue
        if s not in idl.structs:
            res.add(f"tables.ids_match_idl[{s}]", REFUTED, {"struct": s, "problem": "not declared in parquet.thrift"}, 0.0, "enum")
            continue
        want = {f.name: f.id for f in idl.structs[s]}
        got = specs[s]
        ok = want == got
        res.add(f"tables.ids_match_idl[{s}]", PROVED if ok else REFUTED,
                None if ok else {"struct": s, "missing": sorted(set(want) - set(got)), "extra": sorted(set(got) - set(want)),
                                 "wrong_id": {k: (got[k], want[k]) for k in got if k in want and got[k] != want[k]}},
                0.0, "enum", "field name -> id equals the IDL, no field missing, none extra")
        wantc = {}
        for f in idl.structs[s]:
            k, x = idl.kind(f.type)
            if k == "list":
                k, x = idl.kind(x)
            if k == "struct":
                wantc[f.name] = x
        gotc = children.get(s, {})
        ok = wantc == gotc
        res.add(f"tables.children_match_idl[{s}]", PROVED if ok else REFUTED,
                None if ok else {"struct": s, "idl": wantc, "table": gotc}, 0.0, "enum",
                "children[S] names exactly the struct-typed fields with the IDL's struct names")
    # write_thrift field range
    funcs, _, _ = front_cy.parse_pyx(pyx_path)
    wt = funcs["write_thrift"]
    ctx.function("cencoding.write_thrift (field loop bound)", sha(wt.text), wt.report)
    bound = None
    for n in ast.walk(wt.tree):
        if isinstance(n, ast.For) and isinstance(n.iter, ast.Call) and getattr(n.iter.func, "id", "") == "range" and len(n.iter.args) == 2:
            if isinstance(n.iter.args[0], ast.Constant) and isinstance(n.iter.args[1], ast.Constant) and getattr(n.target, "id", "") == "i":
                bound = (n.iter.args[0].value, n.iter.args[1].value)
                break
    if bound is None:
        res.add("write_thrift.field_range", UNKNOWN, None, 0.0, "ast", "field loop `for i in range(a, b)` not found")
    else:
        for s in sorted(specs):
            ids = list(specs[s].values())
            outside = {k: v for k, v in specs[s].items() if not bound[0] <= v < bound[1]}
            if not ids:
                continue
            res.add(f"write_thrift.field_range[{s}]", PROVED if not outside else REFUTED,
                    None if not outside else {"struct": s, "loop": f"range({bound[0]}, {bound[1]})", "fields_never_written": outside},
                    0.0, "enum", f"every field id of {s} lies in the loop range({bound[0]}, {bound[1]})")
    return res, specs, idl


INT_KINDS = ("i8", "byte", "i16", "i32", "i64")


def _field_class(idl, struct, fname):
    f = idl.fields_by_name(struct).get(fname)
    if f is None:
        return None
    k, x = idl.kind(f.type)
    if k == "enum":
        return "i32"
    if k == "prim" and x in INT_KINDS:
        return "i32" if x == "i32" else ("i64" if x == "i64" else x)
    if k == "prim" and x == "bool":
        return "bool"
    if k == "list":
        ek, ex = idl.kind(x)
        if ek == "enum" or (ek == "prim" and ex in INT_KINDS):
            return "intlist"
        return "other"
    return "other"


def _expr_kind(e):
    """syntactic kind of a keyword argument / assigned expression: 'none' | 'bool' | 'notint' | 'maybe-int'"""
    if isinstance(e, ast.Constant):
        if e.value is None:
            return "none"
        if isinstance(e.value, bool):
            return "bool"
        if isinstance(e.value, int):
            return "maybe-int"
        return "notint"
    if isinstance(e, (ast.Compare, ast.BoolOp)) or (isinstance(e, ast.UnaryOp) and isinstance(e.op, ast.Not)):
        return "bool"
    if isinstance(e, (ast.List, ast.Tuple, ast.Dict, ast.JoinedStr, ast.ListComp)):
        return "notint"
    return "maybe-int"


def check_ctor_sites(ctx, specs, idl):
    res = Results()
    n_sites = 0
    for rel in PY_FILES:
        path = os.path.join(REPO, rel)
        if not os.path.exists(path):
            continue
        src = open(path).read()
        tree = ast.parse(src)
        funcname = {}
        for fn in ast.walk(tree):
            if isinstance(fn, (ast.FunctionDef, ast.AsyncFunctionDef)):
                for sub in ast.walk(fn):
                    funcname.setdefault(id(sub), fn.name)
        for node in ast.walk(tree):
            if not isinstance(node, ast.Call):
                continue
            struct = None
            f = node.func
            if isinstance(f, ast.Attribute) and isinstance(f.value, ast.Name) and f.value.id == "parquet_thrift" and f.attr[:1].isupper():
                struct = f.attr
            elif isinstance(f, ast.Attribute) and f.attr == "from_fields" and node.args and isinstance(node.args[0], ast.Constant):
                struct = node.args[0].value
            if struct is None or struct not in idl.structs:
                continue
            n_sites += 1
            fn_name = funcname.get(id(node), "<module>")
            site = f"{rel}:{node.lineno}:{fn_name}:{struct}"
            kws = {k.arg: k.value for k in node.keywords if k.arg}
            i32flag = "i32" in kws and not (isinstance(kws["i32"], ast.Constant) and not kws["i32"].value)
            i32list = None
            if "i32list" in kws:
                try:
                    i32list = list(ast.literal_eval(kws["i32list"]))
                except Exception:
                    i32list = "dynamic"
            given32, given64, problems = [], [], []
            for name, val in kws.items():
                if name in ("i32", "i32list", "thrift_name"):
                    continue
                cls = _field_class(idl, struct, name)
                if cls is None:
                    problems.append(f"{name}: not a field of {struct} in the IDL")
                    continue
                ek = _expr_kind(val)
                if ek == "none":
                    continue
                if cls in ("i32", "i64", "i8", "i16") and ek == "bool":
                    problems.append(f"{name}: boolean expression given for an integer/enum field (BOOL wire type)")
                if cls == "i32" and ek == "maybe-int":
                    given32.append(name)
                if cls in ("i64",) and ek == "maybe-int":
                    given64.append(name)
                if cls in ("i8", "i16") and ek == "maybe-int":
                    problems.append(f"{name}: {cls} field cannot be expressed by the i32/i64 markers (written as i32 or i64)")
            ids32 = sorted(idl.fields_by_name(struct)[n].id for n in given32)
            # `**mapping` arguments: the fields given are not visible statically. If the struct has any 32-bit integer field that
            # such a mapping may carry and the site has no marker of its own, nothing can declare its wire width (the keys
            # 'i32' / 'i32list' are not attributes, a mapping built from attributes cannot carry them): pose it as a problem.
            if any(k.arg is None for k in node.keywords):
                could32 = sorted(n for n, f_ in idl.fields_by_name(struct).items() if _field_class(idl, struct, n) == "i32" and n not in kws)
                if could32 and not i32flag and i32list is None:
                    problems.append(f"fields passed as **mapping with no integer-width marker at the site: 32-bit IDL fields {could32} "
                                    "would be written as i64")
            if i32flag:
                if given64:
                    problems.append(f"i32=1 but 64-bit IDL fields are given: {given64}")
            elif i32list == "dynamic":
                problems.append("i32list is not a literal")
            elif i32list is not None:
                if sorted(i32list) != ids32:
                    problems.append(f"i32list={sorted(i32list)} but the 32-bit integer fields given have ids {ids32}")
            else:
                if given32:
                    problems.append(f"no marker, but 32-bit IDL fields are given: {given32} (they would be written as i64)")
            key = (rel, fn_name, struct)
            if problems and key in EXEMPT:
                ctx.note(f"construction site {site} exempt: {EXEMPT[key]}")
                problems = []
            res.add(f"ctor.marker_matches_idl[{site}]", PROVED if not problems else REFUTED,
                    None if not problems else {"site": site, "problems": problems}, 0.0, "enum",
                    "the integer-width marker declares exactly the 32-bit integer fields among the arguments given")
        # attribute assignments of boolean expressions to integer fields
        int_fields = {}
        for s_, fields in specs.items():
            for fname in fields:
                cls = _field_class(idl, s_, fname) if s_ in idl.structs else None
                int_fields.setdefault(fname, set()).add(cls)
        for node in ast.walk(tree):
            if isinstance(node, ast.Assign) and len(node.targets) == 1 and isinstance(node.targets[0], ast.Attribute):
                fname = node.targets[0].attr
                classes = int_fields.get(fname)
                if not classes or not classes <= {"i32", "i64", "i8", "i16"}:
                    continue
                ek = _expr_kind(node.value)
                site = f"{rel}:{node.lineno}:{funcname.get(id(node), '<module>')}:.{fname}"
                res.add(f"assign.kind_matches_idl[{site}]", REFUTED if ek == "bool" else PROVED,
                        {"site": site, "problem": "boolean expression assigned to an integer/enum thrift field"} if ek == "bool" else None,
                        0.0, "enum", "value assigned to an integer/enum metadata field is not a Python bool")
    if n_sites < 20:
        ctx.engine_error(f"C10: only {n_sites} thrift construction sites found (expected >= 30)")
    return res
