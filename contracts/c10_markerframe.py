"""C10 - FRAME of the integer-width side channel over the Python code base.

The wire type (i32 / i64) of every integer field of a thrift struct is carried next to the fields, in the struct's dict, under the string
keys 'i32' / 'i32list' (set by read_thrift for parsed metadata - read_thrift.width_marker_roundtrip - and by from_fields at construction
sites - ctor.marker_matches_idl).  "The bytes follow the IDL ... also when metadata originally read from another writer is re-serialised"
therefore needs, between parse and re-serialisation, that NO code path of api.py / schema.py / writer.py / util.py / core.py / dataframe.py ...
deletes, pops, clears or overwrites those keys, replaces a struct's dict by one without them, or deletes keys chosen by a predicate that the
marker keys satisfy.  (cencoding.pyx itself: setattr.stores_under_spec_id_and_nowhere_else, copy.keeps_every_key_incl_width_markers,
from_fields.markers_stored_as_given in c10_thriftobj.py.)

   marker.frame[file:line:func: <statement>]    one obligation per statement that can remove / overwrite a key of a mapping that is - or may
                                                be - a ThriftObject / its `.contents` dict:  del R[K] | R.pop(K) | R.popitem() | R.clear() |
                                                R.update(..) | R.setdefault(K, ..) | R[K] = v | R[K] op= v | ThriftObject(name, <dict expr>) |
                                                `.contents` handed to code that is not known to only read it
decided, in this order, by
   1. the KEY: a literal that is not 'i32' / 'i32list' (ints, other strings, slices) cannot touch the marker            -> proved
   2. the KEY SET, when the key is a loop / comprehension variable ranging over the keys of a thrift dict (possibly through list() / sorted() /
      a filtering comprehension / enclosing `if` tests / `if P: continue` guards): the REAL predicate expressions are evaluated on the two
      marker keys; a marker key that passes every filter is deleted / overwritten                                    -> refuted (else proved)
   3. the RECEIVER: every binding of its root name in the function is a dict / list / set display, a comprehension or a call of a non-thrift
      constructor (dict, OrderedDict, np.*, pd.*, ...), or it is self.__dict__ / a module-level table                   -> proved
   4. a receiver with NO evidence of being a thrift object (no `.contents` / thrift field attribute / thrift constructor / iteration over a
      thrift list flows into it) and a key that is not a marker literal: API-level containers (dtypes, categories, frames) -> proved, the
      evidence rule is listed as an assumption
   5. anything else (thrift-evident receiver, key not decidable)                                                       -> unknown, never a violation
"""
import ast
import os

from vlib.common import REPO, PROVED, REFUTED, UNKNOWN
from .c10_tables import parse_tables
from .kernels import KResults

ASSUMED = [
    "marker.frame: a mapping is taken to be (possibly) a ThriftObject / its dict when the function shows evidence of it - `.contents`, "
    "`.thrift_name`, `.to_bytes`, an attribute that is a field name of `specs` read or assigned on it, a thrift constructor / from_buffer / "
    "copy of such, iteration over or indexing of a thrift list (row_groups, columns, schema, key_value_metadata, schema_elements ...), or a "
    "thrift-evident argument passed to the function by a caller in the scanned files; a subscript store / delete on a receiver WITHOUT any "
    "such evidence whose key is not a marker literal is a store into an API-level container (dtype / category / frame / numpy), not into a "
    "thrift dict",
]

FILES = ["fastparquet/api.py", "fastparquet/schema.py", "fastparquet/writer.py", "fastparquet/util.py", "fastparquet/core.py", "fastparquet/dataframe.py",
         "fastparquet/converted_types.py", "fastparquet/encoding.py", "fastparquet/compression.py", "fastparquet/json.py", "fastparquet/evolve.py",
         "fastparquet/thrift_structures.py", "fastparquet/__init__.py"]
MARKERS = ("i32", "i32list")
MUTATORS = {"pop", "popitem", "clear", "update", "setdefault", "__delitem__", "__setitem__"}
READERS = {"get", "items", "keys", "values", "copy", "__contains__", "__getitem__", "__len__", "__iter__"}
PURE_FUNCS = {"len", "list", "set", "sorted", "tuple", "dict", "iter", "dict_eq", "isinstance", "str", "repr", "print", "bool", "any", "all", "sum", "min", "max",
              "enumerate", "zip", "frozenset", "reversed", "id", "type", "hash"}
NONTHRIFT_CALLS = {"dict", "OrderedDict", "defaultdict", "list", "set", "tuple", "frozenset", "bytearray", "Counter", "deque", "vars", "locals", "globals", "sorted"}
NONTHRIFT_ROOTS = {"np", "numpy", "pd", "pandas", "json", "os", "re", "struct", "io", "fsspec", "collections", "itertools", "operator"}
THRIFT_LIST_NAMES = {"schema_elements", "row_groups", "columns", "key_value_metadata", "schema", "_schema", "sorting_columns", "encoding_stats", "column_orders"}
SAFE_BUILTINS = {"isinstance": isinstance, "int": int, "str": str, "bytes": bytes, "bool": bool, "float": float, "len": len, "type": type, "tuple": tuple,
                 "list": list, "set": set, "dict": dict, "True": True, "False": False, "None": None, "any": any, "all": all, "hasattr": hasattr, "ord": ord,
                 "repr": repr, "callable": callable, "frozenset": frozenset, "abs": abs, "min": min, "max": max, "getattr": getattr}


def parents(tree):
    pm = {}
    for n in ast.walk(tree):
        for c in ast.iter_child_nodes(n):
            pm[c] = n
    return pm


def root_name(e):
    while isinstance(e, (ast.Attribute, ast.Subscript, ast.Call)):
        e = e.value if not isinstance(e, ast.Call) else e.func
    return e.id if isinstance(e, ast.Name) else None


class Func:
    """one function (or the module body): bindings of names, thrift evidence"""

    def __init__(self, node, qual, fields, childs):
        self.node, self.qual = node, qual
        self.fields, self.childs = fields, childs
        self.bind = {}                      # name -> [value expr | ('iter', expr) | ('param',) | ('other',)]
        self.evident = set()
        self.collect()

    def own_nodes(self):
        """nodes of this function without nested function bodies"""
        stack = list(ast.iter_child_nodes(self.node))
        while stack:
            n = stack.pop()
            yield n
            if isinstance(n, (ast.FunctionDef, ast.AsyncFunctionDef, ast.ClassDef, ast.Lambda)) and n is not self.node:
                continue
            stack += list(ast.iter_child_nodes(n))

    def collect(self):
        if isinstance(self.node, (ast.FunctionDef, ast.AsyncFunctionDef)):
            a = self.node.args
            for x in list(a.posonlyargs) + list(a.args) + list(a.kwonlyargs):
                self.bind.setdefault(x.arg, []).append(("param",))
            if a.vararg:
                self.bind.setdefault(a.vararg.arg, []).append(ast.Tuple(elts=[], ctx=ast.Load()))
            if a.kwarg:
                self.bind.setdefault(a.kwarg.arg, []).append(ast.Dict(keys=[], values=[]))
        for n in self.own_nodes():
            if isinstance(n, ast.Assign):
                for t in n.targets:
                    self._bind_target(t, n.value)
            elif isinstance(n, ast.AnnAssign) and n.value is not None:
                self._bind_target(n.target, n.value)
            elif isinstance(n, ast.AugAssign):
                self._bind_target(n.target, ("other",))
            elif isinstance(n, (ast.For, ast.AsyncFor)):
                self._bind_target(n.target, ("iter", n.iter))
            elif isinstance(n, ast.comprehension):
                self._bind_target(n.target, ("iter", n.iter))
            elif isinstance(n, (ast.With, ast.AsyncWith)):
                for it in n.items:
                    if it.optional_vars is not None:
                        self._bind_target(it.optional_vars, ("other",))
            elif isinstance(n, ast.NamedExpr):
                self._bind_target(n.target, n.value)
            elif isinstance(n, ast.ExceptHandler) and n.name:
                self.bind.setdefault(n.name, []).append(("other",))
            elif isinstance(n, (ast.Import, ast.ImportFrom)):
                for al in n.names:
                    self.bind.setdefault((al.asname or al.name).split(".")[0], []).append(("module",))
            elif isinstance(n, (ast.Global, ast.Nonlocal)):
                for nm in n.names:
                    self.bind.setdefault(nm, []).append(("other",))

    def _bind_target(self, t, v):
        if isinstance(t, ast.Name):
            self.bind.setdefault(t.id, []).append(v)
        elif isinstance(t, (ast.Tuple, ast.List)):
            if isinstance(v, (ast.Tuple, ast.List)) and len(v.elts) == len(t.elts):
                for tt, vv in zip(t.elts, v.elts):
                    self._bind_target(tt, vv)
            elif isinstance(v, tuple) and v[0] == "iter":
                for tt in t.elts:
                    self._bind_target(tt, ("iterpart", v[1]))
            else:
                for tt in t.elts:
                    self._bind_target(tt, ("other",))
        elif isinstance(t, ast.Starred):
            self._bind_target(t.value, ("other",))

    # ---- thrift evidence ----
    def thrift_expr(self, e, depth=0):
        """the expression evidently yields a ThriftObject / a list of them / a thrift dict"""
        if depth > 6 or e is None:
            return False
        if isinstance(e, ast.Name):
            return e.id in self.evident or e.id in THRIFT_LIST_NAMES
        if isinstance(e, ast.Attribute):
            if e.attr in ("contents", "fmd", "_schema") or e.attr in self.childs or e.attr in THRIFT_LIST_NAMES:
                return True
            return False
        if isinstance(e, ast.Subscript):
            return self.thrift_expr(e.value, depth + 1)
        if isinstance(e, ast.Call):
            f = e.func
            if isinstance(f, ast.Attribute) and isinstance(f.value, ast.Name) and f.value.id == "parquet_thrift" and f.attr[:1].isupper():
                return True
            if isinstance(f, ast.Attribute) and f.attr in ("from_fields", "from_buffer"):
                return True
            if isinstance(f, ast.Name) and f.id in ("from_buffer", "ThriftObject", "read_thrift"):
                return True
            if isinstance(f, ast.Attribute) and f.attr in ("copy", "deepcopy", "__copy__") and (e.args and self.thrift_expr(e.args[0], depth + 1) or self.thrift_expr(f.value, depth + 1)):
                return True
            if isinstance(f, ast.Name) and f.id in ("copy", "deepcopy", "list", "sorted", "reversed", "tuple", "iter", "next", "enumerate", "zip") and e.args:
                return any(self.thrift_expr(a, depth + 1) for a in e.args)
            return False
        if isinstance(e, (ast.ListComp, ast.GeneratorExp)):
            return self.thrift_expr(e.elt, depth + 1)
        if isinstance(e, (ast.List, ast.Tuple)):
            return any(self.thrift_expr(x, depth + 1) for x in e.elts)
        if isinstance(e, ast.IfExp):
            return self.thrift_expr(e.body, depth + 1) or self.thrift_expr(e.orelse, depth + 1)
        if isinstance(e, ast.BoolOp):
            return any(self.thrift_expr(v, depth + 1) for v in e.values)
        return False

    def find_evidence(self, extra_params=()):
        self.evident |= set(extra_params)
        # direct use: X.contents / X.thrift_name / X.to_bytes / X.<specs field> on a plain name
        for n in self.own_nodes():
            if isinstance(n, ast.Attribute) and isinstance(n.value, ast.Name) and n.value.id != "self":
                if n.attr in ("contents", "thrift_name", "to_bytes", "_asdict") or n.attr in self.fields or n.attr in self.childs:
                    if n.attr not in ("name", "columns", "type", "schema", "value", "key", "encoding", "scale", "precision", "unit", "count", "version", "max", "min"):
                        self.evident.add(n.value.id)
                    elif n.attr in ("contents",):
                        self.evident.add(n.value.id)
        for _ in range(6):
            before = len(self.evident)
            for nm, vals in self.bind.items():
                if nm in self.evident:
                    continue
                for v in vals:
                    if isinstance(v, tuple):
                        if v[0] in ("iter", "iterpart") and self.thrift_expr(v[1]):
                            self.evident.add(nm)
                    elif self.thrift_expr(v):
                        self.evident.add(nm)
            if len(self.evident) == before:
                break

    def nonthrift_value(self, v, depth=0):
        """the bound value is certainly not a ThriftObject / thrift dict"""
        if isinstance(v, tuple):
            if v[0] == "module":
                return True
            if v[0] in ("iter", "iterpart"):
                it = v[1]
                if isinstance(it, ast.Call) and isinstance(it.func, ast.Name) and it.func.id == "range":
                    return True
                return False
            return False
        if isinstance(v, (ast.Dict, ast.List, ast.Set, ast.Tuple, ast.ListComp, ast.DictComp, ast.SetComp, ast.GeneratorExp, ast.Constant, ast.JoinedStr, ast.Compare,
                          ast.BinOp, ast.UnaryOp)):
            return not self.thrift_expr(v)
        if isinstance(v, ast.Call):
            f = v.func
            if isinstance(f, ast.Name) and f.id in NONTHRIFT_CALLS and not any(self.thrift_expr(a) for a in v.args):
                return True
            r = root_name(f)
            if r in NONTHRIFT_ROOTS:
                return True
            if isinstance(f, ast.Attribute) and f.attr in ("copy", "astype", "view", "reshape", "values", "to_numpy", "split", "rsplit", "items", "keys") and depth < 3:
                return isinstance(f.value, ast.Name) and self.nonthrift_name(f.value.id, depth + 1)
            return False
        if isinstance(v, ast.Name) and depth < 3:
            return self.nonthrift_name(v.id, depth + 1)
        if isinstance(v, ast.Attribute) and isinstance(v.value, ast.Name) and v.value.id == "self" and v.attr == "__dict__":
            return True
        return False

    def nonthrift_name(self, nm, depth=0):
        vals = self.bind.get(nm)
        if not vals or nm in self.evident:
            return False
        return all(self.nonthrift_value(v, depth) for v in vals)


def eval_marker(filters, elt, var, marker):
    """does `marker` pass every filter (-> the value of elt) ?  -> (True, key) | (False, None) | None when not evaluable"""
    env = {"__builtins__": {}}
    env.update(SAFE_BUILTINS)
    try:
        for v, test, pol in filters:
            env[v] = marker
            r = bool(eval(compile(ast.Expression(body=test), "<pred>", "eval"), env))
            if r != pol:
                return (False, None)
        env[var] = marker
        return (True, eval(compile(ast.Expression(body=elt), "<elt>", "eval"), env)) if elt is not None else (True, marker)
    except Exception:
        return None


class Scanner:
    def __init__(self, rel, tree, fields, childs, evident_params):
        self.rel, self.tree = rel, tree
        self.pm = parents(tree)
        self.fields, self.childs = fields, childs
        self.funcs = {}
        self.module_func = Func(tree, "<module>", fields, childs)
        self.module_func.find_evidence()
        self.evident_params = evident_params
        self.out = []                 # (line, func, text, status, detail)
        self.passes = []              # (callee simple name, arg index | kw name) for thrift-evident arguments

    def func_of(self, n):
        chain = []
        p = n
        while p in self.pm:
            p = self.pm[p]
            if isinstance(p, (ast.FunctionDef, ast.AsyncFunctionDef)):
                chain.append(p)
        if not chain:
            return self.module_func
        fn = chain[0]
        if fn not in self.funcs:
            names = []
            q = fn
            while q in self.pm:
                q = self.pm[q]
                if isinstance(q, (ast.FunctionDef, ast.AsyncFunctionDef, ast.ClassDef)):
                    names.append(q.name)
            f = Func(fn, ".".join(list(reversed(names)) + [fn.name]), self.fields, self.childs)
            f.find_evidence(self.evident_params.get(fn.name, ()))
            self.funcs[fn] = f
        return self.funcs[fn]

    # ---- key analysis ----
    def key_literal(self, k):
        """'not-marker' | 'marker' | None"""
        if isinstance(k, ast.Slice):
            return "not-marker"
        if isinstance(k, ast.Constant):
            return "marker" if k.value in MARKERS else "not-marker"
        if isinstance(k, ast.UnaryOp) and isinstance(k.operand, ast.Constant) and isinstance(k.operand.value, (int, float)):
            return "not-marker"
        if isinstance(k, ast.Tuple):
            return "not-marker"
        if isinstance(k, (ast.BinOp,)) and not any(isinstance(x, ast.Constant) and x.value in MARKERS for x in ast.walk(k)):
            # arithmetic / concatenation: a number, or a string with something appended (col + '-catdef')
            if any(isinstance(x, ast.Constant) and isinstance(x.value, str) and x.value for x in ast.walk(k)):
                return "not-marker"
        if isinstance(k, ast.Compare):
            return "not-marker"           # boolean mask index (numpy)
        if isinstance(k, ast.Call) and isinstance(k.func, ast.Name) and k.func.id in ("int", "len", "slice", "float", "bool"):
            return "not-marker"
        return None

    def int_name(self, nm, F, depth=0):
        """every binding of the name in the function produces a Python int (list.index, len, int, range, integer literals / arithmetic)"""
        vals = F.bind.get(nm)
        if not vals or depth > 3:
            return False

        def is_int(v):
            if isinstance(v, tuple):
                return v[0] == "iter" and isinstance(v[1], ast.Call) and isinstance(v[1].func, ast.Name) and v[1].func.id == "range"
            if isinstance(v, ast.Constant):
                return isinstance(v.value, int)
            if isinstance(v, ast.Call):
                f = v.func
                return (isinstance(f, ast.Name) and f.id in ("len", "int")) or (isinstance(f, ast.Attribute) and f.attr in ("index", "find", "rfind", "tell", "bit_length"))
            if isinstance(v, ast.BinOp):
                return is_int(v.left) and is_int(v.right)
            if isinstance(v, ast.Name):
                return self.int_name(v.id, F, depth + 1)
            return False
        return all(is_int(v) for v in vals)

    def source(self, e, F, depth=0):
        """resolve an iterable of keys: -> ('thrift', root name | None, filters, elt, var) | ('other',) ; filters = [(var, test, polarity)]"""
        if depth > 6:
            return ("other",)
        if isinstance(e, (ast.ListComp, ast.SetComp, ast.GeneratorExp)) and len(e.generators) == 1 and isinstance(e.generators[0].target, ast.Name):
            g = e.generators[0]
            s = self.source(g.iter, F, depth + 1)
            if s[0] != "thrift":
                return s
            v = g.target.id
            fl = list(s[2])
            # the inner element feeds this variable: only the identity mapping is followed
            if s[3] is not None and not (isinstance(s[3], ast.Name) and s[3].id == s[4]):
                return ("other",)
            fl = [(v if fv == s[4] else fv, _rename(t, s[4], v), pol) for fv, t, pol in fl] + [(v, t, True) for t in g.ifs]
            return ("thrift", s[1], fl, e.elt, v)
        if isinstance(e, ast.Call):
            f = e.func
            if isinstance(f, ast.Name) and f.id in ("list", "set", "sorted", "tuple", "reversed", "iter", "frozenset") and e.args:
                return self.source(e.args[0], F, depth + 1)
            if isinstance(f, ast.Attribute) and f.attr in ("keys", "copy") and not e.args:
                return self.source(f.value, F, depth + 1)
            if isinstance(f, ast.Name) and f.id == "filter" and len(e.args) == 2 and isinstance(e.args[0], ast.Lambda) and len(e.args[0].args.args) == 1:
                s = self.source(e.args[1], F, depth + 1)
                if s[0] != "thrift" or s[3] is not None and not (isinstance(s[3], ast.Name) and s[3].id == s[4]):
                    return ("other",)
                v = e.args[0].args.args[0].arg
                fl = [(v if fv == s[4] else fv, _rename(t, s[4], v), pol) for fv, t, pol in s[2]] + [(v, e.args[0].body, True)]
                return ("thrift", s[1], fl, None, v)
            return ("other",)
        if isinstance(e, ast.Attribute) and e.attr == "contents":
            return ("thrift", root_name(e.value), [], None, "__k__")
        if isinstance(e, ast.Name):
            vals = F.bind.get(e.id, [])
            if e.id in F.evident and all(isinstance(v, tuple) for v in vals):
                return ("thrift", e.id, [], None, "__k__")          # a thrift-evident parameter (a dict handed in by a caller)
            if len(vals) == 1 and not isinstance(vals[0], tuple):
                return self.source(vals[0], F, depth + 1)
            if e.id in F.evident:
                return ("thrift", e.id, [], None, "__k__")
        return ("other",)

    def guards(self, site, loop):
        """`if` tests between the binding loop / comprehension and the site, and `if P: continue|break|return|raise` guards preceding it"""
        out = []
        n = site
        while n in self.pm and self.pm[n] is not loop:
            p = self.pm[n]
            if isinstance(p, ast.If):
                if n in p.body:
                    out.append((p.test, True))
                elif n in p.orelse:
                    out.append((p.test, False))
            for fld in ("body", "orelse", "finalbody"):
                blk = getattr(p, fld, None)
                if isinstance(blk, list) and n in blk:
                    for prev in blk[:blk.index(n)]:
                        if isinstance(prev, ast.If) and not prev.orelse and prev.body and isinstance(prev.body[-1], (ast.Continue, ast.Break, ast.Return, ast.Raise)):
                            out.append((prev.test, False))
            n = p
        if isinstance(loop, (ast.For, ast.AsyncFor)) and n in loop.body:
            for prev in loop.body[:loop.body.index(n)]:
                if isinstance(prev, ast.If) and not prev.orelse and prev.body and isinstance(prev.body[-1], (ast.Continue, ast.Break, ast.Return, ast.Raise)):
                    out.append((prev.test, False))
        return out

    def key_set(self, k, site, F):
        """the key is a loop / comprehension variable over thrift keys: -> ('hit', marker, root) | ('miss', root) | None"""
        if not isinstance(k, ast.Name):
            return None
        n = site
        loop = None
        while n in self.pm:
            n = self.pm[n]
            if isinstance(n, (ast.For, ast.AsyncFor)) and isinstance(n.target, ast.Name) and n.target.id == k.id:
                loop, it = n, n.iter
                break
            if isinstance(n, (ast.ListComp, ast.SetComp, ast.GeneratorExp, ast.DictComp)):
                g = next((g for g in n.generators if isinstance(g.target, ast.Name) and g.target.id == k.id), None)
                if g is not None:
                    loop, it = n, g.iter
                    extra = [(k.id, t, True) for t in g.ifs]
                    break
            if isinstance(n, (ast.FunctionDef, ast.AsyncFunctionDef)):
                break
        if loop is None:
            return None
        s = self.source(it, F)
        if s[0] != "thrift":
            return None
        if s[3] is not None and not (isinstance(s[3], ast.Name) and s[3].id == s[4]):
            elt, var = s[3], s[4]
        else:
            elt, var = None, s[4]
        filters = list(s[2])
        # the loop variable takes the produced key: guards on it are evaluated with the produced value
        post = [(k.id, t, pol) for t, pol in self.guards(site, loop)]
        if isinstance(loop, (ast.ListComp, ast.SetComp, ast.GeneratorExp, ast.DictComp)):
            post += extra
        undecided = False
        for m in MARKERS:
            r = eval_marker(filters, elt, var, m)
            if r is None:
                undecided = True
                continue
            if not r[0]:
                continue
            r2 = eval_marker(post, None, k.id, r[1])
            if r2 is None:
                undecided = True
                continue
            if r2[0] and r[1] in MARKERS:
                return ("hit", r[1], s[1])
        return None if undecided else ("miss", s[1])

    # ---- receivers ----
    def receiver(self, r, F):
        """'thrift' | 'nonthrift' | 'noevidence'"""
        if isinstance(r, ast.Attribute) and r.attr == "contents":
            return "thrift"
        if isinstance(r, ast.Attribute) and r.attr == "__dict__":
            return "nonthrift"
        rn = root_name(r)
        if isinstance(r, ast.Name):
            if r.id in F.evident:
                return "thrift"
            if F.nonthrift_name(r.id) or (r.id not in F.bind and self.module_func.nonthrift_name(r.id)):
                return "nonthrift"
            return "noevidence"
        if isinstance(r, ast.Subscript):
            # an element of a container: of a thrift list -> thrift; the value under a STRING key of a thrift object is a helper the .py code
            # stored there ('children', 'isflat'), not the struct's dict
            if isinstance(r.slice, ast.Constant) and isinstance(r.slice.value, str) and r.slice.value not in MARKERS:
                return "nonthrift" if self.helper_values_nonthrift(r.slice.value) else "noevidence"
            inner = self.receiver(r.value, F)
            return inner if inner != "thrift" or F.thrift_expr(r) else "thrift"
        if isinstance(r, ast.Attribute):
            if F.thrift_expr(r):
                return "thrift"
            if rn in NONTHRIFT_ROOTS or (rn is not None and rn != "self" and F.nonthrift_name(rn)):
                return "nonthrift"
            return "noevidence"
        if isinstance(r, ast.Call):
            return "thrift" if F.thrift_expr(r) else ("nonthrift" if F.nonthrift_value(r) else "noevidence")
        return "noevidence"

    def helper_values_nonthrift(self, key):
        """every store `X['<key>'] = V` of the scanned file stores a non-thrift constructor"""
        vals = []
        for n in ast.walk(self.tree):
            if isinstance(n, ast.Assign):
                for t in n.targets:
                    if isinstance(t, ast.Subscript) and isinstance(t.slice, ast.Constant) and t.slice.value == key:
                        vals.append(n.value)
        if not vals:
            return False
        return all(isinstance(v, (ast.Dict, ast.List, ast.Constant, ast.Compare, ast.BoolOp, ast.UnaryOp)) or
                   (isinstance(v, ast.Call) and isinstance(v.func, ast.Name) and v.func.id in NONTHRIFT_CALLS) for v in vals)

    # ---- sites ----
    def decide(self, node, recv, key, what, F, destructive_all=False):
        txt = ast.unparse(node)[:90].replace("\n", " ")
        line = node.lineno
        if destructive_all:
            rc = self.receiver(recv, F)
            if rc == "thrift":
                return self.add(line, F, txt, REFUTED, f"{what} on a thrift dict removes / may overwrite the 'i32' / 'i32list' marker keys", {"receiver": ast.unparse(recv)})
            if rc == "nonthrift":
                return self.add(line, F, txt, PROVED, "the receiver is not a thrift dict (built by a non-thrift constructor in this function)")
            return self.add(line, F, txt, PROVED, "no evidence that the receiver is a thrift object (assumption marker.frame)")
        lit = self.key_literal(key) if key is not None else None
        if lit is None and isinstance(key, ast.Name) and self.int_name(key.id, F):
            lit = "not-marker"
        if lit == "not-marker":
            return self.add(line, F, txt, PROVED, "the key is a literal / slice / number that is not a marker key")
        ks = self.key_set(key, node, F) if key is not None else None
        rc = self.receiver(recv, F)
        if ks is not None and ks[0] == "hit":
            same = rc == "thrift" or (ks[2] is not None and ks[2] == root_name(recv))
            if same:
                return self.add(line, F, txt, REFUTED,
                                f"{what}: the key ranges over the keys of a thrift dict and the marker key {ks[1]!r} passes every filter on the way "
                                "(the real predicate expressions evaluated on the marker keys): the integer-width marker is removed / overwritten, the "
                                "struct's 32-bit integers are re-serialised as i64", {"receiver": ast.unparse(recv), "marker_key_reached": ks[1]})
            return self.add(line, F, txt, UNKNOWN, "keys of a thrift dict (marker included) applied to another receiver: undecided")
        if ks is not None and ks[0] == "miss":
            return self.add(line, F, txt, PROVED, "the key ranges over the keys of a thrift dict filtered by a predicate that both marker keys fail (evaluated)")
        if rc == "nonthrift":
            return self.add(line, F, txt, PROVED, "the receiver is not a thrift dict (built by a non-thrift constructor / a module table)")
        if lit == "marker":
            return self.add(line, F, txt, REFUTED if rc == "thrift" else UNKNOWN, f"{what} with a marker key as a literal", {"receiver": ast.unparse(recv)})
        if rc == "thrift":
            return self.add(line, F, txt, UNKNOWN, f"{what} on a thrift object with a key whose value set is not derivable: undecided (not a violation)")
        return self.add(line, F, txt, PROVED, "no evidence that the receiver is a thrift object (assumption marker.frame); the key is not a marker literal")

    def add(self, line, F, txt, st, detail, model=None):
        self.out.append((line, F.qual, txt, st, detail, model))

    def scan(self):
        for n in ast.walk(self.tree):
            if isinstance(n, ast.Delete):
                for t in n.targets:
                    if isinstance(t, ast.Subscript):
                        self.decide(n, t.value, t.slice, "del", self.func_of(n))
            elif isinstance(n, (ast.Assign, ast.AugAssign, ast.AnnAssign)):
                tg = n.targets if isinstance(n, ast.Assign) else [n.target]
                for t in tg:
                    for y in ([t] if not isinstance(t, (ast.Tuple, ast.List)) else list(ast.walk(t))):
                        if isinstance(y, ast.Subscript) and isinstance(y.ctx, ast.Store):
                            self.decide(n, y.value, y.slice, "item assignment", self.func_of(n))
            elif isinstance(n, ast.Call):
                f = n.func
                F = self.func_of(n)
                if isinstance(f, ast.Attribute) and f.attr in MUTATORS:
                    if f.attr in ("popitem", "clear"):
                        self.decide(n, f.value, None, "." + f.attr + "()", F, destructive_all=True)
                    elif f.attr == "update":
                        d = n.args[0] if n.args else None
                        if isinstance(d, ast.Dict) and all(k is not None and self.key_literal(k) == "not-marker" for k in d.keys) and not n.keywords:
                            self.add(n.lineno, F, ast.unparse(n)[:90], PROVED, "update with literal keys that are not marker keys")
                        elif not n.args and n.keywords and all(k.arg not in MARKERS and k.arg is not None for k in n.keywords):
                            self.add(n.lineno, F, ast.unparse(n)[:90], PROVED, "update with keyword names that are not marker keys")
                        else:
                            rc = self.receiver(f.value, F)
                            self.add(n.lineno, F, ast.unparse(n)[:90], UNKNOWN if rc == "thrift" else PROVED,
                                     ".update(<mapping>) on a thrift dict: the key set is not derivable (undecided)" if rc == "thrift" else
                                     ("the receiver is not a thrift dict" if rc == "nonthrift" else "no evidence that the receiver is a thrift object (assumption marker.frame)"))
                    elif n.args:
                        self.decide(n, f.value, n.args[0], "." + f.attr + "(key)", F)
                # ThriftObject(name, <dict>) : the struct's dict is replaced wholesale
                if (isinstance(f, ast.Name) and f.id == "ThriftObject" or isinstance(f, ast.Attribute) and f.attr == "ThriftObject") and len(n.args) == 2:
                    self.rewrap(n, n.args[1], F)
                # thrift-evident arguments handed to functions of the scanned files
                cal = f.id if isinstance(f, ast.Name) else f.attr if isinstance(f, ast.Attribute) else None
                if cal:
                    for i, a in enumerate(n.args):
                        if F.thrift_expr(a) or (isinstance(a, ast.Name) and a.id in F.evident):
                            self.passes.append((cal, i, isinstance(f, ast.Attribute)))
                    for kw in n.keywords:
                        if kw.arg and (F.thrift_expr(kw.value) or (isinstance(kw.value, ast.Name) and kw.value.id in F.evident)):
                            self.passes.append((cal, kw.arg, isinstance(f, ast.Attribute)))
            elif isinstance(n, ast.Attribute) and n.attr == "contents" and isinstance(n.ctx, ast.Load):
                self.contents_use(n)

    def rewrap(self, n, d, F):
        txt = ast.unparse(n)[:90]
        if isinstance(d, ast.Attribute) and d.attr == "contents" or (isinstance(d, ast.Call) and isinstance(d.func, ast.Attribute) and d.func.attr == "copy"
                                                                     and isinstance(d.func.value, ast.Attribute) and d.func.value.attr == "contents"):
            return self.add(n.lineno, F, txt, PROVED, "the new object wraps the same dict / a copy with every key")
        if isinstance(d, ast.DictComp) and len(d.generators) == 1:
            g = d.generators[0]
            it = g.iter
            src_items = isinstance(it, ast.Call) and isinstance(it.func, ast.Attribute) and it.func.attr == "items" and self.source(it.func.value, F)[0] == "thrift"
            if src_items and isinstance(g.target, ast.Tuple) and len(g.target.elts) == 2 and isinstance(g.target.elts[0], ast.Name):
                kv = g.target.elts[0].id
                kept, und = [], False
                for m in MARKERS:
                    r = eval_marker([(kv, t, True) for t in g.ifs], d.key, kv, m)
                    if r is None:
                        und = True
                    elif r[0] and r[1] == m:
                        kept.append(m)
                if und:
                    return self.add(n.lineno, F, txt, UNKNOWN, "a struct's dict rebuilt by a comprehension whose predicate is not evaluable: undecided")
                if len(kept) < len(MARKERS):
                    return self.add(n.lineno, F, txt, REFUTED, "the struct's dict is rebuilt from the old one by a comprehension that drops the marker key(s) "
                                    + ", ".join(repr(m) for m in MARKERS if m not in kept), {"dropped": [m for m in MARKERS if m not in kept]})
                return self.add(n.lineno, F, txt, PROVED, "the rebuilt dict keeps both marker keys (predicate evaluated)")
        if isinstance(d, ast.Dict) or (isinstance(d, ast.Call) and isinstance(d.func, ast.Name) and d.func.id in ("dict", "read_thrift")):
            return self.add(n.lineno, F, txt, PROVED if not F.thrift_expr(d) else UNKNOWN, "a new struct from a new dict (construction: ctor.marker_matches_idl decides its marker)")
        return self.add(n.lineno, F, txt, UNKNOWN, "ThriftObject(name, <dict expression>): whether the marker keys of the source survive is not derivable (undecided)")

    def contents_use(self, n):
        p = self.pm.get(n)
        F = self.func_of(n)
        ok = False
        if isinstance(p, ast.Subscript) and p.value is n:
            ok = True                               # handled as a subscript site (or a read)
        elif isinstance(p, ast.Attribute) and p.value is n:
            gp = self.pm.get(p)
            ok = isinstance(gp, ast.Call) and gp.func is p and (p.attr in READERS or p.attr in MUTATORS)
        elif isinstance(p, ast.Compare):
            ok = True
        elif isinstance(p, (ast.For, ast.AsyncFor, ast.comprehension)) and p.iter is n:
            ok = True
        elif isinstance(p, ast.Call) and n in p.args:
            f = p.func
            cal = f.id if isinstance(f, ast.Name) else f.attr if isinstance(f, ast.Attribute) else None
            ok = cal in PURE_FUNCS or cal == "ThriftObject" or cal in self.known_funcs
        elif isinstance(p, (ast.Assign, ast.AnnAssign, ast.NamedExpr)) and getattr(p, "value", None) is n:
            ok = True                               # an alias: the bound name is thrift-evident (find_evidence)
        elif isinstance(p, (ast.Return, ast.BoolOp, ast.IfExp, ast.Tuple, ast.List, ast.Dict, ast.keyword, ast.Expr, ast.Assert, ast.UnaryOp, ast.JoinedStr, ast.FormattedValue)):
            ok = isinstance(p, (ast.BoolOp, ast.IfExp, ast.Expr, ast.Assert, ast.UnaryOp, ast.JoinedStr, ast.FormattedValue))
        if not ok:
            self.add(n.lineno, F, ast.unparse(p if p is not None else n)[:90], UNKNOWN,
                     "`.contents` (the struct's dict with its marker keys) escapes to code that is not known to only read it: undecided")

    known_funcs = set()


def _rename(t, old, new):
    if old == new:
        return t
    import copy as _c
    t2 = _c.deepcopy(t)
    for n in ast.walk(t2):
        if isinstance(n, ast.Name) and n.id == old:
            n.id = new
    return t2


def check(ctx=None, timeout=None):
    res = KResults()
    text = open(os.path.join(REPO, "fastparquet", "cencoding.pyx")).read()
    specs, children = parse_tables(text)
    fields = {f for s in specs.values() for f in s}
    childs = {f for c in children.values() for f in c}
    trees = {}
    for rel in FILES:
        path = os.path.join(REPO, rel)
        if os.path.exists(path):
            try:
                trees[rel] = ast.parse(open(path).read())
            except SyntaxError as ex:
                res.addk(f"marker.frame[{rel}].out_of_reach", "functional", UNKNOWN, None, 0.0, "ast", str(ex))
    defined = {}
    for rel, tree in trees.items():
        for n in ast.walk(tree):
            if isinstance(n, (ast.FunctionDef, ast.AsyncFunctionDef)):
                defined.setdefault(n.name, []).append(n)
    Scanner.known_funcs = set(defined)
    evident_params = {}
    scans = {}
    for rnd in range(4):
        passes = []
        for rel, tree in trees.items():
            sc = Scanner(rel, tree, fields, childs, evident_params)
            sc.scan()
            scans[rel] = sc
            passes += sc.passes
        new = {k: set(v) for k, v in evident_params.items()}
        for cal, idx, is_method in passes:
            for fdef in defined.get(cal, []):
                params = [a.arg for a in fdef.args.args]
                if is_method and params[:1] == ["self"]:
                    params = params[1:]
                pn = params[idx] if isinstance(idx, int) and idx < len(params) else idx if isinstance(idx, str) and idx in params else None
                if pn:
                    new.setdefault(cal, set()).add(pn)
        if new == evident_params:
            break
        evident_params = new
    n = 0
    for rel, sc in scans.items():
        for line, fn, txt, st, detail, model in sorted(sc.out, key=lambda x: (x[0], x[2])):
            n += 1
            res.addk(f"marker.frame[{rel}:{line}:{fn}: {txt}]", "functional", st, dict(model or {}, site=f"{rel}:{line}", statement=txt) if st == REFUTED else None,
                     0.0, "ast+eval", detail)
    res.addk("marker.frame.sites_scanned", "functional", PROVED if n >= 40 else UNKNOWN, None, 0.0, "ast",
             f"{n} statements that delete / pop / clear / update / store into a mapping scanned in {len(trees)} files")
    return res
