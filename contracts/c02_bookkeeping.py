"""C02 / C04 / C01 - size / offset / count bookkeeping of the writer (real source of fastparquet/writer.py, by ast).

write_column(f, data0, selement, compression, datapage_version, stats)      [run once per data-page version 1, 2]
  ghost file: position = bytes written so far; f.write(b) advances by len(b); write_thrift(f, ph) is a callee with the contract
  "writes k >= 1 bytes at the current position and returns k" and is the event "a page header starts here".
  byte strings are (stored length n, plain length = length of the decompressed form, codec segments); len() of an opaque byte
  string is an uninterpreted non-negative integer; compress_data(x, c) returns bytes of unknown length whose plain length is len(x).
  The page loop is run for ONE arbitrary page; every variable the loop body assigns is havoc'd under the invariant
        f.pos - column_chunk_start == H + C      diff == U - C      global_num_nulls == N == NULLS(data0[0:V])      V == row_offsets[t]
        first_page <=> no data page yet (then nothing was written, data_page_offset == f.pos);  else data_page_offset == offset of the
        first DATA page header;  dict page written <=> dict_page_offset is not None <=> cats <=> encoding == RLE_DICTIONARY
  (H header bytes, C stored payload bytes, U plain payload bytes, N nulls, V values of the pages so far), proved on entry and after the body.
make_row_group(f, data, schema, compression, stats)   write_column by its contract; loop over an abstract schema
iter_dataframe(data, row_group_offsets)               generator; list(range(0, n, c)) and explicit offset lists by an abstract model
Execution: the WHOLE of write_column is executed (nothing dropped).  Phase A runs the prologue on every path up to the page loop; the
paths are joined at the loop head (common path-condition conjuncts and variables kept, differing ones - max / min / stats of the
statistics block - made arbitrary); phase B runs loop + epilogue on the joined state.  Paths with the same ghost state are merged at
the join of each `if` (ints / bools exactly by if-then-else, pandas objects to an arbitrary opaque value).

Obligations (prefix write_column[v1|v2].):
  page_tiling.{first_page_starts_at_row_0, last_page_ends_at_len_data0, pages_adjacent, every_page_has_rows_and_is_inside, no_page_iff_no_rows}
  page_loop.invariant_on_entry[..] / invariant_preserved[..] (13 conjuncts, named)   page_loop.encoding_fixed_after_first_data_page
  page.{every_byte_belongs_to_a_page, exactly_one_data_page_per_tile, rows_are_the_tile}
  page.<kind>.{compressed_page_size_is_bytes_after_header, uncompressed_page_size_is_plain_length}  kind in data_page_v1, data_page_v2, dictionary_page
  page.dictionary_page.is_first_and_only    page.data_page_v*.num_values_is_rows_of_page
  page.data_page_v2.{num_rows_is_num_values, num_nulls_is_nulls_of_page, level_lengths_describe_the_bytes}
  colmeta.{total_compressed_size_is_chunk_bytes, total_uncompressed_size_is_headers_plus_plain, num_values_is_len_data0_is_sum_of_pages,
           data_page_offset_is_first_data_page_header, dictionary_page_offset_iff_dictionary_page, encodings_are_the_page_encodings,
           encoding_stats_counts_and_encodings, encoding_stats_page_type}     chunk.file_offset_is_column_chunk_start
  statistics.null_count_is_missing_cells   statistics.{max,min}_is_plain_encoding_of_column_{max,min}   statistics.max_and_min_both_present_or_both_absent
  definition_block_form_matches_page_version   (call site of make_definitions; cut: C11 deflevels.block_is_spec[v1|v2])
  page.payload_codec_is_colmeta_codec, data_page_v2.values_codec_is_colmeta_codec_iff_is_compressed  (+ "[compression is not a dict lacking 'type']")
     posed over (page of an arbitrary iteration, exit state) pairs: both sides only depend on the loop-invariant `compression` argument
make_row_group.{chunk_written_from_the_column_named_by_its_schema_element, empty_frame_returns_None_without_writing, nonempty_frame_returns_a_row_group, rg.num_rows_is_len_data,
  rg.total_byte_size_is_sum_of_total_uncompressed_size, rg.columns_are_the_chunks_in_schema_order, one_chunk_per_typed_schema_element_in_schema_order,
  chunk_num_values_is_num_rows, schema_loop.invariant_*}
iter_dataframe[int|None|list].{chunk.one_slice_per_offset, chunk.starts_at_its_offset_first_at_0, chunk.slices_adjacent_last_open_ended,
  chunk.slices_ordered, zero_offsets_yield_the_whole_frame, no_slice_outside_the_loop, does_not_raise (only if a raising path exists)}
Findings (contracts/findings.jsonl), all repaired in /repo: fixed-C02-codec-dict-without-type (097e962), fixed-C02-codec-empty-dict (f55586c),
fixed-C02-encoding-stats-page-type-v2 (3c1bc42).  The two '[compression is not ...]' companions of the codec obligations are kept: they say
in which region a future refutation of the main obligation lies.
"""
import ast
import itertools
import time

import z3

from vc.front_py import parse_module
from vc.symexec import (Engine, Path, Custom, Opaque, Str, PyB, PyI, NONE, NoneV, Unsupported, Tup, Opt, AbstractComp)
from vlib.common import PROVED, REFUTED, UNKNOWN
from .util import Results, solve, ret_line

I = z3.IntSort()
NULLS = z3.Function("NULLS", I, I, I)            # number of missing cells of data0[a:b]
ROWOFF = z3.Function("range_elem", I, I)          # i-th element of range(0, len(data0), rows_per_page)

ENC = {"PLAIN": 0, "PLAIN_DICTIONARY": 2, "RLE": 3, "BIT_PACKED": 4, "DELTA_BINARY_PACKED": 5, "DELTA_LENGTH_BYTE_ARRAY": 6,
       "DELTA_BYTE_ARRAY": 7, "RLE_DICTIONARY": 8, "BYTE_STREAM_SPLIT": 9}
PAGETYPE = {"DATA_PAGE": 0, "INDEX_PAGE": 1, "DICTIONARY_PAGE": 2, "DATA_PAGE_V2": 3}
GZIP = 2

ASSUMED = [
    "ghost file: f.tell() = number of bytes written so far, f.write(b) appends len(b) bytes at the current position (no seek is used)",
    "write_thrift(f, obj): writes k >= 1 bytes at the current position and returns k (its byte behaviour: C10 / C16)",
    "len() of byte strings produced by opaque encoders (encode[...], make_definitions) is an arbitrary non-negative integer",
    "compress_data(x, c): returns a byte string of unknown length that decompresses to x (plain length len(x)) under the codec "
    "(c['type'] if c has 'type' else 'gzip' if isinstance(c, dict) else c).upper() [compression.py L77-98]; UNCOMPRESSED is the identity",
    "b''.join(parts), a + b, n * b on byte strings: lengths add / multiply",
    "range(0, n, r): raises for r == 0; for r > 0 its elements are e(0) = 0, e(i+1) = e(i) + r, all < n, the last one + r >= n, "
    "it is empty iff n <= 0; _rows_per_page(...) >= 0",
    "data0.iloc[a:b] for 0 <= a <= b <= len(data0) has b - a rows and the dtype of data0; its number of missing cells NULLS(a, b) is "
    "additive over adjacent slices, 0 <= NULLS(a, b) <= b - a; len(x) - x.count() and (x.cat.codes == -1).sum() both equal it",
    "precondition: a column whose schema element is not OPTIONAL contains no missing cell (NULLS == 0): has_nulls=False is the caller's promise",
    "precondition: datapage_version (after defaulting) is 1 or 2; compression is None, a non-empty str, or a dict",
    "exceptions raised inside opaque pandas calls of the statistics block only lead to stats = False, a state that is explored anyway",
    "make_row_group: write_column by the contract proved here (returns a chunk with meta_data.total_uncompressed_size / num_values); "
    "the column-name validation raises or passes without side effect; data[label] is the column LABELLED label, data.iloc[:, k] the "
    "column at POSITION k, and NOTHING relates positions to labels (the column order of the frame is arbitrary)",
    "iter_dataframe: list(range(0, n, c)) by the range contract above; data.iloc[s:e] with e None is open-ended",
]

_cnt = itertools.count()


def fresh_int(base):
    return z3.Int(f"{base}!b{next(_cnt)}")


def fresh_bool(base):
    return z3.Bool(f"{base}!b{next(_cnt)}")


# ---- byte strings as lengths ----------------------------------------------------------------------------------------------
class BL:
    """byte string: stored length n, plain length, segments [(n, plain, codec id)] (codec 0 = stored as is)"""
    tracked = True

    def __init__(self, n, plain=None, segs=None, prov=None, leaves=None):
        self.n = n if z3.is_expr(n) else z3.IntVal(n)
        self.plain = self.n if plain is None else plain
        self.segs = [(self.n, self.plain, z3.IntVal(0))] if segs is None else segs
        self.prov = prov                    # where the VALUE comes from (statistics provenance), None = not tracked
        self.leaves = [self] if leaves is None else leaves      # the byte strings this one was concatenated from

    @staticmethod
    def opaque(p, base="len_bytes"):
        n = fresh_int(base)
        p.pc.append(n >= 0)
        return BL(n)

    def cat(self, o):
        return BL(z3.simplify(self.n + o.n), z3.simplify(self.plain + o.plain), self.segs + o.segs, leaves=self.leaves + o.leaves)

    def is_raw(self):
        return all(z3.is_int_value(z3.simplify(c)) and z3.simplify(c).as_long() == 0 for _, _, c in self.segs)

    def len(self, eng, p):
        return PyI(self.n)

    def truth(self, eng, p):
        return self.n > 0

    def is_none(self, eng, p):
        return z3.BoolVal(False)

    def call_method(self, eng, p, name, args, kw, node):
        if name == "join":
            parts = args[0]
            if not isinstance(parts, Tup):
                raise Unsupported("bytes.join of " + type(parts).__name__)
            if not z3.is_true(z3.simplify(self.n == 0)) and len(parts.items) > 1:
                raise Unsupported("join with a non-empty separator")
            r = BL(0, segs=[], leaves=[])
            for it in parts.items:
                if not (isinstance(it, Custom) and isinstance(it.h, BL)):
                    raise Unsupported("bytes.join over " + type(it).__name__)
                r = r.cat(it.h)
            return [(p, Custom(r))]
        raise Unsupported("bytes." + name)

    def binop(self, eng, p, op, b, node, swapped=False):
        if isinstance(op, ast.Add) and isinstance(b, Custom) and isinstance(b.h, BL):
            return Custom(b.h.cat(self) if swapped else self.cat(b.h))
        if isinstance(op, ast.Mult) and isinstance(b, (PyI,)):
            if not self.is_raw():
                raise Unsupported("repeat of compressed bytes")
            k = z3.If(b.z > 0, b.z, 0)
            return Custom(BL(z3.simplify(k * self.n)))
        raise Unsupported("bytes binop " + type(op).__name__)

    def slice(self, eng, p, lo, hi, node):
        if not self.is_raw():
            raise Unsupported("slice of compressed bytes")
        a = z3.simplify(eng.as_int(lo)) if lo is not None else z3.IntVal(0)
        b = z3.simplify(eng.as_int(hi)) if hi is not None else None
        if not z3.is_int_value(a) or a.as_long() < 0 or (b is not None and (not z3.is_int_value(b) or b.as_long() < 0)):
            raise Unsupported("bytes slice shape")
        end = self.n if b is None else z3.If(self.n < b, self.n, b)
        # the result is a DIFFERENT value: its provenance says which slice of what
        return Custom(BL(z3.simplify(z3.If(end - a > 0, end - a, 0)),
                         prov=("slice", a.as_long(), None if b is None else b.as_long(), self.prov)))


def bl_of(v, what):
    if isinstance(v, Custom) and isinstance(v.h, BL):
        return v.h
    raise Unsupported(f"{what}: expected a byte string, got {type(v).__name__}")


# ---- ghost file --------------------------------------------------------------------------------------------------------
class FS:
    tracked = True
    key = "file"

    def init(self, p, pos):
        p.ghost[self.key] = {"pos": pos}
        p.ghost["pages"] = []            # [{"hdr": Rec, "off": pos, "k": k, "writes": [BL]}]
        p.ghost["orphans"] = []          # writes not preceded by a page header (since the log was last reset)

    def pos(self, p):
        return p.ghost[self.key]["pos"]

    def set_pos(self, p, v):
        p.ghost[self.key] = {"pos": z3.simplify(v)}

    def attr(self, eng, p, name):
        raise Unsupported("file attribute " + name)

    def truth(self, eng, p):
        return z3.BoolVal(True)

    def call_method(self, eng, p, name, args, kw, node):
        if name == "tell" and not args:
            return [(p, PyI(self.pos(p)))]
        if name == "write" and len(args) == 1:
            b = bl_of(args[0], "f.write")
            if p.ghost["pages"]:
                pages = [dict(x, writes=list(x["writes"])) for x in p.ghost["pages"]]
                pages[-1]["writes"].append(b)
                p.ghost["pages"] = pages
            else:
                p.ghost["orphans"] = p.ghost["orphans"] + [b]
            self.set_pos(p, self.pos(p) + b.n)
            return [(p, PyI(b.n))]
        raise Unsupported("file." + name)


# ---- thrift records -----------------------------------------------------------------------------------------------------
class Rec:
    tracked = False

    def __init__(self, name, fields, lineno=0):
        self.name, self.fields, self.lineno = name, dict(fields), lineno

    def attr(self, eng, p, name):
        if name == "thrift_name":
            return Str(self.name)
        return p.ghost.get(("recset", id(self), name), self.fields.get(name, NONE))

    def setattr(self, eng, p, name, v):
        p.ghost[("recset", id(self), name)] = v

    def truth(self, eng, p):
        return z3.BoolVal(True)

    def is_none(self, eng, p):
        return z3.BoolVal(False)

    def get(self, name):
        return self.fields.get(name, NONE)


def rec_of(v, name=None):
    if isinstance(v, Custom) and isinstance(v.h, Rec) and (name is None or v.h.name == name):
        return v.h
    return None


def enum_code(v, table, cls):
    """parquet_thrift.<cls>.<NAME> (an opaque attribute chain) -> its IDL number, or None"""
    if isinstance(v, Opaque) and isinstance(v.tag, tuple) and len(v.tag) == 2 and isinstance(v.tag[0], tuple) \
            and v.tag[0] == ("global:parquet_thrift", cls) and v.tag[1] in table:
        return table[v.tag[1]]
    return None


# ---- ghost list (list literal that is appended to) ------------------------------------------------------------------------
class GList:
    """`x = []` followed by x.append(...): the appended values live in path.ghost (per path)"""
    tracked = False

    def __init__(self):
        self.key = ("glist", next(_cnt))

    def items(self, p):
        return p.ghost.get(self.key, [])

    def call_method(self, eng, p, name, args, kw, node):
        if name == "append" and len(args) == 1:
            p.ghost[self.key] = self.items(p) + [args[0]]
            return [(p, NONE)]
        raise Unsupported("list." + name)

    def len(self, eng, p):
        return PyI(len(self.items(p)))

    def truth(self, eng, p):
        return z3.BoolVal(len(self.items(p)) > 0)

    def iterate(self, eng, p):
        return list(self.items(p))


# ---- abstract integer lists ------------------------------------------------------------------------------------------------
class IntList:
    """list of ints of symbolic length: n, at(i)"""
    tracked = False

    def __init__(self, n, at, srcs=()):
        self.n, self.at, self.srcs = n, at, list(srcs)

    def len(self, eng, p):
        return PyI(self.n)

    def truth(self, eng, p):
        return self.n > 0

    def binop(self, eng, p, op, b, node, swapped=False):
        if isinstance(op, ast.Add) and not swapped and isinstance(b, Tup) and b.is_list:
            r = self
            for it in b.items:
                v, n0, at0 = eng.as_int(it), r.n, r.at
                r = IntList(z3.simplify(n0 + 1), lambda i, v=v, n0=n0, at0=at0: z3.If(i < n0, at0(i), v), self.srcs)
            return Custom(r)
        raise Unsupported("list binop")

    def slice(self, eng, p, lo, hi, node):
        def const(v):
            if v is None:
                return None
            s = z3.simplify(eng.as_int(v))
            if not z3.is_int_value(s):
                raise Unsupported("symbolic slice bound of an abstract list")
            return s.as_long()
        a, b = const(lo), const(hi)
        n, at = self.n, self.at
        if a in (None, 0) and b == -1:
            return Custom(IntList(z3.simplify(z3.If(n - 1 > 0, n - 1, 0)), at, self.srcs))
        if a is not None and a >= 0 and b is None:
            return Custom(IntList(z3.simplify(z3.If(n - a > 0, n - a, 0)), lambda i, a=a: at(i + a), self.srcs))
        raise Unsupported("slice shape of an abstract list")

    def getitem(self, eng, p, i, node):
        k = eng.as_int(i)
        sk = z3.simplify(k)
        if z3.is_int_value(sk) and sk.as_long() < 0:
            k = self.n + k
        eng.oblige(p, f"{eng.cur_func}.index_in_range@L{node.lineno}", "safety", z3.And(k >= 0, k < self.n), node)
        return PyI(z3.simplify(self.at(k)))


def range_list(eng, p, n, r, tag):
    """assumed contract of list(range(0, n, r)) for r > 0 (callers fork off r == 0 -> ValueError and r < 0 -> [])"""
    m = fresh_int("len_range_" + tag)
    elem = z3.Function(f"range_elem_{tag}!b{next(_cnt)}", I, I)
    p.pc += [m >= 0, (m == 0) == (n <= 0), elem(0) == 0,
             z3.Implies(m > 0, z3.And(elem(m - 1) < n, elem(m - 1) + r >= n))]
    return IntList(m, lambda i: elem(i), [(elem, r, n, m)])


def range_instance(lst_range, i):
    """instances of the range contract at index i: e(i+1) = e(i) + r, e(i) < n for i < m, e(i) >= 0"""
    elem, r, n, m = lst_range
    return [z3.Implies(z3.And(0 <= i, i < m), z3.And(elem(i) < n, elem(i) >= 0)),
            z3.Implies(z3.And(0 <= i, i + 1 < m), elem(i + 1) == elem(i) + r)]


# ---- pandas objects ----------------------------------------------------------------------------------------------------------
class Series:
    """data0 (a == 0, b == n) or a page slice data0.iloc[a:b]; `nonnull`: the slice after make_definitions dropped its nulls"""
    tracked = False

    def __init__(self, W, a, b, nonnull=False):
        self.W, self.a, self.b, self.nonnull = W, a, b, nonnull

    def nulls(self):
        return NULLS(self.a, self.b)

    def attr(self, eng, p, name):
        if name == "dtype":
            return Opaque("dtype:data0")                 # a slice has the dtype of the series
        if name == "name":
            return Opaque("name:data0")
        if name == "iloc":
            return Custom(ILoc(self))
        return Opaque(("series", str(self.a), str(self.b), self.nonnull, name))

    def len(self, eng, p):
        if self.nonnull:
            return PyI(self.b - self.a - self.nulls())
        return PyI(self.b - self.a)

    def call_method(self, eng, p, name, args, kw, node):
        if name == "count" and not args and not self.nonnull:
            return [(p, PyI(self.b - self.a - self.nulls()))]
        whole = self is self.W.data0
        if name in ("max", "min") and not args:
            return [(p, Custom(ColExtreme(name, ())) if whole else Custom(Processed((name, "of a page slice"))))]
        if name == "unique" and not args and whole:
            return [(p, Custom(SerChain(("unique",))))]
        if name in ("unique", "astype", "notnull", "isna"):
            return [(p, Opaque(("series." + name, next(eng.counter))))]
        raise Unsupported("Series." + name)

    def truth(self, eng, p):
        raise Unsupported("truth of a Series")


class ILoc:
    tracked = False

    def __init__(self, s):
        self.s = s

    def slice(self, eng, p, lo, hi, node):
        s = self.s
        if s.nonnull:
            raise Unsupported("iloc slice shape")
        if lo is None or hi is None:
            # x.iloc[:k] / x.iloc[k:]: clamped like every Python slice; some part of the series, not the series
            n = s.b - s.a
            a = z3.IntVal(0) if lo is None else eng.as_int(lo)
            b = n if hi is None else eng.as_int(hi)
            a, b = z3.If(a < 0, 0, z3.If(a > n, n, a)), z3.If(b < 0, 0, z3.If(b > n, n, b))
            b = z3.If(b < a, a, b)
            a, b = z3.simplify(s.a + a), z3.simplify(s.a + b)
            p.pc += [NULLS(a, b) >= 0, NULLS(a, b) <= b - a]
            return Custom(Series(s.W, a, b))
        a, b = eng.as_int(lo), eng.as_int(hi)
        eng.oblige(p, f"{eng.cur_func}.iloc_slice_within_series@L{node.lineno}", "safety",
                   z3.And(s.a <= s.a + a, a <= b, s.a + b <= s.b, a >= 0), node, note="page slice 0 <= a <= b <= len(data0)")
        a, b = z3.simplify(s.a + a), z3.simplify(s.a + b)
        W = s.W
        # instances of the assumed facts about NULLS at this slice
        p.pc += [NULLS(a, b) >= 0, NULLS(a, b) <= b - a, NULLS(W.zero, a) + NULLS(a, b) == NULLS(W.zero, b),
                 z3.Implies(z3.Not(W.optional), NULLS(a, b) == 0)]
        p.ghost["iloc_slices"] = p.ghost.get("iloc_slices", []) + [(a, b)]
        return Custom(Series(W, a, b))


class CodesEqMinus1:
    """(data.cat.codes == -1): only .sum() is meaningful"""
    tracked = False

    def __init__(self, s):
        self.s = s

    def call_method(self, eng, p, name, args, kw, node):
        if name == "sum" and not args:
            return [(p, PyI(self.s.nulls()))]
        raise Unsupported("(codes == -1)." + name)


class Cat:
    tracked = False

    def __init__(self, s):
        self.s = s

    def attr(self, eng, p, name):
        if name == "codes":
            return Custom(Codes(self.s))
        return Opaque(("cat", name))          # categories: the same object for every page


class Codes:
    tracked = False

    def __init__(self, s):
        self.s = s

    def attr(self, eng, p, name):
        return Opaque(("codes", name))

    def eq(self, eng, p, other):
        raise Unsupported("codes == x in boolean context")

    def len(self, eng, p):
        return self.s.len(eng, p)

    def call_method(self, eng, p, name, args, kw, node):
        return [(p, Opaque(("codes." + name, next(eng.counter))))]


class ColExtreme:
    """X.max() / X.min() of the whole column: X = data0 or data0.unique().as_ordered()"""
    tracked = False

    def __init__(self, which, chain):
        self.which, self.chain = which, chain

    def attr(self, eng, p, name):
        return Opaque(("extreme", self.which, self.chain, name))

    def slice(self, eng, p, lo, hi, node):
        return Custom(Processed(("slice", self)))

    def call_method(self, eng, p, name, args, kw, node):
        return [(p, Custom(Processed((name, self))))]


class Processed:
    """a value derived from a tracked statistics value by some further operation: a different value"""
    tracked = False

    def __init__(self, what):
        self.what = what

    def attr(self, eng, p, name):
        return Opaque(("processed", name, next(_cnt)))

    def slice(self, eng, p, lo, hi, node):
        return Custom(Processed(("slice", self)))

    def call_method(self, eng, p, name, args, kw, node):
        return [(p, Custom(Processed((name, self))))]


class SerChain:
    """data0.unique() / data0.unique().as_ordered(): still the whole column"""
    tracked = False

    def __init__(self, chain):
        self.chain = chain

    def attr(self, eng, p, name):
        return Opaque(("serchain", self.chain, name))

    def call_method(self, eng, p, name, args, kw, node):
        if name in ("max", "min") and not args:
            return [(p, Custom(ColExtreme(name, self.chain)))]
        if name in ("as_ordered", "unique", "dropna") and not args:
            return [(p, Custom(SerChain(self.chain + (name,))))]
        return [(p, Opaque(("serchain." + name, next(eng.counter))))]


class OneFrame:
    """pd.Series([v], ...): the one-element frame handed to the PLAIN encoder"""
    tracked = False

    def __init__(self, item):
        self.item = item

    def attr(self, eng, p, name):
        return Opaque(("oneframe", name))


class Phi:
    """a variable that has different values on the prologue paths joined at the page loop: [(condition, value)]"""
    tracked = False

    def __init__(self, alts):
        self.alts = alts

    def slice(self, eng, p, lo, hi, node):
        out = []
        for c, v in self.alts:
            if isinstance(v, Custom) and hasattr(v.h, "slice"):
                out.append((c, v.h.slice(eng, p, lo, hi, node)))
            else:
                out.append((c, Custom(Processed(("slice", v)))))
        return Custom(Phi(out))

    def is_none(self, eng, p):
        return z3.Or(*[z3.And(c, eng.identical(v, NONE, p)) for c, v in self.alts])


def alternatives(v):
    if isinstance(v, Custom) and isinstance(v.h, Phi):
        return [(z3.And(c, c2), x) for c, w in v.h.alts for c2, x in alternatives(w)]
    return [(z3.BoolVal(True), v)]


class SelType:
    tracked = False

    def __init__(self, W):
        self.W = W

    def eq(self, eng, p, other):
        if isinstance(other, Opaque) and isinstance(other.tag, tuple) and other.tag[0] == ("global:parquet_thrift", "Type"):
            return z3.Bool("selement.type_is_" + str(other.tag[1]))
        raise Unsupported("selement.type compared with something else than parquet_thrift.Type.X")


class ConvType:
    tracked = False

    def __init__(self, W):
        self.W = W

    def is_none(self, eng, p):
        return z3.Bool("selement.converted_type_is_None")


class SElement:
    tracked = False

    def __init__(self, W):
        self.W = W

    def attr(self, eng, p, name):
        if name == "repetition_type":
            return Custom(RepType(self.W))
        if name == "type":
            return Custom(SelType(self.W))
        if name == "converted_type":
            return Custom(ConvType(self.W))
        return Opaque(("selement", name))


class RepType:
    tracked = False

    def __init__(self, W):
        self.W = W

    def eq(self, eng, p, other):
        if isinstance(other, Opaque) and other.tag == (("global:parquet_thrift", "FieldRepetitionType"), "OPTIONAL"):
            return self.W.optional
        raise Unsupported("repetition_type compared with something else than FieldRepetitionType.OPTIONAL")


# ---- the compression argument ---------------------------------------------------------------------------------------------
class Comp:
    """None | non-empty str | dict (with or without the key 'type')"""
    tracked = False

    def __init__(self, tag=""):
        b, i = (lambda s: z3.Bool(f"compression{tag}.{s}")), (lambda s: z3.Int(f"compression{tag}.{s}"))
        self.none, self.dict, self.truthy, self.has_type = b("is_None"), b("is_dict"), b("truthy"), b("has_type")
        self.alg_self, self.alg_type, self.type_truthy = i("codec_of_str"), i("codec_of_type"), b("type_truthy")
        self.pre = [z3.Implies(self.none, z3.And(z3.Not(self.truthy), z3.Not(self.dict))),
                    z3.Implies(z3.And(z3.Not(self.none), z3.Not(self.dict)), self.truthy),     # a str is non-empty
                    z3.Implies(self.has_type, z3.And(self.dict, self.truthy)),
                    z3.Implies(self.has_type, self.type_truthy)]                                # 'type' names a codec
        # the codec compress_data applies (compression.py)
        self.applied = z3.If(self.dict, z3.If(self.has_type, self.alg_type, GZIP), self.alg_self)

    def truth(self, eng, p):
        return self.truthy

    def is_none(self, eng, p):
        return self.none

    def isinstance(self, eng, p, tn):
        if tn == "dict":
            return self.dict
        if tn == "int":
            return z3.BoolVal(False)
        raise Unsupported("isinstance(compression, " + tn + ")")

    def call_method(self, eng, p, name, args, kw, node):
        out = []
        if name == "upper" and not args:
            bad = p.fork(z3.Or(self.none, self.dict))
            if eng.feasible(bad):
                bad.ctl = ("raise", "AttributeError")
                bad.trace.append(("raise", node.lineno))
                out.append((bad, NONE))
            ok = p.fork(z3.And(z3.Not(self.none), z3.Not(self.dict)))
            if eng.feasible(ok):
                out.append((ok, Custom(UpStr(self.alg_self))))
            return out
        if name == "get" and len(args) == 2 and isinstance(args[0], Str) and args[0].s == "type":
            bad = p.fork(z3.Not(self.dict))
            if eng.feasible(bad):
                bad.ctl = ("raise", "AttributeError")
                bad.trace.append(("raise", node.lineno))
                out.append((bad, NONE))
            yes = p.fork(z3.And(self.dict, self.has_type))
            if eng.feasible(yes):
                out.append((yes, Custom(AlgStr(self))))
            no = p.fork(z3.And(self.dict, z3.Not(self.has_type)))
            if eng.feasible(no):
                out.append((no, args[1]))
            return out
        raise Unsupported("compression." + name)


class AlgStr:
    """compression['type']"""
    tracked = False

    def __init__(self, c):
        self.c = c

    def truth(self, eng, p):
        return self.c.type_truthy

    def is_none(self, eng, p):
        return z3.BoolVal(False)

    def call_method(self, eng, p, name, args, kw, node):
        if name == "upper" and not args:
            return [(p, Custom(UpStr(self.c.alg_type)))]
        raise Unsupported("str." + name)


class UpStr:
    """X.upper(): a codec name; `code` is its number in parquet_thrift.CompressionCodec (0 = UNCOMPRESSED)"""
    tracked = False

    def __init__(self, code):
        self.code = code

    def eq(self, eng, p, other):
        if isinstance(other, Str) and other.s == "UNCOMPRESSED":
            return self.code == 0
        raise Unsupported("codec name compared with " + repr(getattr(other, "s", other)))


# ---- engine ----------------------------------------------------------------------------------------------------------------
class BEngine(Engine):
    def e_Constant(self, e, p):
        if isinstance(e.value, bytes):
            return [(p, Custom(BL(len(e.value))))]
        return super().e_Constant(e, p)

    def e_List(self, e, p):
        if not e.elts:
            return [(p, Custom(GList()))]
        return super().e_List(e, p)

    def e_Slice(self, e, p):
        # a bare slice inside a subscript tuple (x.iloc[:, k]); direct slices x[a:b] never get here
        out = []
        for q, vs in self.ev_list([x for x in (e.lower, e.upper, e.step) if x is not None], p):
            it = iter(vs)
            out.append((q, Custom(SliceVal(*[(next(it) if x is not None else None) for x in (e.lower, e.upper, e.step)]))))
        return out

    def e_Starred(self, e, p):
        return [(q, Opaque(("starred", next(self.counter)))) for q, v in self.ev(e.value, p)]

    def binop(self, op, a, b, p, node):
        if isinstance(b, Custom) and hasattr(b.h, "binop") and not (isinstance(a, Custom) and hasattr(a.h, "binop")):
            return b.h.binop(self, p, op, a, node, swapped=True)
        return super().binop(op, a, b, p, node)

    def e_Compare(self, e, p):
        # (data.cat.codes == -1) is an array, not a bool
        if len(e.ops) == 1 and isinstance(e.ops[0], ast.Eq):
            out = []
            for q, a in self.ev(e.left, p):
                if isinstance(a, Custom) and isinstance(a.h, Codes):
                    for r, b in self.ev(e.comparators[0], q):
                        if not (isinstance(b, PyI) and z3.is_true(z3.simplify(b.z == -1))):
                            raise Unsupported("codes compared with something else than -1")
                        out.append((r, Custom(CodesEqMinus1(a.h.s))))
                else:
                    for r, b in self.ev(e.comparators[0], q):
                        out.append((r, PyB(self.compare(e.ops[0], a, b, r, e))))
            return out
        return super().e_Compare(e, p)

    def getattr(self, o, attr, p, node):
        if isinstance(o, Custom) and isinstance(o.h, Series) and attr == "cat":
            return Custom(Cat(o.h))
        return super().getattr(o, attr, p, node)

    # ---- state merging at the join of an `if` (keeps the number of paths proportional to what matters for the bookkeeping):
    # two live paths with the SAME ghost state (file position, page log, records) are merged; a variable on which they differ
    # becomes an if-then-else of its two values (ints, bools, optional ints) or an arbitrary opaque value (pandas objects);
    # path conditions: common conjuncts + the disjunction of the two remainders.  Exact for ints / bools, weakening otherwise.
    merge_ifs = True

    def s_If(self, st, p):
        outs = super().s_If(st, p)
        if not self.merge_ifs or len(outs) < 2:
            return outs
        live, rest = [q for q in outs if q.ctl is None], [q for q in outs if q.ctl is not None]
        reps = []
        for q in live:
            for k, r in enumerate(reps):
                m = self.merge2(r, q)
                if m is not None:
                    reps[k] = m
                    break
            else:
                reps.append(q)
        return reps + rest

    @staticmethod
    def ghost_sig(q):
        def sig(v):
            if isinstance(v, list):
                return tuple(sig(x) for x in v)
            if isinstance(v, dict):
                return tuple((k, sig(x)) for k, x in sorted(v.items(), key=lambda kv: str(kv[0])))
            if z3.is_expr(v):
                return ("z3", v.get_id())
            if isinstance(v, (BL, Rec, Custom, Opaque, Str, PyI, PyB, NoneV, Opt, Tup)):
                if isinstance(v, PyI) or isinstance(v, PyB):
                    return ("z", v.z.get_id())
                if isinstance(v, Custom):
                    return ("c", id(v.h))
                if isinstance(v, Opaque):
                    return ("o", str(v.tag))
                if isinstance(v, Str):
                    return ("s", v.s)
                return ("id", id(v))
            return ("v", str(v))
        return sig({k: v for k, v in q.ghost.items()})

    def merge2(self, a, b):
        if len(a.stack) != len(b.stack) or self.ghost_sig(a) != self.ghost_sig(b):
            return None
        for (ea, _), (eb, _) in zip(a.stack, b.stack):
            if set(ea) != set(eb) or not all(same_value(ea[k], eb[k]) for k in ea):
                return None
        ida, idb = set(c.get_id() for c in a.pc), set(c.get_id() for c in b.pc)
        common = [c for c in a.pc if c.get_id() in idb]
        ra, rb = [c for c in a.pc if c.get_id() not in idb], [c for c in b.pc if c.get_id() not in ida]
        ca = z3.And(*ra) if ra else z3.BoolVal(True)
        cb = z3.And(*rb) if rb else z3.BoolVal(True)
        env = {}
        for v in set(a.env) | set(b.env):
            x, y = a.env.get(v), b.env.get(v)
            if x is None or y is None:
                env[v] = Opaque(f"merge_{v}!{next(_cnt)}")
                continue
            m = self.merge_val(x, y, ca, v)
            if m is None:
                return None
            env[v] = m
        if len(a.axioms) != len(b.axioms):
            return None
        m = a.fork()
        m.pc = common + [z3.Or(ca, cb)]
        m.env = env
        opq = dict(a.opq)
        for k, v in b.opq.items():
            if k not in opq:
                opq[k] = v
            elif not (opq[k] is v or (z3.is_expr(v) and z3.is_expr(opq[k]) and v.eq(opq[k])) or
                      (not z3.is_expr(v) and not z3.is_expr(opq[k]) and same_value(opq[k], v))):
                del opq[k]
        m.opq = opq
        m.trace = a.trace
        return m

    def merge_val(self, x, y, cx, name):
        if same_value(x, y):
            return x
        if isinstance(x, PyI) and isinstance(y, PyI):
            return PyI(z3.If(cx, x.z, y.z))
        if isinstance(x, PyB) and isinstance(y, PyB):
            return PyB(z3.If(cx, x.z, y.z))
        if isinstance(x, (NoneV, Opt, PyI)) and isinstance(y, (NoneV, Opt, PyI)):
            def parts(v):
                if isinstance(v, NoneV):
                    return z3.BoolVal(True), z3.IntVal(0)
                if isinstance(v, Opt):
                    if not isinstance(v.val, PyI):
                        return None
                    return v.isnone, v.val.z
                return z3.BoolVal(False), v.z
            px, py = parts(x), parts(y)
            if px is None or py is None:
                return None
            return Opt(z3.If(cx, px[0], py[0]), PyI(z3.If(cx, px[1], py[1])))
        soft = lambda v: isinstance(v, Opaque) or (isinstance(v, Custom) and isinstance(v.h, (Series, Codes, Cat)))
        if soft(x) and soft(y):
            return Opaque(f"merge_{name}!{next(_cnt)}")
        if isinstance(x, Tup) and isinstance(y, Tup) and len(x.items) == len(y.items) and x.is_list == y.is_list:
            items = [self.merge_val(u, v, cx, name) for u, v in zip(x.items, y.items)]
            return None if any(i is None for i in items) else Tup(items, x.is_list)
        return None

    # a handler may end a path with ("raise", X): the rest of the statement is not evaluated on that path
    def ev_args(self, e, p):
        live = []
        for q, x in super().ev_args(e, p):
            if q.ctl is None:
                live.append((q, x))
            else:
                self._dead[-1].append(q)
        return live

    def e_Call(self, e, p):
        if p.ctl is not None:
            return [(p, Opaque("dead"))]
        if not hasattr(self, "_dead"):
            self._dead = []
        self._dead.append([])
        try:
            out = self.e_call_live(e, p)
        finally:
            dead = self._dead.pop()
        return out + [(q, Opaque("dead")) for q in dead]

    def e_call_live(self, e, p):
        fn = e.func
        # encode[<encoding>](data, selement): an opaque encoder -> bytes of unknown length
        if isinstance(fn, ast.Subscript) and isinstance(fn.value, ast.Name) and fn.value.id == "encode" and "encode" not in p.env:
            out = []
            for q, k in self.ev(fn.slice, p):
                for r, (args, kw) in self.ev_args(e, q):
                    b = BL.opaque(r, "len_encoded")
                    if isinstance(k, Str) and len(args) == 2 and isinstance(args[0], Custom) and isinstance(args[0].h, OneFrame):
                        b.prov = ("encode", k.s, args[0].h.item, isinstance(args[1], Custom) and isinstance(args[1].h, SElement))
                    out.append((r, Custom(b)))
            return out
        # parquet_thrift.<Struct>(**fields)
        if isinstance(fn, ast.Attribute) and isinstance(fn.value, ast.Name) and fn.value.id == "parquet_thrift" \
                and fn.attr[:1].isupper() and "parquet_thrift" not in p.env:
            out = []
            for q, (args, kw) in self.ev_args(e, p):
                if args:
                    raise Unsupported("positional thrift constructor arguments")
                out.append((q, Custom(Rec(fn.attr, kw, e.lineno))))
            return out
        if isinstance(fn, ast.Attribute) and isinstance(fn.value, ast.Name) and fn.value.id == "ThriftObject" and fn.attr == "from_fields":
            out = []
            for q, (args, kw) in self.ev_args(e, p):
                if len(args) != 1 or not isinstance(args[0], Str):
                    raise Unsupported("ThriftObject.from_fields shape")
                out.append((q, Custom(Rec(args[0].s, kw, e.lineno))))
            return out
        return super().e_Call(e, p)


def raise_path(p, exc, node):
    p.ctl = ("raise", exc)
    p.trace.append(("raise", getattr(node, "lineno", 0)))
    return p


# ---- write_column: world, ghost sums, page accounting -------------------------------------------------------------------------
class World:
    def __init__(self, dpv):
        self.dpv = dpv
        self.n = z3.Int("len_data0")
        self.zero = z3.IntVal(0)
        self.optional = z3.Bool("selement_is_OPTIONAL")
        self.start = z3.Int("column_chunk_start")
        self.rpp = z3.Int("rows_per_page")
        self.comp = Comp()
        self.fs = FS()
        self.body_paths, self.loops_seen, self.tiling = [], 0, None
        self.data0 = Series(self, self.zero, self.n)
        self.mode, self.incoming, self.loop_stmt = "collect", [], None
        self.pre = [self.n >= 0, self.start >= 0, self.rpp >= 0, NULLS(0, 0) == 0, NULLS(0, self.n) >= 0,
                    NULLS(0, self.n) <= self.n, z3.Implies(z3.Not(self.optional), NULLS(0, self.n) == 0)] + self.comp.pre


SUMKEYS_INT = ["H", "C", "U", "N", "V", "t", "fdo", "dpo", "denc", "ptype", "penc"]


def zero_sums():
    s = {k: z3.IntVal(0) for k in SUMKEYS_INT}
    s["dictw"] = z3.BoolVal(False)
    return s


def fresh_sums():
    s = {k: fresh_int("ghost_" + k) for k in SUMKEYS_INT}
    s["dictw"] = fresh_bool("ghost_dict_page_written")
    return s


def int_field(eng, p, rec, name):
    v = rec.get(name)
    if isinstance(v, NoneV):
        return None
    return eng.as_int(v, p)


def account(eng, p, W, S, ob, spec_page=None):
    """fold the page log of `p` (headers written by write_thrift and the bytes written after each) into the ghost sums S;
    per-page obligations are emitted through ob(name, goal, note).  spec_page = (a, b): the rows the (single) data page of this
    log must hold."""
    S = dict(S)
    orph = p.ghost.get("orphans", [])
    ob("every_byte_belongs_to_a_page", z3.Sum(*[b.n for b in orph]) == 0 if orph else z3.BoolVal(True),
       "no bytes are written in front of / between pages without a page header (pages tile the chunk without gaps)")
    n_data, info, data_pages = 0, [], []
    for pg in p.ghost.get("pages", []):
        h = pg["hdr"]
        tcode = enum_code(h.get("type"), PAGETYPE, "PageType") if h.name == "PageHeader" else None
        stored = z3.Sum(*[b.n for b in pg["writes"]]) if pg["writes"] else z3.IntVal(0)
        plain = z3.Sum(*[b.plain for b in pg["writes"]]) if pg["writes"] else z3.IntVal(0)
        kind = {0: "data_page_v1", 3: "data_page_v2", 2: "dictionary_page"}.get(tcode)
        if kind is None:
            ob("page_header_is_a_known_page_type", z3.BoolVal(False), f"header written at L{h.lineno} is {h.name} type {tcode}")
            continue
        cps, ups = int_field(eng, p, h, "compressed_page_size"), int_field(eng, p, h, "uncompressed_page_size")
        ob(f"{kind}.compressed_page_size_is_bytes_after_header", z3.BoolVal(False) if cps is None else cps == stored,
           "page.compressed_page_size == number of bytes written between this header and the next one / the end of the chunk")
        ob(f"{kind}.uncompressed_page_size_is_plain_length", z3.BoolVal(False) if ups is None else ups == plain,
           "page.uncompressed_page_size == length of the payload before compression (v2: levels, stored as they are, + values)")
        S["H"], S["C"], S["U"] = S["H"] + pg["k"], S["C"] + stored, S["U"] + plain
        segs = [s for b in pg["writes"] for s in b.segs]
        if tcode == 2:
            d = rec_of(h.get("dictionary_page_header"), "DictionaryPageHeader")
            ob("dictionary_page.is_first_and_only", z3.And(z3.Not(S["dictw"]), S["t"] == 0, pg["off"] == W.start),
               "at most one dictionary page, at the very start of the chunk, before every data page")
            ob("dictionary_page.has_dictionary_header", z3.BoolVal(d is not None))
            S["dictw"], S["dpo"] = z3.BoolVal(True), pg["off"]
            code = enum_code(d.get("encoding"), ENC, "Encoding") if d is not None else None
            S["denc"] = z3.IntVal(-1 if code is None else code)
            info.append(("whole", segs))
        else:
            n_data += 1
            d = rec_of(h.get("data_page_header" if tcode == 0 else "data_page_header_v2"),
                       "DataPageHeader" if tcode == 0 else "DataPageHeaderV2")
            ob(f"{kind}.has_matching_data_header", z3.BoolVal(d is not None))
            if d is None:
                continue
            nv = int_field(eng, p, d, "num_values")
            code = enum_code(d.get("encoding"), ENC, "Encoding")
            if spec_page is not None:
                a, b = spec_page
                ob(f"{kind}.num_values_is_rows_of_page", z3.BoolVal(False) if nv is None else nv == b - a,
                   "page.num_values == row_end - row_start of the page tiling")
                if tcode == 3:
                    nr, nn = int_field(eng, p, d, "num_rows"), int_field(eng, p, d, "num_nulls")
                    dl, rl = int_field(eng, p, d, "definition_levels_byte_length"), int_field(eng, p, d, "repetition_levels_byte_length")
                    ob("data_page_v2.num_rows_is_num_values", z3.BoolVal(False) if nr is None or nv is None else nr == nv,
                       "flat columns: one value per row")
                    ob("data_page_v2.num_nulls_is_nulls_of_page", z3.BoolVal(False) if nn is None else nn == NULLS(a, b),
                       "v2 num_nulls == number of missing cells of exactly this page's rows")
                    # layout: repetition levels ++ definition levels (stored as they are) ++ values
                    ok_shape = dl is not None and rl is not None and len(pg["writes"]) >= 1
                    if ok_shape:
                        lv = pg["writes"][0]
                        rest = pg["writes"][1:]
                        ob("data_page_v2.level_lengths_describe_the_bytes",
                           z3.And(rl + dl == lv.n, rl >= 0, dl >= 0, z3.BoolVal(lv.is_raw())),
                           "rep + def level byte lengths == length of the uncompressed level bytes that precede the values")
                        info.append(("v2", [s for b in rest for s in b.segs], d.get("is_compressed")))
                    else:
                        ob("data_page_v2.level_lengths_describe_the_bytes", z3.BoolVal(False))
            if tcode == 0:
                info.append(("whole", segs))
            data_pages.append((tcode, [lf for b in pg["writes"] for lf in b.leaves], pg["writes"]))
            S["fdo"] = z3.If(S["t"] == 0, pg["off"], S["fdo"])
            S["ptype"] = z3.IntVal(tcode)
            S["penc_this"] = z3.IntVal(-1 if code is None else code)
            S["V"] = S["V"] + (nv if nv is not None else 0)
            S["t"] = S["t"] + 1
    S["n_data_this_log"], S["pageinfo"], S["data_pages"] = n_data, info, data_pages
    return S


def opt_parts(eng, p, v):
    """-> (is None : Bool, value : Int term or None)"""
    if isinstance(v, NoneV):
        return z3.BoolVal(True), None
    if isinstance(v, Opt):
        return v.isnone, eng.as_int(v.val, p)
    return z3.BoolVal(False), eng.as_int(v, p)


def invariant(eng, p, W, S, Z):
    """[(name, formula)] over the code's loop-carried variables (read from p.env) and the ghost sums S"""
    env = p.env
    pos = W.fs.pos(p)
    t, P = S["t"], Z.P
    diff, gnn = eng.as_int(env["diff"], p), eng.as_int(env["global_num_nulls"], p)
    first = eng.truth(env["first_page"], p)
    dpo_var = eng.as_int(env["data_page_offset"], p)
    dn, dv = opt_parts(eng, p, env["dict_page_offset"])
    cats = eng.truth(env["cats"], p)
    enc = env["encoding"]
    if not isinstance(enc, Str):
        raise Unsupported("encoding is not a string constant")
    enc_code = ENC.get(enc.s, -1)
    inv = [
        ("position: f.pos - column_chunk_start == H + C", pos - W.start == S["H"] + S["C"]),
        ("diff == U - C", diff == S["U"] - S["C"]),
        ("global_num_nulls == N", gnn == S["N"]),
        ("N == NULLS(data0[0:V])", S["N"] == NULLS(0, S["V"])),
        ("V == row_offsets[t]", z3.And(0 <= t, t <= P, S["V"] == z3.If(t < P, Z.A.at(t), W.n))),
        ("first_page <=> no data page yet", first == (t == 0)),
        ("before the first page nothing is written and data_page_offset == f.pos",
         z3.Implies(t == 0, z3.And(pos == W.start, z3.Not(S["dictw"]), dpo_var == pos))),
        ("data_page_offset == offset of the first data page header", z3.Implies(t >= 1, dpo_var == S["fdo"])),
        ("dictionary page written <=> dict_page_offset is not None", S["dictw"] == z3.Not(dn)),
        ("dictionary page at column_chunk_start, before the first data page",
         z3.Implies(S["dictw"], z3.And(S["dpo"] == W.start, (dv == W.start) if dv is not None else z3.BoolVal(False),
                                       z3.Implies(t >= 1, S["fdo"] > W.start)))),
        ("cats <=> dictionary page written", cats == S["dictw"]),
        ("encoding == RLE_DICTIONARY <=> dictionary page written", z3.And(z3.BoolVal(enc_code in (0, 8)),
                                                                         S["dictw"] == z3.BoolVal(enc_code == 8))),
        ("every data page so far: value encoding == Encoding[encoding], page type fixed by datapage_version; dictionary page PLAIN",
         z3.And(z3.Implies(t >= 1, z3.And(S["penc"] == enc_code, S["ptype"] == (3 if W.dpv == 2 else 0))),
                z3.Implies(S["dictw"], S["denc"] == 0))),
    ]
    return inv


class ZipPairs:
    """zip(A, B) of two abstract int lists: the page loop of write_column"""
    tracked = False

    def __init__(self, W, A, B):
        self.W, self.A, self.B = W, A, B
        self.P = z3.simplify(z3.If(A.n <= B.n, A.n, B.n))

    def len(self, eng, p):
        return PyI(self.P)

    def tiling_obligations(self, eng, p, st):
        """C01: the pairs are adjacent, start at 0, end at len(data0), every page is non-empty; no page iff no rows"""
        W, A, B, P = self.W, self.A, self.B, self.P
        t = z3.Int("page_skolem")
        inst = []
        for lst in (A, B):
            for r in lst.srcs:
                for i in (t, t + 1, t - 1, P - 1, P):
                    inst += range_instance(r, i)
        q = p.fork()
        q.pc += inst + [0 <= t, t < P]
        pre = f"{eng.cur_func}.page_tiling."
        eng.oblige(q, pre + "first_page_starts_at_row_0", "post", z3.Implies(t == 0, A.at(t) == 0), st)
        eng.oblige(q, pre + "last_page_ends_at_len_data0", "post", z3.Implies(t == P - 1, B.at(t) == W.n), st)
        eng.oblige(q, pre + "pages_adjacent", "post", z3.Implies(t + 1 < P, B.at(t) == A.at(t + 1)), st)
        eng.oblige(q, pre + "every_page_has_rows_and_is_inside", "post", z3.And(0 <= A.at(t), A.at(t) < B.at(t), B.at(t) <= W.n), st)
        q0 = p.fork()
        q0.pc += inst
        eng.oblige(q0, pre + "no_page_iff_no_rows", "post", (P == 0) == (W.n == 0), st)

    def lemma(self, i):
        """instances of the tiling lemma (posed above as its own obligations) at page i"""
        W, A, B, P = self.W, self.A, self.B, self.P
        g = z3.And(0 <= i, i < P)
        return [z3.Implies(z3.And(g, i == 0), A.at(i) == 0), z3.Implies(z3.And(g, i == P - 1), B.at(i) == W.n),
                z3.Implies(z3.And(g, i + 1 < P), B.at(i) == A.at(i + 1)),
                z3.Implies(g, z3.And(0 <= A.at(i), A.at(i) < B.at(i), B.at(i) <= W.n)), (P == 0) == (W.n == 0)]

    def for_loop(self, eng, p, st):
        W = self.W
        if W.mode == "collect":
            # phase A: the prologue paths are only collected here; they are joined at the loop head (see join_paths)
            if W.loop_stmt is not None and W.loop_stmt is not st:
                raise Unsupported("more than one page loop")
            W.loop_stmt = st
            p.ghost["zip"] = self
            W.incoming.append(p)
            return []
        W.loops_seen += 1
        if W.loops_seen > 1 or st is not W.loop_stmt:
            raise Unsupported("more than one page loop")
        fn = eng.cur_func
        self.tiling_obligations(eng, p, st)
        W.tiling = self
        # ---- invariant on entry: sums of whatever the prologue wrote (nothing, in the code as it is)
        def ob_entry(name, goal, note=""):
            eng.oblige(p, f"{fn}.prologue.{name}", "post", goal, st, note)
        S0 = account(eng, p, W, zero_sums(), ob_entry)
        S0["penc"] = S0.get("penc_this", S0["penc"])
        p.pc += self.lemma(z3.IntVal(0))
        for name, g in invariant(eng, p, W, S0, self):
            eng.oblige(p, f"{fn}.page_loop.invariant_on_entry[{name}]", "inv", g, st)
        # ---- havoc: every variable the body (or an earlier iteration) may have assigned
        assigned = sorted({n.id for s in st.body for n in ast.walk(s) if isinstance(n, ast.Name) and isinstance(n.ctx, ast.Store)}
                          | {n.id for n in ast.walk(st.target) if isinstance(n, ast.Name)})
        strvars = {}
        for v in assigned:
            if isinstance(p.env.get(v), Str):
                vals = {p.env[v].s}
                for s in st.body:
                    for n in ast.walk(s):
                        if isinstance(n, (ast.Assign, ast.AugAssign, ast.AnnAssign)):
                            tg = n.targets if isinstance(n, ast.Assign) else [n.target]
                            if any(isinstance(x, ast.Name) and x.id == v for t_ in tg for x in ast.walk(t_)):
                                if isinstance(n, ast.Assign) and isinstance(n.value, ast.Constant) and isinstance(n.value.value, str) \
                                        and all(isinstance(t_, ast.Name) for t_ in tg):
                                    vals.add(n.value.value)
                                else:
                                    raise Unsupported(f"string variable {v} assigned a non-constant in the page loop")
                strvars[v] = sorted(vals)
        W.havoced = assigned

        def havoc(q, combo):
            S = fresh_sums()
            for v in assigned:
                old = q.env.get(v)
                if v in strvars:
                    q.env[v] = Str(combo[v])
                elif isinstance(old, PyI):
                    q.env[v] = PyI(fresh_int("havoc_" + v))
                elif isinstance(old, PyB):
                    q.env[v] = PyB(fresh_bool("havoc_" + v))
                elif isinstance(old, (NoneV, Opt)):
                    q.env[v] = Opt(fresh_bool("havoc_" + v + "_is_None"), PyI(fresh_int("havoc_" + v)))
                else:
                    q.env[v] = Opaque(f"havoc_{v}!{next(_cnt)}")
            W.fs.set_pos(q, fresh_int("havoc_file_pos"))
            q.ghost["pages"], q.ghost["orphans"], q.ghost["iloc_slices"], q.ghost["defblocks"] = [], [], [], []
            q.pc += [g for _, g in invariant(eng, q, W, S, self)]
            q.ghost["sums"] = S
            return S

        outs = []
        combos = [dict(zip(strvars, c)) for c in itertools.product(*[strvars[v] for v in strvars])] or [{}]
        for combo in combos:
            # exit state: all pages done
            e = p.fork()
            S = havoc(e, combo)
            e.pc.append(S["t"] == self.P)
            e.ghost["loop_exit"] = True
            if eng.feasible(e):
                outs.append(e)
            # one arbitrary page
            b = p.fork()
            S = havoc(b, combo)
            t = S["t"]
            b.pc += [t < self.P] + self.lemma(t)
            a_, b_ = self.A.at(t), self.B.at(t)
            b.pc += [NULLS(a_, b_) >= 0, NULLS(a_, b_) <= b_ - a_, NULLS(0, a_) + NULLS(a_, b_) == NULLS(0, b_),
                     z3.Implies(z3.Not(W.optional), NULLS(a_, b_) == 0)]
            if not eng.feasible(b):
                continue
            enc0 = b.env.get("encoding")
            for b1 in eng.assign(st.target, Tup([PyI(a_), PyI(b_)]), b):
                for r in eng.block(st.body, [b1]):
                    if r.ctl == "break":
                        raise Unsupported("break in the page loop")
                    if r.ctl in (None, "continue"):
                        r.ctl = None
                        self.after_body(eng, r, st, S, (a_, b_), enc0)
                    else:
                        outs.append(r)         # raises / returns inside the body: the write fails, nothing is claimed
        return outs

    def after_body(self, eng, r, st, S, page, enc0):
        W, fn = self.W, eng.cur_func

        def ob(name, goal, note=""):
            eng.oblige(r, f"{fn}.page.{name}", "post", goal, st, note)
        S1 = account(eng, r, W, S, ob, spec_page=page)
        ob("exactly_one_data_page_per_tile", z3.BoolVal(S1["n_data_this_log"] == 1),
           "each (row_start, row_end) pair of the tiling produces exactly one data page")
        a_, b_ = page
        gs = []
        for block, ver in r.ghost.get("defblocks", []):
            for tcode, leaves, writes in S1["data_pages"]:
                pv = 2 if tcode == 3 else 1
                written = sum(1 for lf in leaves if lf is block) == 1 and (tcode != 3 or (len(writes) >= 1 and writes[0] is block))
                gs.append(z3.And(ver == pv, z3.BoolVal(written)))
        if len(r.ghost.get("defblocks", [])) > 1 or (r.ghost.get("defblocks") and len(S1["data_pages"]) != 1):
            gs.append(z3.BoolVal(False))
        eng.oblige(r, f"{fn}.definition_block_form_matches_page_version", "post", z3.And(*gs) if gs else z3.BoolVal(True), st,
                   "the datapage_version handed to make_definitions (which decides whether the block carries the v1 4-byte length prefix: "
                   "deflevels.block_is_spec[v1|v2]) is the version of the page header written for this page, and that block is the "
                   "level section of the page (v2: the bytes counted by definition_levels_byte_length)")
        sl = r.ghost.get("iloc_slices", [])
        ob("rows_are_the_tile", z3.And(z3.BoolVal(len(sl) == 1), *[z3.And(x == a_, y == b_) for x, y in sl]),
           "the rows encoded into this page are exactly data0.iloc[row_start:row_end] of the tiling")
        S1["N"] = S["N"] + NULLS(a_, b_)
        enc1 = r.env.get("encoding")
        penc_this = S1.get("penc_this", z3.IntVal(-1))
        # all data pages (earlier ones: S["penc"]; this one) carry Encoding[<encoding after the body>]
        stable = z3.Implies(S["t"] >= 1, z3.BoolVal(isinstance(enc0, Str) and isinstance(enc1, Str) and enc0.s == enc1.s))
        eng.oblige(r, f"{fn}.page_loop.encoding_fixed_after_first_data_page", "inv", stable, st,
                   "the value encoding named in the page headers does not change once a data page was written")
        S1["penc"] = penc_this
        for name, g in invariant(eng, r, W, S1, self):
            eng.oblige(r, f"{fn}.page_loop.invariant_preserved[{name}]", "inv", g, st)
        r.ghost["pageinfo"] = S1["pageinfo"]
        W.body_paths.append(r)


# ---- handlers shared by the runs ------------------------------------------------------------------------------------------
def h_range(eng, p, args, kw, node):
    if len(args) != 3:
        raise Unsupported("range() shape")
    lo, n, r = (eng.as_int(a, p) for a in args)
    if not z3.is_true(z3.simplify(lo == 0)):
        raise Unsupported("range start is not 0")
    out = []
    z = p.fork(r == 0)
    if eng.feasible(z):
        out.append((raise_path(z, "ValueError", node), NONE))          # range() arg 3 must not be zero
    neg = p.fork(r < 0)
    if eng.feasible(neg):
        neg.pc.append(n >= 0)
        out.append((neg, Custom(IntList(z3.IntVal(0), lambda i: z3.IntVal(0)))))
    ok = p.fork(r > 0)
    if eng.feasible(ok):
        out.append((ok, Custom(range_list(eng, ok, n, r, "rows"))))
    return out


def h_getattr(eng, p, args, kw, node):
    o, nm = args[0], args[1]
    if isinstance(nm, Custom) and isinstance(nm.h, UpStr) and isinstance(o, Opaque) and o.tag == ("global:parquet_thrift", "CompressionCodec"):
        return [(p, PyI(nm.h.code))]
    if isinstance(nm, Str):
        return [(p, eng.getattr(o, nm.s, p, node))]
    raise Unsupported("getattr shape")


CODEC = {"UNCOMPRESSED": 0, "SNAPPY": 1, "GZIP": 2, "LZO": 3, "BROTLI": 4, "LZ4": 5, "ZSTD": 6, "LZ4_RAW": 7}


def h_upper(eng, p, args, kw, node):
    """<str literal>.upper() of a codec name (e.g. the default 'gzip'): its number in parquet_thrift.CompressionCodec"""
    o = args[0]
    if isinstance(o, Str) and len(args) == 1:
        if o.s.upper() not in CODEC:
            raise Unsupported(f"{o.s!r}.upper() is not a codec name")
        return [(p, Custom(UpStr(z3.IntVal(CODEC[o.s.upper()]))))]
    eng.check_untracked(args[1:], kw, ".upper", node)
    return [(p, Opaque(("call", ".upper", next(eng.counter))))]


def h_bool(eng, p, args, kw, node):
    if len(args) != 1:
        raise Unsupported("bool() shape")
    return [(p, PyB(eng.truth(args[0], p)))]


def wc_handlers(W):
    def h_rows_per_page(eng, p, args, kw, node):
        return [(p, PyI(W.rpp))]

    def h_zip(eng, p, args, kw, node):
        if len(args) == 2 and all(isinstance(a, Custom) and isinstance(a.h, IntList) for a in args):
            return [(p, Custom(ZipPairs(W, args[0].h, args[1].h)))]
        raise Unsupported("zip shape")

    def h_make_definitions(eng, p, args, kw, node):
        d = args[0]
        if not (isinstance(d, Custom) and isinstance(d.h, Series) and not d.h.nonnull):
            raise Unsupported("make_definitions of something else than a page slice")
        # which block FORM is produced is decided by the datapage_version ARGUMENT (C11: deflevels.block_is_spec[v1|v2]): length-prefixed
        # iff it is 1; the parameter's default comes from the real signature
        ver = args[2] if len(args) > 2 else kw.get("datapage_version")
        if ver is None:
            fd = eng.funcs["make_definitions"].tree.args
            names = [x.arg for x in fd.args]
            dflt = dict(zip(names[len(names) - len(fd.defaults):], fd.defaults)).get("datapage_version")
            if dflt is None:
                raise Unsupported("make_definitions has no default for datapage_version")
            ver = eng.ev1(dflt, p)
        block = BL.opaque(p, "len_definition_levels")
        p.ghost["defblocks"] = p.ghost.get("defblocks", []) + [(block, eng.as_int(ver, p))]
        return [(p, Tup([Custom(block), Custom(Series(W, d.h.a, d.h.b, nonnull=True))]))]

    def h_pd_series(eng, p, args, kw, node):
        if args and isinstance(args[0], Tup) and len(args[0].items) == 1:
            return [(p, Custom(OneFrame(args[0].items[0])))]
        eng.check_untracked(args, kw, "pd.Series", node)
        return [(p, Opaque(("call", "pd.Series", next(eng.counter))))]

    def h_compress(eng, p, args, kw, node):
        x = bl_of(args[0], "compress_data")
        c = args[1] if len(args) > 1 else kw.get("compression")
        if not (isinstance(c, Custom) and c.h is W.comp):
            raise Unsupported("compress_data with a codec argument that is not `compression`")
        if not x.is_raw():
            raise Unsupported("compress_data of compressed bytes")
        n = fresh_int("len_compressed")
        p.pc += [n >= 0, z3.Implies(W.comp.applied == 0, n == x.n)]
        return [(p, Custom(BL(n, x.n, [(n, x.n, W.comp.applied)], leaves=list(x.leaves))))]      # leaves: its plain constituents

    def h_write_thrift(eng, p, args, kw, node):
        if not (isinstance(args[0], Custom) and args[0].h is W.fs):
            raise Unsupported("write_thrift to something that is not the open file")
        h = rec_of(args[1])
        if h is None:
            raise Unsupported("write_thrift of " + type(args[1]).__name__)
        k = fresh_int("len_page_header")
        p.pc.append(k >= 1)
        p.ghost["pages"] = p.ghost["pages"] + [{"hdr": h, "off": W.fs.pos(p), "k": k, "writes": []}]
        W.fs.set_pos(p, W.fs.pos(p) + k)
        return [(p, PyI(k))]

    return {"_rows_per_page": h_rows_per_page, "range": h_range, "zip": h_zip, "make_definitions": h_make_definitions,
            "compress_data": h_compress, "write_thrift": h_write_thrift, "getattr": h_getattr, ".upper": h_upper, "bool": h_bool, "pd.Series": h_pd_series}


def discharge_qf(obligs, timeout):
    """quantifier-free obligations: consecutive obligations with the same hypotheses share one solver (push / pop);
    undecided ones go through vc.backends (z3 again, then cvc5)"""
    from vc import backends
    out, cur_key, sol = [], None, None
    for ob in obligs:
        t = time.time()
        if z3.is_true(ob.goal):
            out.append((PROVED, "simplify", 0.0, None))
            continue
        key = tuple(c.get_id() for c in ob.pc) + tuple(c.get_id() for c in ob.axioms)
        if key != cur_key:
            sol = z3.Solver()
            sol.set("timeout", backends.scaled_timeout(timeout))
            sol.add(*ob.pc)
            sol.add(*ob.axioms)
            cur_key = key
        sol.push()
        sol.add(z3.Not(ob.goal))
        r = sol.check()
        m = sol.model() if r == z3.sat else None
        sol.pop()
        if r == z3.unsat:
            out.append((PROVED, "z3", time.time() - t, None))
        elif r == z3.sat:
            out.append((REFUTED, "z3", time.time() - t, m))
        else:
            out.append(backends.discharge(ob, timeout))
    return out


_restrict_cache = {}


def restrict(pc, prefix="compression."):
    """conjuncts of a path condition that only talk about the `compression` argument"""
    out = []
    for c in pc:
        k = c.get_id()
        if k not in _restrict_cache:
            names, seen, todo = set(), set(), [c]
            while todo and len(seen) < 400:
                e = todo.pop()
                if e.get_id() in seen:
                    continue
                seen.add(e.get_id())
                if z3.is_app(e) and e.num_args() == 0 and e.decl().kind() == z3.Z3_OP_UNINTERPRETED:
                    names.add(e.decl().name())
                elif z3.is_app(e) and e.decl().kind() == z3.Z3_OP_UNINTERPRETED:
                    names.add("fn:" + e.decl().name())
                todo += e.children()
            _restrict_cache[k] = (c, bool(names) and not todo and all(n.startswith(prefix) for n in names))
        if _restrict_cache[k][1]:
            out.append(c)
    return out


def short_model(m, W=None):
    if m is None:
        return None
    d = {}
    for dcl in m.decls():
        nm = dcl.name()
        if dcl.arity() == 0 and not nm.startswith(("opq", "isinst", "streq", "truth", "in!", "isnone", "len!")):
            d[nm] = str(m[dcl])
    return dict(sorted(d.items())[:40])


def same_value(a, b):
    if a is b:
        return True
    if type(a) is not type(b):
        return False
    if isinstance(a, (PyI, PyB)):
        return a.z.eq(b.z)
    if isinstance(a, Str):
        return a.s == b.s
    if isinstance(a, NoneV):
        return True
    if isinstance(a, Opaque):
        return a.tag == b.tag
    if isinstance(a, Custom):
        return a.h is b.h
    if isinstance(a, Tup):
        return len(a.items) == len(b.items) and all(same_value(x, y) for x, y in zip(a.items, b.items))
    return False


def join_paths(eng, paths):
    """control-flow join at the loop head: path condition = common conjuncts + the disjunction of the paths' remainders; a variable on
    which the paths differ becomes an if-then-else over those remainders (ints, bools) or a Phi value [(remainder, value)] (anything
    else: only max / min of the statistics block, which flow into parquet_thrift.Statistics).  Exact, nothing is weakened."""
    first = paths[0]
    j = first.fork()
    ids = [set(c.get_id() for c in q.pc) for q in paths]
    common = [c for c in first.pc if all(c.get_id() in s for s in ids)]
    cid = set(c.get_id() for c in common)
    conds = [z3.And(*[c for c in q.pc if c.get_id() not in cid]) if any(c.get_id() not in cid for c in q.pc) else z3.BoolVal(True)
             for q in paths]
    j.pc = common + ([z3.Or(*conds)] if len(paths) > 1 else [])

    def ite(vals):
        r = vals[-1]
        for c, v in reversed(list(zip(conds, vals))[:-1]):
            r = z3.If(c, v, r)
        return r
    env = {}
    for v, val in first.env.items():
        if all(v in q.env and same_value(val, q.env[v]) for q in paths):
            env[v] = val
        elif all(v in q.env and isinstance(q.env[v], PyB) for q in paths):
            env[v] = PyB(ite([q.env[v].z for q in paths]))
        elif all(v in q.env and isinstance(q.env[v], PyI) for q in paths):
            env[v] = PyI(ite([q.env[v].z for q in paths]))
        elif all(v in q.env for q in paths):
            env[v] = Custom(Phi([(c, q.env[v]) for c, q in zip(conds, paths)]))
    j.env = env
    j.opq = {k: v for k, v in first.opq.items() if all(k in q.opq and (q.opq[k] is v or same_value(q.opq[k], v) or
                                                                        (z3.is_expr(v) and z3.is_expr(q.opq[k]) and v.eq(q.opq[k])))
                                                     for q in paths)}
    for k in ("file", "pages", "orphans"):
        if not all(str(q.ghost.get(k)) == str(first.ghost.get(k)) for q in paths):
            raise Unsupported("prologue paths disagree on the file state at the page loop")
    if not all(q.ghost["zip"].P.eq(first.ghost["zip"].P) for q in paths):
        raise Unsupported("prologue paths disagree on the page tiling")
    j.ghost["joined"] = len(paths)
    return j


def run_write_column(ctx, funcs, timeout, dpv):
    from vc import backends
    res = Results()
    tag = f"write_column[v{dpv}]"
    W = World(dpv)
    eng = BEngine(funcs=funcs, handlers=wc_handlers(W), inline=("check_32",), opaque_calls=True)
    p = Path()
    p.pc += W.pre
    W.fs.init(p, W.start)
    st, _, _ = solve(list(p.pc), timeout)
    if st == REFUTED:                                   # sat: the precondition is not vacuous
        ctx.vacuity["requires_sat"] += 1
    else:
        ctx.engine_error(tag + ": precondition unsatisfiable")
    data0 = Custom(W.data0)
    args = [Custom(W.fs), data0, Custom(SElement(W))]
    kw = {"compression": Custom(W.comp), "datapage_version": PyI(dpv, lit=True), "stats": PyB(z3.Bool("stats_requested"))}
    try:
        outs = eng.run("write_column", p, args, kw)          # phase A: prologue, up to the page loop
        body = funcs["write_column"].tree.body
        if W.loop_stmt is None or W.loop_stmt not in body or not W.incoming:
            res.add(tag + ".out_of_reach", UNKNOWN, None, 0.0, "engine", "the page loop (for ... in zip(row_offsets[:-1], "
                    "row_offsets[1:])) was not reached as a top-level statement of write_column")
            return res
        j = join_paths(eng, W.incoming)
        W.mode = "run"
        eng.cur_func = "write_column"
        outs2 = eng.block(body[body.index(W.loop_stmt):], [j])   # phase B: page loop + epilogue on the joined state
        for q in outs2:
            if q.ctl is None:
                q.ctl = ("ret", NONE)
        outs = [q for q in outs if q.ctl is not None and q.ctl[0] == "raise"] + outs2
    except Unsupported as ex:
        res.add(tag + ".out_of_reach", UNKNOWN, None, 0.0, "engine", str(ex))
        return res
    if W.loops_seen != 1:
        res.add(tag + ".out_of_reach", UNKNOWN, None, 0.0, "engine", "the page loop (for ... in zip(row_offsets[:-1], row_offsets[1:])) was not found")
        return res
    rets = [q for q in outs if q.ctl[0] == "ret"]
    # ---- exit obligations
    F_by_path = []
    for q in rets:
        rl = ret_line(q)
        fn = "write_column"

        def ob(name, goal, note="", q=q):
            eng.oblige(q, f"{fn}.{name}", "post", goal, None, note)
        chunk = rec_of(q.ctl[1], "ColumnChunk")
        cmd = rec_of(chunk.get("meta_data"), "ColumnMetaData") if chunk is not None else None
        if cmd is None or not q.ghost.get("loop_exit"):
            ob(f"returns_a_column_chunk_after_the_page_loop@return-L{rl}", z3.BoolVal(False))
            continue
        F = account(eng, q, W, q.ghost["sums"], lambda name, goal, note="": ob("epilogue." + name, goal, note))
        F_by_path.append((q, F, cmd))
        pos_end = W.fs.pos(q)

        def fld(name):
            return int_field(eng, q, cmd, name)
        tcs, tus, nv, dpo = fld("total_compressed_size"), fld("total_uncompressed_size"), fld("num_values"), fld("data_page_offset")
        F_ = z3.BoolVal(False)
        ob("colmeta.total_compressed_size_is_chunk_bytes", F_ if tcs is None else z3.And(tcs == pos_end - W.start, tcs == F["H"] + F["C"]),
           "total_compressed_size == f.pos_end - column_chunk_start == all header bytes + all stored payload bytes")
        ob("colmeta.total_uncompressed_size_is_headers_plus_plain", F_ if tus is None else tus == F["H"] + F["U"],
           "total_uncompressed_size == all header bytes + all payload bytes as they were before compression")
        ob("colmeta.num_values_is_len_data0_is_sum_of_pages", F_ if nv is None else z3.And(nv == W.n, F["V"] == W.n),
           "num_values == len(data0) == sum of the data pages' num_values")
        ob("colmeta.data_page_offset_is_first_data_page_header", F_ if dpo is None else z3.Implies(F["t"] >= 1, dpo == F["fdo"]),
           "data_page_offset == file offset of the header of the first DATA page (after the dictionary page, if any)")
        dn, dv = opt_parts(eng, q, cmd.get("dictionary_page_offset"))
        ob("colmeta.dictionary_page_offset_iff_dictionary_page",
           z3.And(F["dictw"] == z3.Not(dn),
                  z3.Implies(F["dictw"], z3.And(dv == W.start, dv == F["dpo"], z3.Implies(F["t"] >= 1, dv < (dpo if dpo is not None else dv))))
                  if dv is not None else z3.Not(F["dictw"])),
           "dictionary_page_offset is set iff a dictionary page was written; then it is column_chunk_start, where that page is, "
           "and < data_page_offset")
        fo = int_field(eng, q, chunk, "file_offset")
        ob("chunk.file_offset_is_column_chunk_start", F_ if fo is None else fo == W.start, "ColumnChunk.file_offset == where the chunk starts")
        srec = rec_of(cmd.get("statistics"), "Statistics")
        nc = int_field(eng, q, srec, "null_count") if srec is not None else None
        ob("statistics.null_count_is_missing_cells", F_ if nc is None else nc == NULLS(0, W.n),
           "statistics.null_count == number of missing cells of the whole chunk (sum over ALL pages)")
        # min / max: exactly the PLAIN encoding of the column's max / min as computed over the whole column
        BA, CN = z3.Bool("selement.type_is_BYTE_ARRAY"), z3.Bool("selement.converted_type_is_None")
        present = {}
        for which in ("max", "min"):
            val = srec.fields.get(which) if srec is not None else None
            present[which] = val is not None
            if val is None:
                continue
            gs = []
            for cond, v in alternatives(val):
                def is_extreme(x):
                    return isinstance(x, Custom) and isinstance(x.h, ColExtreme) and x.h.which == which \
                        and x.h.chain in ((), ("unique",), ("unique", "as_ordered"))

                def is_plain(pr):
                    return isinstance(pr, tuple) and pr[0] == "encode" and pr[1] == "PLAIN" and is_extreme(pr[2]) and pr[3] is True
                pr = v.h.prov if isinstance(v, Custom) and isinstance(v.h, BL) else None
                raw_ok = is_extreme(v)
                plain_ok = is_plain(pr)
                bare_ok = isinstance(pr, tuple) and pr[0] == "slice" and pr[1] == 4 and pr[2] is None and is_plain(pr[3])
                gs.append(z3.Implies(cond, z3.And(z3.Implies(z3.Not(BA), z3.BoolVal(plain_ok)),
                                                  z3.Implies(z3.And(BA, z3.Not(CN)), z3.BoolVal(bare_ok)),
                                                  z3.Implies(z3.And(BA, CN), z3.BoolVal(raw_ok)))))
            ob(f"statistics.{which}_is_plain_encoding_of_column_{which}", z3.And(*gs),
               f"Statistics.{which} is exactly encode['PLAIN'](one-element frame of the {which} of the WHOLE column data0, selement) - for a "
               "BYTE_ARRAY column without its 4-byte length prefix, or the value itself when there is no converted type - with no slicing, "
               "truncation, re-encoding or substitution on the way to the Statistics constructor")
        ob("statistics.max_and_min_both_present_or_both_absent", z3.BoolVal(present["max"] == present["min"]),
           "a chunk carries both bounds or none")
        # encodings / encoding_stats
        encs = cmd.get("encodings")
        codes = [enum_code(x, ENC, "Encoding") for x in encs.items] if isinstance(encs, Tup) else None
        if codes is None or None in codes:
            ob("colmeta.encodings_are_the_page_encodings", F_)
        else:
            g = z3.And(*[z3.BoolVal(c in codes) == z3.Or(z3.And(F["dictw"], F["denc"] == c), F["penc"] == c) for c in sorted(set(ENC.values()))])
            ob("colmeta.encodings_are_the_page_encodings", z3.Implies(F["t"] >= 1, g),
               "encodings == set of value encodings of the pages written (dictionary page and data pages)")
        es = cmd.get("encoding_stats")
        ents = []
        if isinstance(es, Tup):
            for x in es.items:
                r_ = rec_of(x, "PageEncodingStats")
                if r_ is None:
                    ents = None
                    break
                ents.append((enum_code(r_.get("page_type"), PAGETYPE, "PageType"), enum_code(r_.get("encoding"), ENC, "Encoding"),
                             int_field(eng, q, r_, "count")))
        if not isinstance(es, Tup) or ents is None or any(a is None or b is None or c is None for a, b, c in ents):
            ob("colmeta.encoding_stats_counts_and_encodings", F_)
            ob("colmeta.encoding_stats_page_type", F_)
        else:
            def expected(pt, c, merge):
                dp = z3.Or(F["ptype"] == pt, z3.BoolVal(merge and pt == 0)) if not (merge and pt == 3) else z3.BoolVal(False)
                return z3.If(z3.And(F["dictw"], z3.BoolVal(pt == 2), F["denc"] == c), 1, 0) + z3.If(z3.And(dp, F["penc"] == c), F["t"], 0)

            def listed(pt, c, merge):
                pts = (0, 3) if (merge and pt == 0) else () if (merge and pt == 3) else (pt,)
                xs = [n_ for a, b, n_ in ents if a in pts and b == c]
                return z3.Sum(*xs) if xs else z3.IntVal(0)
            for merge, name, note in ((True, "colmeta.encoding_stats_counts_and_encodings",
                                       "for each (page kind, encoding) the listed count == number of such pages (DATA_PAGE and "
                                       "DATA_PAGE_V2 not distinguished here)"),
                                      (False, "colmeta.encoding_stats_page_type",
                                       "the page_type of each encoding_stats entry is the type the page headers carry")):
                g = z3.And(*[listed(pt, c, merge) == expected(pt, c, merge) for pt in (0, 2, 3) for c in sorted(set(ENC.values()))])
                ob(name, z3.Implies(F["t"] >= 1, g), note)
    # ---- codec: every page of every iteration against the codec recorded at the end (both only depend on `compression`)
    cv = z3.Int("colmeta.codec")
    exits = []
    for q, F, cmd in F_by_path:
        c = int_field(eng, q, cmd, "codec")
        if c is not None:
            exits.append(z3.And(*(restrict(q.pc) + [cv == c])))
    t0 = time.time()
    seen = set()
    n_codec = 0
    if exits:
        E = z3.Or(*exits)
        for r in W.body_paths:
            for shape in r.ghost.get("pageinfo", []):
                rp = restrict(r.pc)
                if shape[0] == "whole":
                    segs = shape[1]
                    allraw = z3.And(*[c == 0 for _, _, c in segs]) if segs else z3.BoolVal(True)
                    goal = z3.Or(z3.And(cv == 0, allraw), z3.And(z3.BoolVal(len(segs) == 1), *[c == cv for _, _, c in segs]))
                    nm = "page.payload_codec_is_colmeta_codec"
                    note = "the whole payload of a v1 / dictionary page is ONE unit compressed with the codec named in ColumnMetaData.codec (0 = stored as is)"
                else:
                    segs, flag = shape[1], shape[2]
                    fl = eng.truth(flag, r) if not isinstance(flag, NoneV) else z3.BoolVal(True)
                    allraw = z3.And(*[c == 0 for _, _, c in segs]) if segs else z3.BoolVal(True)
                    goal = z3.If(fl, z3.Or(z3.And(cv == 0, allraw), z3.And(z3.BoolVal(len(segs) == 1), *[c == cv for _, _, c in segs])), allraw)
                    nm = "data_page_v2.values_codec_is_colmeta_codec_iff_is_compressed"
                    note = "v2: the values section is one unit compressed with ColumnMetaData.codec iff is_compressed, else stored as is"
                key = (nm, str(rp), str(goal))
                if key in seen:
                    continue
                seen.add(key)
                stt, m, secs = solve(rp + [E, z3.Not(goal)], timeout)
                n_codec += 1
                res.add(f"{tag}.{nm}", stt, short_model(m), secs, "z3", note)
                # the same claim outside the region of fixed-C02-codec-dict-without-type (a dict-form compression spec without the key 'type')
                stt, m, secs = solve(rp + [E, z3.Not(z3.And(W.comp.dict, z3.Not(W.comp.has_type))), z3.Not(goal)], timeout)
                res.add(f"{tag}.{nm}[compression is not a dict lacking 'type']", stt, short_model(m), secs, "z3", note)
                # ... and outside the region of fixed-C02-codec-empty-dict (compression == {})
                stt, m, secs = solve(rp + [E, z3.Not(z3.And(W.comp.dict, z3.Not(W.comp.truthy))), z3.Not(goal)], timeout)
                res.add(f"{tag}.{nm}[compression is not an empty dict]", stt, short_model(m), secs, "z3", note)
    else:
        res.add(f"{tag}.page.payload_codec_is_colmeta_codec", UNKNOWN, None, 0.0, "engine", "no returning path with a codec field")
    # ---- discharge
    for ob_, (stt, be, secs, m) in zip(eng.oblig, discharge_qf(eng.oblig, timeout)):
        nm = ob_.name.replace("write_column.", tag + ".", 1) if ob_.name.startswith("write_column.") else tag + "." + ob_.name
        res.add(nm, stt, short_model(m) if m is not None else None, secs, be, ob_.note or ob_.kind)
    # vacuity: paths exist; a wrong postcondition is refutable
    n_body = len(W.body_paths)
    if not rets or not n_body:
        ctx.engine_error(f"{tag}: no returning path / no page-loop body path")
    ctx.vacuity["covers"] += len(rets) + n_body
    for q, F, cmd in F_by_path[:1]:
        tus, tcs = int_field(eng, q, cmd, "total_uncompressed_size"), int_field(eng, q, cmd, "total_compressed_size")
        if tus is not None and tcs is not None:
            stt, _, _ = solve(list(q.pc) + [tus != tcs + 1], timeout)
            if stt == REFUTED:
                ctx.vacuity["must_fail_sat"] += 1
    res.stats = {"paths_ret": len(rets), "paths_body": n_body, "paths_all": len(outs), "codec_queries": n_codec, "feas": eng.n_feas}
    return res


# ---- make_row_group -------------------------------------------------------------------------------------------------------------
HASTYPE = z3.Function("schema_element_has_type", I, z3.BoolSort())
CNT = z3.Function("typed_elements_before", I, I)          # number of schema elements with a type among schema[0:j]
CHUNK_FIELD = {}


def chunk_field(name):
    if name not in CHUNK_FIELD:
        CHUNK_FIELD[name] = (z3.Function("chunk_meta_data." + name, I, I), z3.Int("sum_over_chunks_of_meta_data." + name))
    return CHUNK_FIELD[name]


COL_LABEL = z3.Function("COL_of_label", I, I)          # ghost: the column of `data` LABELLED name(j) / literal_eval(name(j))
COL_POS = z3.Function("COL_at_position", I, I)         # ghost: the column at a POSITION of `data`; no relation to labels is assumed
SCHEMA_IDX = {}                                        # str(j) -> z3 term j (opaque tags carry strings)


class SliceVal:
    """a bare slice inside a subscript tuple: data.iloc[:, k]"""
    tracked = False

    def __init__(self, lo, hi, step):
        self.lo, self.hi, self.step = lo, hi, step


class Frame:
    """`data`: data[label] is the column LABELLED label; data.iloc[:, k] is the column at POSITION k.  The column order of the
    frame is arbitrary: nothing relates positions to labels (write_row_groups only compares sorted column names)."""
    tracked = False

    def __init__(self, rows):
        self.rows = rows

    def len(self, eng, p):
        return PyI(self.rows)

    def attr(self, eng, p, name):
        if name in ("iloc", "iat"):
            return Custom(FrameILoc(self))
        return Opaque(("frame", name))

    def getitem(self, eng, p, i, node):
        if isinstance(i, Opaque) and isinstance(i.tag, tuple) and len(i.tag) == 2 and i.tag[0] in ("colname", "literal_name") \
                and i.tag[1] in SCHEMA_IDX:
            return Custom(ColData(self, i.tag[0], SCHEMA_IDX[i.tag[1]], i))
        return Custom(ColData(self, "other", None, i))


class FrameILoc:
    tracked = False

    def __init__(self, frame):
        self.frame = frame

    def getitem(self, eng, p, i, node):
        if isinstance(i, Tup) and len(i.items) == 2 and isinstance(i.items[0], Custom) and isinstance(i.items[0].h, SliceVal) \
                and i.items[0].h.lo is None and i.items[0].h.hi is None and i.items[0].h.step is None \
                and isinstance(i.items[1], (PyI, PyB)):
            return Custom(ColData(self.frame, "position", eng.as_int(i.items[1], p), i))
        return Custom(ColData(self.frame, "other", None, i))

    def slice(self, eng, p, lo, hi, node):
        raise Unsupported("row slice of the frame in make_row_group")


class ColData:
    """a column of the frame: kind 'colname' = COL_LABEL(name of schema element idx), 'literal_name' = COL_LABEL(literal_eval(name of
    schema element idx)), 'position' = COL_POS(idx), 'other' = anything else"""
    tracked = False

    def __init__(self, frame, kind, idx, key):
        self.frame, self.kind, self.idx, self.key = frame, kind, idx, key

    def attr(self, eng, p, name):
        return Opaque(("coldata", self.kind, str(self.idx), name))

    def len(self, eng, p):
        return PyI(self.frame.rows)


class SchemaEl:
    tracked = False

    def __init__(self, j):
        self.j = j
        SCHEMA_IDX[str(j)] = j

    def attr(self, eng, p, name):
        if name == "type":
            return Opt(z3.Not(HASTYPE(self.j)), Opaque(("type", str(self.j))))
        if name == "name":
            return Opaque(("colname", str(self.j)))
        return Opaque(("schema_element", str(self.j), name))


class ChunkAbs:
    """an arbitrary member of the abstracted list of chunks"""
    tracked = False

    def __init__(self, k, meta=False):
        self.k, self.meta = k, meta

    def attr(self, eng, p, name):
        if not self.meta:
            if name == "meta_data":
                return Custom(ChunkAbs(self.k, True))
            raise Unsupported("chunk." + name)
        return PyI(chunk_field(name)[0](self.k))


class ChunkList(GList):
    """cols: after the schema loop it is abstract: L chunks + the ones appended since"""

    def abstract_len(self, p):
        return p.ghost.get(("abs", self.key))

    def len(self, eng, p):
        L = self.abstract_len(p)
        n = len(self.items(p))
        return PyI(n if L is None else L + n)

    def arbitrary(self, eng, p):
        L = self.abstract_len(p)
        if L is None or self.items(p):
            raise Unsupported("comprehension over a partly concrete chunk list")
        k = fresh_int("arbitrary_chunk")
        p.pc += [0 <= k, k < L]
        p.ghost["arb_chunk"] = k
        return Custom(ChunkAbs(k))

    def iterate(self, eng, p):
        if self.abstract_len(p) is not None:
            raise Unsupported("concrete iteration over the abstract chunk list")
        return list(self.items(p))


class Schema:
    """the schema: M elements, element j has a type iff HASTYPE(j)"""
    tracked = False

    def __init__(self, R):
        self.R = R

    def len(self, eng, p):
        return PyI(self.R.M)

    def getitem(self, eng, p, i, node):
        k = z3.simplify(eng.as_int(i, p))
        eng.oblige(p, f"{eng.cur_func}.schema_index_in_range@L{node.lineno}", "safety", z3.And(k >= -self.R.M, k < self.R.M), node)
        return Custom(SchemaEl(z3.simplify(z3.If(k < 0, self.R.M + k, k))))

    def for_loop(self, eng, p, st):
        R, fn = self.R, eng.cur_func
        R.loops += 1
        if R.loops > 1:
            raise Unsupported("more than one loop over the schema")
        lists = [(v, x.h) for v, x in p.env.items() if isinstance(x, Custom) and isinstance(x.h, GList)]
        if len(lists) != 1:
            raise Unsupported("expected exactly one list variable (cols) before the schema loop")
        var, cols = lists[0]
        cols.__class__ = ChunkList
        R.cols = cols
        eng.oblige(p, f"{fn}.schema_loop.invariant_on_entry[no chunk yet, nothing written]", "inv",
                   z3.And(z3.BoolVal(len(cols.items(p)) == 0 and not p.ghost.get("wc_calls")), R.fs.pos(p) == R.pos0), st)
        assigned = sorted({n.id for s in st.body for n in ast.walk(s) if isinstance(n, ast.Name) and isinstance(n.ctx, ast.Store)}
                          | {n.id for n in ast.walk(st.target) if isinstance(n, ast.Name)})
        if var in assigned:
            raise Unsupported("cols is re-assigned in the schema loop")

        def havoc(q):
            j, L = fresh_int("schema_index"), fresh_int("chunks_so_far")
            for v in assigned:
                q.env[v] = Opaque(f"havoc_{v}!{next(_cnt)}")
            q.ghost[cols.key] = []
            q.ghost[("abs", cols.key)] = L
            q.ghost["wc_calls"] = []
            R.fs.set_pos(q, fresh_int("havoc_file_pos"))
            q.pc += [0 <= j, j <= R.M, L == CNT(j), CNT(0) == 0, L >= 0]
            return j, L
        e = p.fork()
        j, L = havoc(e)
        e.pc.append(j == R.M)
        e.ghost["loop_exit"] = True
        outs = [e]
        b = p.fork()
        j, L = havoc(b)
        b.pc += [j < R.M, CNT(j + 1) == CNT(j) + z3.If(HASTYPE(j), 1, 0)]
        for b1 in eng.assign(st.target, Custom(SchemaEl(j)), b):
            for r in eng.block(st.body, [b1]):
                if r.ctl == "break":
                    raise Unsupported("break in the schema loop")
                if r.ctl not in (None, "continue"):
                    outs.append(r)
                    continue
                r.ctl = None
                items, calls = cols.items(r), r.ghost.get("wc_calls", [])
                ok_typed = len(items) == 1 and len(calls) == 1 and isinstance(items[0], Custom) and items[0].h is calls[0]["chunk"] \
                    and calls[0]["col_j"] is not None and calls[0]["col_j"].eq(j) and calls[0]["file_ok"]
                # which column of the frame is written under schema element j: the one LABELLED by the element
                mi = r.opq.get(("isinstance", ("frame", "columns"), "pd.MultiIndex"))
                MI = mi.z if isinstance(mi, PyB) else fresh_bool("frame_columns_is_MultiIndex")
                lit_failed = z3.BoolVal(str(j) in r.ghost.get("literal_eval_failed", []))
                gs = []
                for c in calls:
                    cd = c["coldata"]
                    if cd is None or cd.frame is not R.frame or cd.kind not in ("colname", "literal_name"):
                        gs.append(z3.BoolVal(False))
                    elif cd.kind == "colname":
                        gs.append(z3.And(cd.idx == j, z3.Or(z3.Not(MI), lit_failed)))
                    else:
                        gs.append(z3.And(cd.idx == j, MI))
                eng.oblige(r, f"{fn}.chunk_written_from_the_column_named_by_its_schema_element", "post",
                           z3.Implies(HASTYPE(j), z3.And(*gs) if gs else z3.BoolVal(False)), st,
                           "the column handed to write_column for schema element e is data[e.name] - the column LABELLED e.name (MultiIndex "
                           "frame: data[literal_eval(e.name)] when it parses, else data[e.name]); never a column chosen by position, "
                           "the column order of the frame being arbitrary")
                ok_untyped = len(items) == 0 and len(calls) == 0
                eng.oblige(r, f"{fn}.one_chunk_per_typed_schema_element_in_schema_order", "post",
                           z3.If(HASTYPE(j), z3.BoolVal(ok_typed), z3.BoolVal(ok_untyped)), st,
                           "for schema element j: if it has a type, exactly one write_column(f, <a column>, element j) "
                           "and its chunk is appended next; otherwise nothing is written or appended")
                if calls:
                    nv = calls[0]["chunk"].get("meta_data").h.get("num_values")
                    eng.oblige(r, f"{fn}.chunk_num_values_is_num_rows", "post", eng.as_int(nv, r) == R.rows, st,
                               "every chunk holds len(data) values (the column passed is a column of `data`)")
                eng.oblige(r, f"{fn}.schema_loop.invariant_preserved[len(cols) == typed elements so far]", "inv",
                           L + len(items) == CNT(j + 1), st)
        return outs


class RGWorld:
    def __init__(self):
        self.rows, self.M, self.pos0 = z3.Int("len_data"), z3.Int("len_schema"), z3.Int("file_pos_at_entry")
        self.fs, self.loops, self.cols = FS(), 0, None
        self.frame = Frame(self.rows)


def run_make_row_group(ctx, funcs, timeout):
    res = Results()
    tag = "make_row_group"
    R = RGWorld()

    def h_write_column(eng, p, args, kw, node):
        file_ok = len(args) >= 3 and isinstance(args[0], Custom) and args[0].h is R.fs
        if not file_ok:
            raise Unsupported("write_column called with something that is not the open file")
        cd, col = args[1], args[2]
        w, tu, tc = fresh_int("chunk_bytes"), fresh_int("chunk_total_uncompressed_size"), fresh_int("chunk_total_compressed_size")
        p.pc += [w >= 0, tu >= 0, tc >= 0]
        R.fs.set_pos(p, R.fs.pos(p) + w)
        nv = cd.h.len(eng, p) if isinstance(cd, Custom) and hasattr(cd.h, "len") else PyI(fresh_int("len_coldata"))
        md = Rec("ColumnMetaData", {"total_uncompressed_size": PyI(tu), "total_compressed_size": PyI(tc), "num_values": nv})
        ch = Rec("ColumnChunk", {"meta_data": Custom(md)})
        p.ghost["wc_calls"] = p.ghost.get("wc_calls", []) + [
            {"chunk": ch, "col_j": col.h.j if isinstance(col, Custom) and isinstance(col.h, SchemaEl) else None,
             "coldata": cd.h if isinstance(cd, Custom) and isinstance(cd.h, ColData) else None, "file_ok": file_ok}]
        return [(p, Custom(ch))]

    def h_literal_eval(eng, p, args, kw, node):
        a = args[0]
        j = a.tag[1] if isinstance(a, Opaque) and isinstance(a.tag, tuple) and a.tag[0] == "colname" else None
        bad = p.fork()
        raise_path(bad, "ValueError", node)
        bad.ghost["literal_eval_failed"] = bad.ghost.get("literal_eval_failed", []) + [str(j)]
        return [(p, Opaque(("literal_name", j)) if j is not None else Opaque(("literal", next(eng.counter)))), (bad, NONE)]

    def h_sum(eng, p, args, kw, node):
        v = args[0]
        if isinstance(v, Custom) and isinstance(v.h, AbstractComp) and isinstance(v.h.elt, PyI) and isinstance(v.h.coll, Custom) \
                and v.h.coll.h is R.cols and z3.is_true(z3.simplify(v.h.guard)):
            k = p.ghost.get("arb_chunk")
            for name, (f, total) in list(CHUNK_FIELD.items()):
                if k is not None and v.h.elt.z.eq(f(k)):
                    return [(p, PyI(total))]
        raise Unsupported("sum() of something else than one meta_data field over all chunks")

    eng = BEngine(funcs=funcs, handlers={"write_column": h_write_column, "ast.literal_eval": h_literal_eval, "sum": h_sum},
                  opaque_calls=True)
    p = Path()
    p.pc += [R.rows >= 0, R.M >= 0, R.pos0 >= 0]
    R.fs.init(p, R.pos0)
    if solve(list(p.pc), timeout)[0] == REFUTED:
        ctx.vacuity["requires_sat"] += 1
    try:
        outs = eng.run("make_row_group", p, [Custom(R.fs), Custom(R.frame), Custom(Schema(R))],
                       {"compression": Opaque("compression"), "stats": Opaque("stats")})
    except Unsupported as ex:
        res.add(tag + ".out_of_reach", UNKNOWN, None, 0.0, "engine", str(ex))
        return res
    n_rg = n_none = 0
    for q in outs:
        if q.ctl[0] != "ret":
            continue
        rl = ret_line(q)
        v = q.ctl[1]

        def ob(name, goal, note="", q=q):
            eng.oblige(q, f"{tag}.{name}", "post", goal, None, note)
        if isinstance(v, NoneV):
            n_none += 1
            ob("empty_frame_returns_None_without_writing", z3.And(R.rows == 0, R.fs.pos(q) == R.pos0, z3.BoolVal(not q.ghost.get("wc_calls")),
                                                                  z3.BoolVal(not q.ghost.get("loop_exit"))),
               "rows == 0: returns None, the file is untouched")
            continue
        rg = rec_of(v, "RowGroup")
        if rg is None or not q.ghost.get("loop_exit"):
            ob(f"returns_a_row_group@return-L{rl}", z3.BoolVal(False))
            continue
        n_rg += 1
        ob("nonempty_frame_returns_a_row_group", R.rows > 0, "a row group is only built for rows > 0")
        nr, tb = int_field(eng, q, rg, "num_rows"), int_field(eng, q, rg, "total_byte_size")
        ob("rg.num_rows_is_len_data", z3.BoolVal(False) if nr is None else nr == R.rows, "RowGroup.num_rows == len(data)")
        tot = chunk_field("total_uncompressed_size")[1]
        ob("rg.total_byte_size_is_sum_of_total_uncompressed_size", z3.BoolVal(False) if tb is None else tb == tot,
           "RowGroup.total_byte_size == sum over its chunks of meta_data.total_uncompressed_size")
        cols = rg.get("columns")
        ob("rg.columns_are_the_chunks_in_schema_order",
           z3.And(z3.BoolVal(isinstance(cols, Custom) and cols.h is R.cols and not R.cols.items(q)), R.cols.len(eng, q).z == CNT(R.M)),
           "RowGroup.columns is the list built by the schema loop: one chunk per schema element with a type, in schema order")
    for ob_, (stt, be, secs, m) in zip(eng.oblig, discharge_qf(eng.oblig, timeout)):
        res.add(ob_.name, stt, short_model(m) if m is not None else None, secs, be, ob_.note or ob_.kind)
    if not n_rg or not n_none:
        ctx.engine_error(f"{tag}: expected a path returning a row group and one returning None")
    ctx.vacuity["covers"] += n_rg + n_none
    res.stats = {"paths": len(outs), "rg": n_rg, "none": n_none}
    return res


# ---- iter_dataframe ---------------------------------------------------------------------------------------------------------------
class SliceRec:
    tracked = False

    def __init__(self, lo, hi):
        self.lo, self.hi = lo, hi


class FrameI:
    tracked = False

    def __init__(self, n):
        self.n = n

    def len(self, eng, p):
        return PyI(self.n)

    def attr(self, eng, p, name):
        if name == "iloc":
            return Custom(self)
        raise Unsupported("data." + name)

    def slice(self, eng, p, lo, hi, node):
        return Custom(SliceRec(lo, hi))


class OffList(IntList):
    """row_group_offsets as a list: m offsets; `strict`: explicit list given by the caller (precondition: starts at 0, ascending)"""

    def isinstance(self, eng, p, tn):
        return z3.BoolVal("list" in tn)

    def enumerate(self, eng, p):
        return Custom(EnumOff(self))


class EnumOff:
    tracked = False

    def __init__(self, lst):
        self.lst = lst

    def for_loop(self, eng, p, st):
        lst, fn = self.lst, eng.cur_func
        p.ghost["abstract_loops"] = p.ghost.get("abstract_loops", 0) + 1
        assigned = sorted({n.id for s in st.body for n in ast.walk(s) if isinstance(n, ast.Name) and isinstance(n.ctx, ast.Store)}
                          | {n.id for n in ast.walk(st.target) if isinstance(n, ast.Name)})
        for v, x in p.env.items():
            if v in assigned and isinstance(x, Custom) and x.h is lst:
                raise Unsupported("the offsets list is re-assigned in the loop")
        e = p.fork()
        for v in assigned:
            e.env[v] = Opaque(f"havoc_{v}!{next(_cnt)}")
        outs = [e]
        b = p.fork()
        for v in assigned:
            b.env[v] = Opaque(f"havoc_{v}!{next(_cnt)}")
        i = fresh_int("chunk_index")
        b.pc += [0 <= i, i < lst.n] + [c for r in lst.srcs for k in (i, i + 1) for c in range_instance(r, k)] + lst.facts(i)
        y0 = len(b.ghost.get("yields", []))
        for b1 in eng.assign(st.target, Tup([PyI(i), PyI(lst.at(i))]), b):
            for r in eng.block(st.body, [b1]):
                if r.ctl not in (None, "continue"):
                    outs.append(r)
                    continue
                ys = r.ghost.get("yields", [])[y0:]
                pre = f"{fn}.chunk."
                one = len(ys) == 1 and isinstance(ys[0], Custom) and isinstance(ys[0].h, SliceRec)
                eng.oblige(r, pre + "one_slice_per_offset", "post", z3.BoolVal(one), st, "each offset yields exactly one data.iloc[start:end]")
                if not one:
                    continue
                lo, hi = ys[0].h.lo, ys[0].h.hi
                lo_z = eng.as_int(lo, r) if lo is not None and not isinstance(lo, NoneV) else None
                hn, hv = opt_parts(eng, r, hi) if hi is not None else (z3.BoolVal(True), None)
                eng.oblige(r, pre + "starts_at_its_offset_first_at_0", "post",
                           z3.BoolVal(False) if lo_z is None else z3.And(lo_z == lst.at(i), z3.Implies(i == 0, lo_z == 0)), st,
                           "slice i starts at offsets[i]; the first one at row 0")
                eng.oblige(r, pre + "slices_adjacent_last_open_ended", "post",
                           z3.And(hn == (i == lst.n - 1), z3.Implies(i < lst.n - 1, (hv == lst.at(i + 1)) if hv is not None else z3.BoolVal(False))), st,
                           "slice i ends where slice i+1 starts; the last slice is open-ended (end None): the slices tile [0, len(data))")
                eng.oblige(r, pre + "slices_ordered", "post",
                           z3.Implies(i < lst.n - 1, lst.at(i) < lst.at(i + 1)), st, "offsets strictly ascending: no empty / negative slice")
                r.ghost["yields"] = r.ghost.get("yields", [])[:y0]
        return outs


def run_iter_dataframe(ctx, funcs, timeout):
    res = Results()
    tag = "iter_dataframe"
    N = z3.Int("len_data")
    cases = []
    c = z3.Int("row_group_offsets")
    cases.append(("int", PyI(c), [c >= 0]))
    cases.append(("None", NONE, []))
    m = z3.Int("len_row_group_offsets")
    offs = z3.Function("row_group_offsets_at", I, I)
    lst = OffList(m, lambda i: offs(i))
    lst.facts = lambda i: [offs(0) == 0, z3.Implies(z3.And(0 <= i, i + 1 < m), offs(i) < offs(i + 1))]
    cases.append(("list", Custom(lst), [m >= 1]))
    n_paths = 0
    for name, arg, pre in cases:
        def h_range_off(eng, p, args, kw, node):
            out = []
            for q, v in h_range(eng, p, args, kw, node):
                if isinstance(v, Custom) and isinstance(v.h, IntList):
                    o = OffList(v.h.n, v.h.at, v.h.srcs)
                    o.facts = lambda i: []
                    v = Custom(o)
                out.append((q, v))
            return out
        eng = BEngine(funcs=funcs, handlers={"range": h_range_off}, opaque_calls=True)
        p = Path()
        p.pc += [N >= 0] + pre
        if solve(list(p.pc) + (lst.facts(z3.Int('i0')) if name == 'list' else []), timeout)[0] == REFUTED:
            ctx.vacuity["requires_sat"] += 1
        try:
            outs = eng.run("iter_dataframe", p, [Custom(FrameI(N)), arg])
        except Unsupported as ex:
            res.add(f"{tag}[{name}].out_of_reach", UNKNOWN, None, 0.0, "engine", str(ex))
            continue
        for q in outs:
            n_paths += 1
            if q.ctl[0] == "raise":
                eng.oblige(q, f"{tag}.does_not_raise", "post", z3.BoolVal(False), None,
                           f"raises {q.ctl[1]} (e.g. range() with a zero step) for an allowed row_group_offsets")
                continue
            if not q.ghost.get("abstract_loops"):
                # concrete list of offsets (row_group_offsets == 0 -> [0]): the yields are all there
                ys = q.ghost.get("yields", [])
                ok = len(ys) == 1 and isinstance(ys[0], Custom) and isinstance(ys[0].h, SliceRec) and isinstance(ys[0].h.hi, NoneV) \
                    and isinstance(ys[0].h.lo, PyI) and z3.is_true(z3.simplify(ys[0].h.lo.z == 0))
                eng.oblige(q, f"{tag}.zero_offsets_yield_the_whole_frame", "post", z3.BoolVal(ok), None,
                           "row_group_offsets == 0: one slice data.iloc[0:None]")
            else:
                eng.oblige(q, f"{tag}.no_slice_outside_the_loop", "post", z3.BoolVal(not q.ghost.get("yields")), None)
        for ob_, (stt, be, secs, mm) in zip(eng.oblig, discharge_qf(eng.oblig, timeout)):
            nm = ob_.name.replace("iter_dataframe.", f"iter_dataframe[{name}].", 1)
            res.add(nm, stt, short_model(mm) if mm is not None else None, secs, be, ob_.note or ob_.kind)
    if not n_paths:
        ctx.engine_error("iter_dataframe: no path")
    ctx.vacuity["covers"] += n_paths
    return res


def check(ctx, timeout, parts=("write_column", "make_row_group", "iter_dataframe")):
    funcs, tree, src = parse_module("fastparquet/writer.py")
    out = []
    if "write_column" in parts:
        for fn in ("write_column", "check_32"):
            ctx.function("writer." + fn, funcs[fn].sha, funcs[fn].report)
        for dpv in (1, 2):
            out.append(run_write_column(ctx, funcs, timeout, dpv))
    if "make_row_group" in parts:
        ctx.function("writer.make_row_group", funcs["make_row_group"].sha, funcs["make_row_group"].report)
        out.append(run_make_row_group(ctx, funcs, timeout))
    if "iter_dataframe" in parts:
        ctx.function("writer.iter_dataframe", funcs["iter_dataframe"].sha, funcs["iter_dataframe"].report)
        out.append(run_iter_dataframe(ctx, funcs, timeout))
    return out
