"""C03 / C12 - call-site obligations in core.py: the callers of the native hybrid decoder are checked against the
callee's CONTRACT (cencoding.read_rle_bit_packed_hybrid requires: itemsize in {1, 4} and equal to the element size of
the array behind the output NumpyIO; itemsize == 1 only with bit_width <= 8 - otherwise values are truncated or the
decoder writes 4-byte items into a 1-byte-per-item buffer).

  hybrid.itemsize_matches_output[site]   itemsize argument == element size of the output array, on every path
  hybrid.width_fits_item[site]           itemsize == 1  =>  bit_width <= 8 on that path
read_data and read_data_page are executed symbolically from their real source (numpy/thrift calls opaque; np.empty,
NumpyIO, .view and the decoder call are modelled); the three sites of read_data_page_v2 are checked structurally
(the function is outside the executor's subset: numpy fancy indexing throughout).
"""
import ast

import z3

from vc.front_py import parse_module
from vc.symexec import Engine, Path, Custom, Opaque, Str, PyB, PyI, NONE, Unsupported, Tup, Opt, LoopSpec
from vlib.common import PROVED, REFUTED, UNKNOWN
from .util import Results, solve

DT = {"np.uint8": 1, "np.int8": 1, "np.int32": 4, "np.uint32": 4, "np.int64": 8, "'uint8'": 1, '"uint8"': 1, "'int32'": 4,
      "'uint32'": 4, "'int64'": 8, "np.bool_": 1}


class Arr:
    tracked = False

    def __init__(self, item, dyn=None):
        self.item, self.dyn = item, dyn          # item: z3 Int (element size in bytes)

    def call_method(self, eng, p, name, args, kw, node):
        if name == "view":
            return [(p, Custom(Arr(self.item)))]          # a byte view of the same buffer: element size of the BUFFER is kept
        return [(p, Opaque(("arr." + name, next(eng.counter))))]

    def attr(self, eng, p, name):
        if name == "data":
            return Custom(self)
        return Opaque(("arr." + name, next(eng.counter)))

    def slice(self, eng, p, lo, hi, node):
        return Custom(self)

    def isinstance(self, eng, p, tn):
        return z3.BoolVal("ndarray" in tn)

    def truth(self, eng, p):
        return z3.BoolVal(True)


class IO:
    tracked = False

    def __init__(self, arr):
        self.arr = arr

    def call_method(self, eng, p, name, args, kw, node):
        if name in ("read_byte", "tell", "len"):
            v = eng.fresh_int(name)
            if name == "read_byte":
                p.pc += [v >= 0, v <= 255]
            return [(p, PyI(v))]
        return [(p, Opaque(("io." + name, next(eng.counter))))]

    def attr(self, eng, p, name):
        return PyI(eng.fresh_int("io_" + name))


def _handlers(res, sites):
    def h_empty(eng, p, args, kw, node):
        d = kw.get("dtype") or (args[1] if len(args) > 1 else None)
        src = ast.unparse(next((k.value for k in node.keywords if k.arg == "dtype"), node.args[1] if len(node.args) > 1 else ast.Constant(None)))
        if src in DT:
            return [(p, Custom(Arr(z3.IntVal(DT[src]))))]
        if isinstance(d, Custom) and isinstance(d.h, DType):
            return [(p, Custom(Arr(d.h.item)))]
        return [(p, Custom(Arr(eng.fresh_int("itemsize_of_" + src[:20]))))]

    def h_numpyio(eng, p, args, kw, node):
        a = args[0]
        if isinstance(a, Opt):
            a = a.val
        if isinstance(a, Custom) and isinstance(a.h, Arr):
            return [(p, Custom(IO(a.h)))]
        return [(p, Custom(IO(None)))]

    def h_hybrid(eng, p, args, kw, node):
        width = args[1]
        o = kw.get("o") or (args[3] if len(args) > 3 else None)
        item = kw.get("itemsize") or (args[4] if len(args) > 4 else PyI(4))
        site = f"{eng.cur_func}:L{node.lineno}"
        sites.append(site)
        it = eng.as_int(item, p)
        if isinstance(o, Custom) and isinstance(o.h, IO) and o.h.arr is not None:
            eng.oblige(p, f"hybrid.itemsize_matches_output[{site}]", "post", it == o.h.arr.item, node,
                       note="itemsize argument == element size of the array behind the output NumpyIO")
        else:
            eng.oblige(p, f"hybrid.itemsize_matches_output[{site}]", "post", z3.BoolVal(False), node,
                       note="the output argument is not a NumpyIO over a known array")
        eng.oblige(p, f"hybrid.itemsize_in_1_4[{site}]", "post", z3.Or(it == 1, it == 4), node)
        eng.oblige(p, f"hybrid.width_fits_item[{site}]", "post", z3.Implies(it == 1, eng.as_int(width, p) <= 8), node,
                   note="itemsize 1 only with bit_width <= 8")
        return [(p, NONE)]
    return {"np.empty": h_empty, "encoding.NumpyIO": h_numpyio, "encoding.read_rle_bit_packed_hybrid": h_hybrid,
            "np.frombuffer": lambda e, p, a, k, n: [(p, Custom(Arr(e.fresh_int("frombuffer_item"))))]}


class DType:
    def __init__(self, item):
        self.item = item


def check(ctx, timeout):
    res = Results()
    funcs, tree, src = parse_module("fastparquet/core.py")
    for fn in ("read_data", "read_data_page", "read_data_page_v2"):
        ctx.function("core." + fn, funcs[fn].sha, funcs[fn].report)
    from vc import backends
    # ---- read_data (levels): itemsize=1, uint8 output; width is a level width (assumed <= 8: max level < 256)
    sites = []
    eng = Engine(funcs=funcs, handlers=_handlers(res, sites), opaque_calls=True, loops={("read_data", 0): LoopSpec("unroll", 1)})
    p = Path()
    bw = z3.Int("bit_width")
    p.pc += [bw >= 0, bw <= 8]
    try:
        eng.run("read_data", p, [Opaque("fobj"), Opaque("coding"), PyI(z3.Int("count")), PyI(bw), NONE])
    except Unsupported as ex:
        res.add("hybrid.callsite[read_data].out_of_reach", UNKNOWN, None, 0.0, "engine", str(ex))
    obl = [ob for ob in eng.oblig if ob.name.startswith("hybrid.")]
    for ob in obl:
        st, be, secs, m = backends.discharge(ob, timeout)
        res.add(ob.name, st, {"z3_model": str(m)[:200]} if m is not None else None, secs, be, ob.note or ob.kind)
    n_sites = len(set(sites))
    # ---- read_data_page (v1 dictionary indices / RLE booleans)
    sites2 = []
    h2 = _handlers(res, sites2)
    skip_seen = []

    def h_skip(eng, p, args, kw, node):
        # the level block to skip is the one of THIS PAGE: its length depends on the page's value count
        want = ("header", "data_page_header", "num_values")
        got = args[1].tag if isinstance(args[1], Opaque) else None

        def flat(t):
            return tuple(x for y in t for x in (flat(y) if isinstance(y, tuple) else (y,))) if isinstance(t, tuple) else (t,)
        ok = got is not None and tuple(str(x) for x in flat(got)) == want
        skip_seen.append(ok)
        eng.oblige(p, f"skip_definition_bytes.count_is_page_num_values[read_data_page:L{node.lineno}]", "post", z3.BoolVal(ok), node,
                   note="skip_definition_bytes is given the PAGE header's num_values (got: %s)" % (got,))
        return [(p, NONE)]
    h2["skip_definition_bytes"] = h_skip
    eng = Engine(funcs=funcs, handlers=h2, opaque_calls=True)
    p = Path()
    try:
        eng.run("read_data_page", p, [Opaque("f"), Opaque("helper"), Opaque("header"), Opaque("metadata"),
                                      PyB(eng.fresh("skip_nulls", z3.BoolSort())), PyB(False)])
    except Unsupported as ex:
        res.add("hybrid.callsite[read_data_page].out_of_reach", UNKNOWN, None, 0.0, "engine", str(ex))
    for ob in [ob for ob in eng.oblig if ob.name.startswith(("hybrid.", "skip_definition_bytes."))]:
        st, be, secs, m = backends.discharge(ob, timeout)
        res.add(ob.name, st, {"z3_model": str(m)[:300]} if m is not None else None, secs, be, ob.note or ob.kind)
    if not skip_seen:
        res.add("skip_definition_bytes.callsite[read_data_page].reached", UNKNOWN, None, 0.0, "engine", "call not reached")
    n_sites += len(set(sites2))
    if len(set(sites2)) < 2:
        res.add("hybrid.callsite[read_data_page].sites_reached", UNKNOWN, None, 0.0, "engine",
                f"only {len(set(sites2))} decoder call sites reached by symbolic execution (expected 2)")
    # ---- read_data_page_v2: structural
    f2 = funcs["read_data_page_v2"].tree
    for node in ast.walk(f2):
        if isinstance(node, ast.Call) and ast.unparse(node.func) == "encoding.read_rle_bit_packed_hybrid":
            kws = {k.arg: k.value for k in node.keywords}
            item = kws.get("itemsize") or (node.args[4] if len(node.args) > 4 else None)
            site = f"read_data_page_v2:L{node.lineno}"
            n_sites += 1
            const = isinstance(item, ast.Constant) and item.value in (1, 4)
            res.add(f"hybrid.itemsize_in_1_4[{site}]", PROVED if const else REFUTED,
                    None if const else {"site": site, "itemsize_expression": ast.unparse(item) if item is not None else None}, 0.0, "ast",
                    "the itemsize argument is the constant 1 or 4")
            ln = node.args[2] if len(node.args) > 2 else kws.get("length")
            res.add(f"hybrid.length_is_bytes[{site}]", PROVED if ln is not None and "num_values" not in ast.unparse(ln) else REFUTED,
                    None if ln is not None and "num_values" not in ast.unparse(ln) else {"site": site, "length_expression": ast.unparse(ln)},
                    0.0, "ast", "the `length` argument is a byte length (not a value count)")
    # ---- encoding.read_plain_boolean -> read_bitpacked1: the kernel's precondition "the run's bytes are present"
    enc, _, _ = parse_module("fastparquet/encoding.py")
    ctx.function("encoding.read_plain_boolean", enc["read_plain_boolean"].sha, enc["read_plain_boolean"].report)
    count = z3.Int("count")
    nbytes = z3.Int("raw_nbytes")

    class Buf(Arr):
        def __init__(self, n):
            super().__init__(z3.IntVal(1))
            self.n = n

        def call_method(self, eng, p, name, args, kw, node):
            if name == "view":
                return [(p, Custom(self))]
            return super().call_method(eng, p, name, args, kw, node)

        def slice(self, eng, p, lo, hi, node):
            return Custom(self)

    def hb_frombuffer(eng, p, args, kw, node):
        return [(p, Custom(Buf(nbytes)))]

    def hb_empty(eng, p, args, kw, node):
        return [(p, Custom(Buf(eng.as_int(args[0], p))))]

    def hb_numpyio(eng, p, args, kw, node):
        a = args[0]
        return [(p, Custom(IO(a.h if isinstance(a, Custom) else None)))]
    reached = []

    def hb_rb1(eng, p, args, kw, node):
        f, cnt, o = args
        c = eng.as_int(cnt, p)
        reached.append(1)
        fin = f.h.arr.n if isinstance(f, Custom) and isinstance(f.h, IO) and isinstance(f.h.arr, Buf) else None
        eng.oblige(p, "bitpacked1.count_in_range[read_plain_boolean]", "post", z3.And(c >= 0, c <= 2 ** 31 - 8), node)
        eng.oblige(p, "bitpacked1.input_bytes_present[read_plain_boolean]", "post",
                   ((c + 7) / 8 <= fin) if fin is not None else z3.BoolVal(False), node,
                   note="the kernel reads ceil(count_arg / 8) input bytes unchecked: a valid page of `count` values holds ceil(count / 8)")
        return [(p, NONE)]
    eng = Engine(funcs=enc, handlers={"np.frombuffer": hb_frombuffer, "np.empty": hb_empty, "NumpyIO": hb_numpyio, "read_bitpacked1": hb_rb1},
                 opaque_calls=True)
    p = Path()
    p.pc += [count >= 0, count <= 2 ** 31 - 16, nbytes >= (count + 7) / 8]        # requires: a valid PLAIN boolean page
    try:
        eng.run("read_plain_boolean", p, [Opaque("raw_bytes"), PyI(count), NONE])
    except Unsupported as ex:
        res.add("bitpacked1.callsite[read_plain_boolean].out_of_reach", UNKNOWN, None, 0.0, "engine", str(ex))
    for ob in [ob for ob in eng.oblig if ob.name.startswith("bitpacked1.")]:
        st, be, secs, m = backends.discharge(ob, timeout)
        res.add(ob.name, st, {"count": backends.model_value(m, count), "raw_nbytes": backends.model_value(m, nbytes)} if m is not None else None,
                secs, be, ob.note or ob.kind)
    if not reached:
        res.add("bitpacked1.callsite[read_plain_boolean].reached", UNKNOWN, None, 0.0, "engine", "the kernel call was not reached")
    # ---- statistics buffers must never reach the length-prefixed byte-array unpacker --------------------------------------
    # encoding.read_plain(raw, BYTE_ARRAY, count) hands `raw` to speedups.unpack_byte_array, whose contract (contracts/c12_speedups:
    # "n values back to back, each a 4-byte length + payload, inside the buffer") a RAW statistic value (Statistics.min/max: the bare
    # bytes of ONE value, no length prefix) does not satisfy: its first four bytes would be read as a length (heap over-read /
    # SIGSEGV). The only caller-side way to keep the precondition is the `stat=True` switch of read_plain. Posed per call site of
    # api.py (which decodes nothing but statistics): keyword stat is the constant True.
    afuncs, atree, _ = parse_module("fastparquet/api.py")
    n_stat = 0
    for node in ast.walk(atree):
        if isinstance(node, ast.Call) and ((isinstance(node.func, ast.Attribute) and node.func.attr == "read_plain")
                                           or (isinstance(node.func, ast.Name) and node.func.id == "read_plain")):
            n_stat += 1
            kw = {k.arg: k.value for k in node.keywords}
            ok = isinstance(kw.get("stat"), ast.Constant) and kw["stat"].value is True
            cnt = node.args[2] if len(node.args) > 2 else kw.get("count")
            one = isinstance(cnt, ast.Constant) and cnt.value == 1
            res.add(f"read_plain.statistic_decoded_with_stat_switch[api.py:{_enclosing(atree, node)}:#{n_stat}]",
                    PROVED if ok and one else REFUTED, None if ok and one else {"call": ast.unparse(node)[:160]}, 0.0, "ast",
                    "a raw Statistics value is decoded with read_plain(..., 1, stat=True): it never reaches unpack_byte_array, whose "
                    "precondition (length-prefixed values inside the buffer) it does not satisfy")
    if n_stat < 6:
        ctx.engine_error(f"C03 call sites: only {n_stat} statistic decode sites found in api.py (expected >= 6)")
    if n_sites < 6:
        ctx.engine_error(f"C03 call sites: only {n_sites} decoder call sites found (expected >= 6)")
    return res


def _enclosing(tree, node):
    """name of the function whose body contains `node` (for stable obligation names without line numbers)"""
    best = "?"
    for f in ast.walk(tree):
        if isinstance(f, (ast.FunctionDef, ast.AsyncFunctionDef)) and any(n is node for n in ast.walk(f)):
            best = f.name
    return best
